"""Project loader: parses every operon_ai/**/*.py of the *current working tree*
(never imports it) and builds module / class / function tables.

The repo root is /repo unless OPSA_REPO is set (the self-test points it at a
scratch copy)."""
from __future__ import annotations

import ast
import hashlib
import os
from dataclasses import dataclass, field
from pathlib import Path

PKG = "operon_ai"


class AnchorError(Exception):
    """An anchor (class / function / field a rule is about) cannot be found,
    or an analysed construct is outside the idioms the engine understands.
    Always ends the run as ANALYSIS-ERROR (exit 2), never as pass/violation."""


def repo_root() -> Path:
    return Path(os.environ.get("OPSA_REPO", "/repo"))


@dataclass
class Module:
    name: str          # operon_ai.state.metabolism
    path: Path
    rel: str           # operon_ai/state/metabolism.py
    src: str
    tree: ast.Module
    sha256: str
    imports: dict = field(default_factory=dict)   # local name -> dotted target


@dataclass
class FuncInfo:
    qual: str          # Class.method  or  function
    module: Module
    node: ast.FunctionDef
    cls: "ClassInfo | None" = None
    inherited_from: "ClassInfo | None" = None      # set on the copy a subclass gets of a private base's method

    @property
    def name(self):
        return self.node.name

    @property
    def key(self):
        return f"{self.module.rel}::{self.qual}"

    def params(self):
        a = self.node.args
        return [x.arg for x in a.posonlyargs + a.args + a.kwonlyargs]


@dataclass
class ClassInfo:
    name: str
    module: Module
    node: ast.ClassDef
    methods: dict = field(default_factory=dict)       # name -> FuncInfo
    setters: dict = field(default_factory=dict)       # property name -> FuncInfo of its `@<name>.setter`
    assigns: dict = field(default_factory=dict)       # class-level name -> value expr
    annots: dict = field(default_factory=dict)        # class-level name -> annotation expr
    bases: list = field(default_factory=list)         # base simple names
    decorators: list = field(default_factory=list)

    @property
    def key(self):
        return f"{self.module.rel}::{self.name}"

    def is_dataclass(self):
        for d in self.node.decorator_list:
            t = d.func if isinstance(d, ast.Call) else d
            if (isinstance(t, ast.Name) and t.id == "dataclass") or (
                isinstance(t, ast.Attribute) and t.attr == "dataclass"
            ):
                return True
        return False

    def dataclass_kwargs(self):
        for d in self.node.decorator_list:
            if isinstance(d, ast.Call):
                return {k.arg: k.value for k in d.keywords}
        return {}

    def field_names(self):
        """annotated class-level names (the fields of a dataclass / NamedTuple)"""
        return list(self.annots)

    def field_default(self, name):
        """the class-level value expression of a field (a literal, `field(default_factory=…)` …) or None"""
        return self.assigns.get(name)

    def is_enum(self):
        return any(b in ("Enum", "IntEnum", "StrEnum", "Flag", "IntFlag") for b in self.bases)

    def enum_members(self):
        """ordered [(name, value expr)] for Enum classes"""
        out = []
        for st in self.node.body:
            if isinstance(st, ast.Assign) and len(st.targets) == 1 and isinstance(st.targets[0], ast.Name):
                n = st.targets[0].id
                if not n.startswith("_"):
                    out.append((n, st.value))
        return out


def set_parents(tree):
    for n in ast.walk(tree):
        for c in ast.iter_child_nodes(n):
            c._parent = n
    tree._parent = None


def parent(n):
    return getattr(n, "_parent", None)


def enclosing(n, types):
    p = parent(n)
    while p is not None and not isinstance(p, types):
        p = parent(p)
    return p


def enclosing_stmt(n):
    while n is not None and not isinstance(n, ast.stmt):
        n = parent(n)
    return n


class Project:
    def __init__(self, root: Path | None = None):
        self.root = Path(root) if root else repo_root()
        self.modules: dict[str, Module] = {}
        self.classes: dict[str, list[ClassInfo]] = {}
        self.functions: dict[str, list[FuncInfo]] = {}   # module-level functions by simple name
        self.all_funcs: list[FuncInfo] = []
        pkg = self.root / PKG
        if not pkg.is_dir():
            raise AnchorError(f"package directory {pkg} not found")
        for p in sorted(pkg.rglob("*.py")):
            rel = p.relative_to(self.root).as_posix()
            src = p.read_text(encoding="utf-8")
            try:
                tree = ast.parse(src, filename=rel)
            except SyntaxError as e:
                raise AnchorError(f"{rel} does not parse: {e}")
            set_parents(tree)
            name = rel[:-3].replace("/", ".")
            if name.endswith(".__init__"):
                name = name[: -len(".__init__")]
            m = Module(name, p, rel, src, tree, hashlib.sha256(src.encode()).hexdigest())
            self._imports(m)
            self.modules[name] = m
            self._index(m)
        self._flatten_private_bases()

    # ------------------------------------------------------------------
    def _flatten_private_bases(self):
        """Methods and class-level names a class inherits from a *private* package base (a mixin `_X`, an extracted
        `_XBase`) are presented as the class's own (a FuncInfo copy with cls = the subclass): moving code into a
        private base is an implementation detail, and every rule keyed on 'methods of class C' keeps seeing it."""
        done = set()

        def flatten(ci):
            if id(ci) in done:
                return
            done.add(id(ci))
            for b in ci.bases:
                for bc in self.classes.get(b, []):
                    if not bc.name.startswith("_") or bc is ci:
                        continue
                    flatten(bc)
                    for mname, bm in bc.methods.items():
                        if mname not in ci.methods:
                            fi = FuncInfo(f"{ci.name}.{mname}", bm.module, bm.node, ci)
                            fi.inherited_from = bc
                            ci.methods[mname] = fi
                            self.all_funcs.append(fi)
                    for sname, bs in bc.setters.items():
                        if sname not in ci.setters:
                            fi = FuncInfo(f"{ci.name}.{sname}.setter", bs.module, bs.node, ci)
                            fi.inherited_from = bc
                            ci.setters[sname] = fi
                            self.all_funcs.append(fi)
                    for k, v in bc.assigns.items():
                        ci.assigns.setdefault(k, v)
                    for k, v in bc.annots.items():
                        ci.annots.setdefault(k, v)
        used_as_base = set()
        for lst in list(self.classes.values()):
            for ci in lst:
                flatten(ci)
                for b in ci.bases:
                    for bc in self.classes.get(b, []):
                        if bc.name.startswith("_") and bc is not ci:
                            used_as_base.add(id(bc))
        # the private base's own FuncInfos are analysed through the copies of its subclasses only
        self.all_funcs = [f for f in self.all_funcs if not (f.cls is not None and id(f.cls) in used_as_base)]

    # ------------------------------------------------------------------
    def _imports(self, m: Module):
        pkgparts = m.name.split(".")
        is_pkg = m.rel.endswith("__init__.py")
        for n in ast.walk(m.tree):
            if isinstance(n, ast.Import):
                for a in n.names:
                    m.imports[a.asname or a.name.split(".")[0]] = a.name if a.asname else a.name.split(".")[0]
            elif isinstance(n, ast.ImportFrom):
                if n.level:
                    base = pkgparts if is_pkg else pkgparts[:-1]
                    base = base[: len(base) - (n.level - 1)] if n.level > 1 else base
                    mod = ".".join(base + ([n.module] if n.module else []))
                else:
                    mod = n.module or ""
                for a in n.names:
                    m.imports[a.asname or a.name] = f"{mod}.{a.name}"

    def _index(self, m: Module):
        for st in m.tree.body:
            self._index_stmt(m, st)

    def _index_stmt(self, m, st):
        if isinstance(st, ast.ClassDef):
            ci = ClassInfo(st.name, m, st)
            for b in st.bases:
                if isinstance(b, ast.Name):
                    ci.bases.append(b.id)
                elif isinstance(b, ast.Attribute):
                    ci.bases.append(b.attr)
                elif isinstance(b, ast.Subscript) and isinstance(b.value, ast.Name):
                    ci.bases.append(b.value.id)
            for s in st.body:
                if isinstance(s, ast.FunctionDef):
                    acc = next((d.attr for d in s.decorator_list if isinstance(d, ast.Attribute) and d.attr in ("setter", "deleter", "getter")
                                and isinstance(d.value, ast.Name) and d.value.id == s.name), None)
                    if acc in ("setter", "deleter"):
                        # `@x.setter def x(self, v)`: the property keeps its getter under the name; the setter is filed apart
                        fi = FuncInfo(f"{st.name}.{s.name}.{acc}", m, s, ci)
                        if acc == "setter":
                            ci.setters[s.name] = fi
                        self.all_funcs.append(fi)
                        continue
                    fi = FuncInfo(f"{st.name}.{s.name}", m, s, ci)
                    ci.methods[s.name] = fi
                    self.all_funcs.append(fi)
                elif isinstance(s, ast.Assign):
                    for t in s.targets:
                        if isinstance(t, ast.Name):
                            ci.assigns[t.id] = s.value
                elif isinstance(s, ast.AnnAssign) and isinstance(s.target, ast.Name):
                    ci.annots[s.target.id] = s.annotation
                    if s.value is not None:
                        ci.assigns[s.target.id] = s.value
            self.classes.setdefault(st.name, []).append(ci)
        elif isinstance(st, ast.FunctionDef):
            fi = FuncInfo(st.name, m, st, None)
            self.functions.setdefault(st.name, []).append(fi)
            self.all_funcs.append(fi)
        elif isinstance(st, (ast.If, ast.Try)):
            for s in ast.iter_child_nodes(st):
                if isinstance(s, ast.stmt):
                    self._index_stmt(m, s)

    # ------------------------------------------------------------------
    def module(self, rel_or_name: str) -> Module:
        for m in self.modules.values():
            if m.rel == rel_or_name or m.name == rel_or_name:
                return m
        raise AnchorError(f"module {rel_or_name} not found in working tree")

    def cls(self, name: str, module: str | None = None) -> ClassInfo:
        allc = self.classes.get(name, [])
        cands = allc
        if module:
            cands = [c for c in cands if c.module.rel == module or c.module.name == module]
            if not cands and len(allc) == 1:
                # the class moved to another module of the package (and is re-exported from where it used to live): the
                # anchor is the class, not the file it happens to be written in
                m_ = self.modules.get(module) or next((m for m in self.modules.values() if m.rel == module or m.name == module), None)
                if m_ is None or name in getattr(m_, "imports", {}):
                    cands = allc
        if len(cands) != 1:
            raise AnchorError(f"class {name}" + (f" in {module}" if module else "") + f": {len(cands)} definitions found")
        return cands[0]

    def has_cls(self, name, module=None):
        try:
            self.cls(name, module)
            return True
        except AnchorError:
            return False

    def method(self, cls: str, name: str, module: str | None = None) -> FuncInfo:
        ci = self.cls(cls, module)
        f = self.find_method(ci, name)
        if f is None:
            raise AnchorError(f"method {cls}.{name} not found")
        return f

    def find_method(self, ci: ClassInfo, name: str) -> FuncInfo | None:
        """method lookup through the package-visible MRO (depth-first, left-to-right)"""
        seen = set()
        stack = [ci]
        while stack:
            c = stack.pop(0)
            if id(c) in seen:
                continue
            seen.add(id(c))
            if name in c.methods:
                return c.methods[name]
            for b in c.bases:
                for bc in self.classes.get(b, []):
                    stack.append(bc)
        return None

    def subclasses(self, ci: ClassInfo):
        out = []
        for lst in self.classes.values():
            for c in lst:
                if ci.name in c.bases:
                    out.append(c)
                    out.extend(self.subclasses(c))
        return out

    def func(self, name: str, module: str | None = None) -> FuncInfo:
        allf = self.functions.get(name, [])
        cands = allf
        if module:
            cands = [c for c in cands if c.module.rel == module or c.module.name == module]
            if not cands and len(allf) == 1:
                cands = allf            # moved to another module of the package
        if len(cands) != 1:
            raise AnchorError(f"function {name}: {len(cands)} definitions found")
        return cands[0]

    def files_evidence(self, rels=None):
        out = []
        for m in self.modules.values():
            if rels is None or m.rel in rels:
                out.append({"file": m.rel, "sha256": m.sha256[:16]})
        return out


# ----------------------------------------------------------------------
# small AST helpers shared by rules

def src(n) -> str:
    """normalised source text of a node (used in construct keys; independent of
    layout / line numbers)"""
    try:
        return ast.unparse(n)
    except Exception:
        return type(n).__name__


def short(n, k=70) -> str:
    s = " ".join(src(n).split())
    return s if len(s) <= k else s[: k - 1] + "…"


def is_self_attr(n, attr=None):
    return (
        isinstance(n, ast.Attribute)
        and isinstance(n.value, ast.Name)
        and n.value.id == "self"
        and (attr is None or n.attr == attr)
    )


def dotted(n):
    """a.b.c -> 'a.b.c' for Name/Attribute chains else None"""
    parts = []
    while isinstance(n, ast.Attribute):
        parts.append(n.attr)
        n = n.value
    if isinstance(n, ast.Name):
        parts.append(n.id)
        return ".".join(reversed(parts))
    return None


def calls_in(n):
    return [x for x in ast.walk(n) if isinstance(x, ast.Call)]


def call_name(c: ast.Call):
    """simple name of the called attribute / function"""
    f = c.func
    if isinstance(f, ast.Attribute):
        return f.attr
    if isinstance(f, ast.Name):
        return f.id
    return None


def walk_no_nested(node):
    """ast.walk that does not descend into nested function / class / lambda bodies"""
    todo = list(ast.iter_child_nodes(node))
    while todo:
        n = todo.pop()
        yield n
        if isinstance(n, (ast.FunctionDef, ast.AsyncFunctionDef, ast.ClassDef, ast.Lambda)):
            continue
        todo.extend(ast.iter_child_nodes(n))


def func_stmts(fn: ast.FunctionDef):
    """all statements of a function body (not nested defs' bodies)"""
    for n in walk_no_nested(fn):
        if isinstance(n, ast.stmt):
            yield n
