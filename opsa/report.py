"""Obligation ledger -> evidence JSON, VIOLATION / KNOWN-FINDING lines, exit code."""
from __future__ import annotations

import json
import os
import sys
import time
from pathlib import Path

VERIF = Path(__file__).resolve().parent.parent
EVID = Path(os.environ["OPSA_EVIDENCE_DIR"]) if os.environ.get("OPSA_EVIDENCE_DIR") else VERIF / "evidence"
KNOWN = VERIF / "known_findings.json"


class _Corroborating:
    def __init__(self, led, holds, decided_by):
        self.__dict__.update(_led=led, _holds=holds, _by=decided_by, _weak=False)

    def __getattr__(self, k):
        return getattr(self._led, k)

    def __setattr__(self, k, v):
        setattr(self._led, k, v)

    def fail(self, rule, construct, where, why, path=None, witness=None):
        if self._holds:
            self.__dict__["_weak"] = True
            self._led.undecided(rule, construct, where, f"structural rule does not recognise this shape ({why[:140]}); decided by {self._by}, which holds")
        else:
            self._led.fail(rule, construct, where, why, path=path, witness=witness)

    def run_section(self, rids, fn, where="", floor_to=None):
        """run one group of corroborating rules; an anchor loss inside it is undecided (not analysis-broken) while the
        deciding rule holds"""
        from .loader import AnchorError
        try:
            fn()
        except AnchorError as e:
            if not self._holds:
                raise
            self.__dict__["_weak"] = True
            self._led.info(f"structural rule(s) {', '.join(rids)} not applicable to this shape ({e}); decided by {self._by}")
            for rid in rids:
                self._led.undecided(rid, "structural rule ▸ anchor shape", where, f"anchor not found ({e}); decided by {self._by}")

    @property
    def weakened(self):
        return self._weak


class Ledger:
    def __init__(self, prop: str, tier: str):
        self.prop = prop
        self.tier = tier
        self.t0 = time.time()
        self.obls = []          # dicts
        self.rules = {}         # rule -> description
        self.floors = {}        # rule -> (min instances, why)
        self.not_decided = []
        self.assumptions = []
        self.analysed = {"files": [], "functions": [], "cfg_nodes": 0, "cfg_edges": 0, "unresolved": []}
        self.extra = {}
        self.level = "other"
        self.explanation = ""
        self.exhaustive = None
        self.infos = []

    # ---- declaring
    def rule(self, rid, text, floor=1, why=""):
        self.rules[rid] = text
        self.floors[rid] = (floor, why)

    def ok(self, rule, construct, where, how, nontrivial=True, detail=None):
        self.obls.append(dict(rule=rule, construct=construct, where=where, status="discharged",
                              how=how, nontrivial=nontrivial, detail=detail))

    def fail(self, rule, construct, where, why, path=None, witness=None):
        self.obls.append(dict(rule=rule, construct=construct, where=where, status="failed",
                              why=why, path=path, witness=witness, nontrivial=True))

    def undecided(self, rule, construct, where, why):
        """the rule could neither be discharged nor refuted with the precision available (never an alarm)"""
        self.obls.append(dict(rule=rule, construct=construct, where=where, status="undecided", why=why, nontrivial=True))

    def info(self, text):
        self.infos.append(text)

    def corroborating(self, holds: bool, decided_by: str):
        """view of this ledger for shape-keyed rules that corroborate a deciding rule (an interpreted table): while the
        deciding rule holds, a failure of a corroborating rule means the shape was not recognised and is recorded as
        undecided; when the deciding rule fails, everything is reported.  Use run_section() for anchor losses."""
        return _Corroborating(self, holds, decided_by)

    def note_cfg(self, fi, cfg):
        s = cfg.stats()
        self.analysed["cfg_nodes"] += s["nodes"]
        self.analysed["cfg_edges"] += s["edges"]
        if fi.key not in self.analysed["functions"]:
            self.analysed["functions"].append(fi.key)

    def note_func(self, fi):
        if fi.key not in self.analysed["functions"]:
            self.analysed["functions"].append(fi.key)

    # ---- finishing
    def key(self, o):
        return f"{o['rule']} :: {o['construct']}"

    def finish(self, project=None, files=None) -> int:
        if os.environ.get("OPSA_VERBOSE"):
            for o in self.obls:
                print(f"  [{o['status']}] {o['rule']} {o['construct']} — {o.get('how') or o.get('why') or ''}")
        known = []
        if KNOWN.exists():
            known = [k for k in json.loads(KNOWN.read_text()) if k.get("property") == self.prop]
        known_keys = {k["key"]: k for k in known if k.get("status") == "known"}
        # floors
        errors = []
        for rid, (floor, why) in self.floors.items():
            n = sum(1 for o in self.obls if o["rule"] == rid)
            if n < floor:
                errors.append(f"rule {rid} matched {n} instance(s), fewer than the confirmed floor {floor} ({why})")
        failed_any = [o for o in self.obls if o["status"] == "failed" and self.key(o) not in known_keys]
        if errors and not failed_any:
            for e in errors:
                print(f"ANALYSIS-ERROR property={self.prop} {e}")
            self._write(project, files, violations=0, status="analysis-error", errors=errors)
            return 2
        for e in errors:
            print(f"NOTE property={self.prop} {e} (reported violations stand; dependent obligations could not be generated)")
        failed = [o for o in self.obls if o["status"] == "failed"]
        viol = []
        kf = []
        for o in failed:
            k = self.key(o)
            if k in known_keys:
                o["status"] = "known-finding"
                kf.append((o, known_keys[k]))
            else:
                viol.append(o)
        for o, k in kf:
            print(f"KNOWN-FINDING: property={self.prop} {k['key']} — {k.get('what', o['why'])}")
        rdir = EVID / "replay"
        if viol:
            rdir.mkdir(parents=True, exist_ok=True)
        for i, o in enumerate(viol):
            rp = rdir / f"{self.prop}-{i}.json"
            rp.write_text(json.dumps(dict(property=self.prop, key=self.key(o), **o), indent=1, default=str))
            print(f"VIOLATION property={self.prop} replay={rp}")
            print(f"  {o['where']} rule={o['rule']} instance={o['construct']} : {o['why']}")
            if o.get("path"):
                for step in o["path"]:
                    print(f"      {step}")
            if o.get("witness"):
                print(f"      witness: {o['witness']}")
        self._write(project, files, violations=len(viol), status="violation" if viol else "ok")
        n_ok = sum(1 for o in self.obls if o["status"] == "discharged")
        n_und = sum(1 for o in self.obls if o["status"] == "undecided")
        print(f"[{self.prop}/{self.tier}] obligations={len(self.obls)} discharged={n_ok} "
              f"known-findings={len(kf)} violations={len(viol)}" + (f" undecided={n_und}" if n_und else "") + f" wall={time.time() - self.t0:.2f}s")
        return 1 if viol else 0

    def _write(self, project, files, violations, status, errors=None):
        EVID.mkdir(parents=True, exist_ok=True)
        n_ok = sum(1 for o in self.obls if o["status"] == "discharged")
        distinct = len({self.key(o) for o in self.obls if o.get("nontrivial")})
        level = self.level
        if level == "proof" and n_ok != len(self.obls):
            level = "other"
        samples = []
        seen_rules = set()
        # one sample per rule first, then failed ones, bounded
        for o in sorted(self.obls, key=lambda o: (o["status"] == "discharged", not o.get("nontrivial"))):
            samples.append({k: v for k, v in o.items() if v is not None})
        samples = samples[:150]
        if project is not None:
            self.analysed["files"] = project.files_evidence(files)
        cov = {
            "obligations": len(self.obls),
            "discharged": n_ok,
            "checker_cmd": f"./check {self.prop} --tier {self.tier}",
            "trusted_base": [
                "CPython ast module (parser of the interpreter the repo runs on)",
                "opsa engine (/verif/opsa): CFG with exception edges, resolver, abstract interpreter",
                "DESIGN.md §4 assumptions A1-A6",
            ],
            "explanation": self.explanation,
            "evaluations": len(self.obls),
            "distinct_nontrivial": distinct,
            "rule": "one evaluation = one rule instance (obligation) found in the current source; "
                    "non-trivial = discharge needed a path, dataflow, lock-region or folded-table argument; "
                    "distinct = distinct (rule, construct) keys",
            "samples": samples,
            "rules": self.rules,
            "per_rule": {r: {"instances": sum(1 for o in self.obls if o["rule"] == r),
                             "failed": sum(1 for o in self.obls if o["rule"] == r and o["status"] != "discharged"),
                             "floor": self.floors[r][0]} for r in self.rules},
            "analysed": self.analysed,
            "not_decided": self.not_decided,
            "known_findings_reported": [self.key(o) for o in self.obls if o["status"] == "known-finding"],
            "undecided": [self.key(o) for o in self.obls if o["status"] == "undecided"],
            "status": status,
        }
        if self.exhaustive is not None:
            cov["exhaustive"] = self.exhaustive
        if self.infos:
            cov["info"] = self.infos
        if errors:
            cov["errors"] = errors
        cov.update(self.extra)
        ev = {
            "property_id": self.prop,
            "tier": self.tier,
            "seed": int(os.environ.get("VERIF_SEED", "0") or 0),
            "level": level,
            "coverage": cov,
            "assumptions": self.assumptions,
            "wall_s": round(time.time() - self.t0, 3),
            "violations": violations,
        }
        (EVID / f"{self.prop}.json").write_text(json.dumps(ev, indent=1, default=str))
