"""Self-test of the checker (thorough tier): every property's rules are run against
scratch copies of the current tree with one thing changed.

  * FIRE mutants — one instance broken (guard deleted, comparator flipped, call moved
    out of the critical section, table entry swapped, …) plus the independently
    produced seeded changes under /verif/seeded: the check must exit 1 and name a
    rule of the expected family.
  * SILENT mutants — behaviour-preserving edits (rename, Lock→RLock, helper
    extraction, reordered independent statements, message changes): the check must
    stay at exit 0.

A mutant whose anchor text is missing in the current tree is skipped and counted.
A self-test failure means the *checker* is wrong: exit 2, never a VIOLATION."""
from __future__ import annotations

import json
import os
import random
import shutil
import subprocess
import sys
import tempfile
from concurrent.futures import ThreadPoolExecutor
from pathlib import Path

from .loader import repo_root

VERIF = Path(__file__).resolve().parent.parent

# (property, name, kind, file, old, new, expected rule prefix or None)
CATALOG = [
    # ---- C05
    ("C05", "peer-credited-inside-region", "fire", "operon_ai/state/metabolism.py",
     "                self.nadh -= amount\n\n        other.regenerate(amount, energy_type)", "                self.nadh -= amount\n\n            other.regenerate(amount, energy_type)", "C05-R3"),
    ("C05", "peer-lock-in-same-with", "fire", "operon_ai/state/metabolism.py",
     "        with self._lock:\n            if energy_type == EnergyType.ATP:\n                if self.atp < amount:\n                    return False\n                self.atp -= amount",
     "        with self._lock, other._lock:\n            if energy_type == EnergyType.ATP:\n                if self.atp < amount:\n                    return False\n                self.atp -= amount", "C05-R3"),
    ("C05", "lock-to-rlock", "silent", "operon_ai/state/metabolism.py", "self._lock = threading.Lock()", "self._lock = threading.RLock()", None),
    ("C05", "foreign-writer", "fire", "operon_ai/core/agent.py", "        if not self.atp.consume(cost=10):", "        self.atp.atp -= 0\n        if not self.atp.consume(cost=10):", "C05-R4"),
    # ---- C09
    ("C09", "terminal-test-removed", "fire", "operon_ai/state/telomere.py",
     "            if self._phase in (LifecyclePhase.APOPTOTIC, LifecyclePhase.TERMINATED):\n                return False\n\n            # Auto-start", "            # Auto-start", "C09-R"),
    ("C09", "max0-dropped", "fire", "operon_ai/state/telomere.py", "self._telomere_length = max(0, self._telomere_length - cost)", "self._telomere_length = self._telomere_length - cost", "C09-R5"),
    ("C09", "lock-to-rlock", "silent", "operon_ai/state/telomere.py", "self._lock = threading.Lock()", "self._lock = threading.RLock()", None),
    ("C09", "renew-terminated-guard-removed", "fire", "operon_ai/state/telomere.py",
     "            if self._phase == LifecyclePhase.TERMINATED:\n                return False\n\n            # Restore telomere length", "            # Restore telomere length", "C09-R"),
    # ---- C13
    ("C13", "capacity-test-removed", "fire", "operon_ai/organelles/lysosome.py",
     "            if len(self._queue) >= self.max_queue_size:\n                # Emergency digest\n                self._emergency_digest()\n", "", "C13-R3"),
    ("C13", "suffix-off-by-one", "fire", "operon_ai/organelles/lysosome.py", "self._queue = self._queue[items_to_process:]", "self._queue = self._queue[items_to_process + 1:]", "C13-R3"),
    ("C13", "lock-to-rlock", "silent", "operon_ai/organelles/lysosome.py", "self._lock = threading.Lock()", "self._lock = threading.RLock()", None),
    ("C13", "toxic-returns-content", "fire", "operon_ai/organelles/lysosome.py", "        # - Notify security systems\n\n        return {}", "        # - Notify security systems\n\n        return {'leak': waste.content}", "C13-R6"),
    # ---- C14
    ("C14", "except-narrowed", "fire", "operon_ai/coordination/system.py", "        except Exception as e:\n            # Abort on any error", "        except CoordinationError as e:\n            # Abort on any error", "C14-R1"),
    ("C14", "validation-before-work", "fire", "operon_ai/coordination/system.py",
     "            # Execute work in S phase\n            try:\n                result = work_fn()", "            if validate_fn:\n                validate_fn(None)\n            # Execute work in S phase\n            try:\n                result = work_fn()", "C14-R4"),
    ("C14", "message-changed", "silent", "operon_ai/coordination/system.py", 'raise ResourceError(f"Blocked on resource {resource_id}")', 'raise ResourceError(f"resource {resource_id} is busy")', None),
    # ---- C16
    ("C16", "integrity-comparator-flipped", "fire", "operon_ai/core/wagent.py", "return self.data_type == other.data_type and self.integrity >= other.integrity",
     "return self.data_type == other.data_type and self.integrity > other.integrity", "C16-R1"),
    ("C16", "executed-add-removed", "fire", "operon_ai/core/wiring_runtime.py", "                executed.add(module_name)\n", "", "C16-R"),
    ("C16", "message-changed", "silent", "operon_ai/core/wiring_runtime.py", 'f"Multiple sources for input port: {module_name}.{port_name}"', 'f"input port {module_name}.{port_name} has several sources"', None),
    # ---- C19
    ("C19", "break-dropped-after-blocked", "fire", "operon_ai/topology/cascade.py", "                        if self.halt_on_failure:\n                            break\n                        continue",
     "                        continue", "C19-R2"),
    ("C19", "output-unconditional", "fire", "operon_ai/topology/cascade.py", "final_output=current_signal if success else None", "final_output=current_signal", "C19-R3"),
    ("C19", "rename-local", "silent", "operon_ai/topology/cascade.py", "cumulative_amplification", "running_gain", None),
    # ---- C20
    ("C20", "gate-removed", "fire", "operon_ai/state/genome.py", "        if not mutation.approved and not self.allow_mutations:\n            self._mutations.append(mutation)\n            return False\n", "", "C20-R"),
    ("C20", "frozen-dropped", "fire", "operon_ai/state/genome.py", "@dataclass(frozen=True)\nclass Gene:", "@dataclass\nclass Gene:", "C20-R1"),
    ("C20", "dormant-expressed", "fire", "operon_ai/state/genome.py", "            if gene.gene_type == GeneType.DORMANT:\n                continue\n", "", "C20-R5"),
    # ---- C07
    ("C07", "default-falls-open", "fire", "operon_ai/topology/loops.py", '            blocked=True,\n            block_reason="Signal mismatch",', '            blocked=False,\n            block_reason="Signal mismatch",', "C07-R1"),
    ("C07", "token-on-executor", "fire", "operon_ai/topology/loops.py", '            if y_out.action_type == "PERMIT"\n            else None', '            if z_out.action_type in ("EXECUTE", "PERMIT")\n            else None', "C07-R"),
    ("C07", "message-changed", "silent", "operon_ai/topology/loops.py", 'block_reason="Both agents rejected"', 'block_reason="rejected by both"', None),
    # ---- C08
    ("C08", "threshold-comparator", "fire", "operon_ai/topology/loops.py", "if self._failure_count >= self.failure_threshold:", "if self._failure_count > self.failure_threshold + 1:", "C08-R"),
    ("C08", "count-not-cleared", "fire", "operon_ai/topology/loops.py", "                self._circuit_state = CircuitState.CLOSED\n                self._failure_count = 0\n                if not self.silent:\n                    print(\"🔌 [CFFL] Circuit closed, recovered\")",
     "                self._circuit_state = CircuitState.CLOSED\n                if not self.silent:\n                    print(\"🔌 [CFFL] Circuit closed, recovered\")", "C08-R1"),
    # ---- C17
    ("C17", "self-with-flag-confirmed", "fire", "operon_ai/surveillance/tcell.py", "        if signal1 == Signal1.SELF:\n            return ThreatLevel.NONE, ResponseAction.IGNORE",
     "        if signal1 == Signal1.SELF and signal2 == Signal2.NONE:\n            return ThreatLevel.NONE, ResponseAction.IGNORE", "C17-R"),
    ("C17", "critical-early-return-removed", "fire", "operon_ai/surveillance/treg.py", "        if response.threat_level == ThreatLevel.CRITICAL:\n            return SuppressionResult(\n                suppressed=False,\n                original_action=original_action,\n                modified_action=original_action,\n            )\n", "", "C17-R4"),
    ("C17", "downgrade-two-steps", "fire", "operon_ai/surveillance/treg.py", "ResponseAction.SHUTDOWN: ResponseAction.ISOLATE,", "ResponseAction.SHUTDOWN: ResponseAction.MONITOR,", "C17-R4"),
    # ---- C18
    ("C18", "range-plus-two", "fire", "operon_ai/healing/chaperone_loop.py", "for attempt_num in range(self.max_retries + 1):", "for attempt_num in range(self.max_retries + 2):", "C18-R1"),
    ("C18", "tool-loop-le", "fire", "operon_ai/organelles/nucleus.py", "while iterations < max_iterations:", "while iterations <= max_iterations:", "C18-R3"),
    ("C18", "swarm-fewer-workers", "silent", "operon_ai/healing/regenerative_swarm.py", "while regenerations <= self.max_regenerations:", "while regenerations < self.max_regenerations:", None),
    # ---- C03
    ("C03", "gate-after-call", "fire", "operon_ai/organelles/mitochondria.py", "            self._require_capabilities(call.name, tool)\n            result = tool.execute(**call.arguments)",
     "            result = tool.execute(**call.arguments)\n            self._require_capabilities(call.name, tool)", "C03-R1"),
    # ---- C01
    ("C01", "attribute-branch-added", "fire", "operon_ai/organelles/mitochondria.py", "        # Lists\n        elif isinstance(node, ast.List):",
     "        elif isinstance(node, ast.Attribute):\n            return getattr(self._compute_node(node.value), node.attr)\n\n        # Lists\n        elif isinstance(node, ast.List):", "C01-R"),
    ("C01", "getattr-in-table", "fire", "operon_ai/organelles/mitochondria.py", "        'abs': abs,", "        'abs': abs,\n        'getattr': getattr,", "C01-R4"),
    ("C01", "hypot-added", "silent", "operon_ai/organelles/mitochondria.py", "        'gcd': math.gcd,", "        'gcd': math.gcd,\n        'hypot': math.hypot,", None),
    # ---- C02
    ("C02", "div-floordiv-swapped", "fire", "operon_ai/organelles/mitochondria.py", "ast.Div: operator.truediv,", "ast.Div: operator.floordiv,", "C02-R1"),
    ("C02", "chain-left-not-advanced", "fire", "operon_ai/organelles/mitochondria.py", "                    return False\n                left = right\n", "                    return False\n", "C02-R4"),
    # ---- C10
    ("C10", "allowed-le", "fire", "operon_ai/organelles/membrane.py", "allowed = max_level.value < self.threshold.value", "allowed = max_level.value <= self.threshold.value", "C10-R1"),
    ("C10", "ignorecase-dropped", "fire", "operon_ai/organelles/membrane.py", "self._compiled = re.compile(self.pattern, re.IGNORECASE)", "self._compiled = re.compile(self.pattern)", "C10-R6"),
    # ---- C11
    ("C11", "structure-unvalidated", "fire", "operon_ai/organelles/chaperone.py", "            data = json.loads(repaired)\n            structure = schema.model_validate(data)\n            return FoldedProtein(",
     "            data = json.loads(repaired)\n            structure = data\n            return FoldedProtein(", "C11-R"),
    ("C11", "extraction-full-confidence", "fire", "operon_ai/organelles/chaperone.py", "                        confidence=0.9,", "                        confidence=1.0,", "C11-R5"),
    # ---- C12
    ("C12", "include-unescaped", "fire", "operon_ai/organelles/ribosome.py", "return self._verbatim(protein.sequence)", "return protein.sequence", "C12-R1"),
    ("C12", "loop-item-unescaped", "fire", "operon_ai/organelles/ribosome.py", 'part = part.replace(f"{{{{{key}}}}}", self._verbatim(value))', 'part = part.replace(f"{{{{{key}}}}}", str(value))', "C12-R1"),
    ("C12", "filtered-unescaped", "fire", "operon_ai/organelles/ribosome.py", "return self._verbatim(self.filters[filter_name](value))", "return self.filters[filter_name](value)", "C12-R1"),
    ("C12", "unescape-before-variables", "fire", "operon_ai/organelles/ribosome.py",
     "        sequence = self._process_variables(sequence, context, warnings)\n\n        # All passes done: give substituted text its literal braces back\n        sequence = sequence.replace(self._ESCAPED_OPEN, \"{\")",
     "        sequence = sequence.replace(self._ESCAPED_OPEN, \"{\")\n        sequence = self._process_variables(sequence, context, warnings)", "C12-R1"),
    ("C12", "unescape-dropped", "fire", "operon_ai/organelles/ribosome.py", "        sequence = sequence.replace(self._ESCAPED_OPEN, \"{\")\n", "", "C12-R1"),
    ("C12", "strict-after-rendering", "fire", "operon_ai/organelles/ribosome.py", "                if self.strict:\n                    self._errors_count += 1\n                    raise ValueError(msg)\n                warnings.append(msg)",
     "                warnings.append(msg)", "C12-R2"),
    ("C12", "simple-unbound-silent", "fire", "operon_ai/organelles/ribosome.py", '            warnings.append(f"Unbound variable: {var_name}")\n            return match.group(0)', "            return match.group(0)", "C12-R2"),
    ("C12", "marker-dropped", "fire", "operon_ai/organelles/ribosome.py", 'return f"[Unknown template: {template_name}]"', 'return ""', "C12-R2"),
    ("C12", "last-pass-raw-value", "silent", "operon_ai/organelles/ribosome.py", "            return self._verbatim(context.get(var_name, \"\"))", "            return self._verbatim(str(context.get(var_name, \"\")))", None),
    # ---- C04
    ("C04", "charge-off-by-one", "fire", "operon_ai/state/metabolism.py", "                if energy_type == EnergyType.ATP:\n                    self.atp -= cost\n                elif energy_type == EnergyType.GTP:",
     "                if energy_type == EnergyType.ATP:\n                    self.atp -= cost - 1\n                elif energy_type == EnergyType.GTP:", "C04-R4"),
    ("C04", "debt-limit-dropped", "fire", "operon_ai/state/metabolism.py", "                if self._debt + deficit <= self.max_debt:", "                if True:", "C04-R2"),
    ("C04", "capacity-clamp-dropped", "fire", "operon_ai/state/metabolism.py", "self.atp = min(self.max_atp, self.atp + remaining)", "self.atp = self.atp + remaining", "C04-R3"),
    ("C04", "enough-balance-strict", "silent", "operon_ai/state/metabolism.py", "            if balance >= cost:\n                # Simple deduction", "            if balance > cost:\n                # Simple deduction", None),
    # ---- C06
    ("C06", "counts-mislabelled", "fire", "operon_ai/topology/quorum.py", "        reached = ratio > threshold\n        decision = VoteType.PERMIT if reached else VoteType.BLOCK\n\n        return QuorumResult(\n            reached=reached,\n            decision=decision,\n            total_votes=len(votes),\n            permit_votes=len(permit_votes),",
     "        reached = ratio > threshold\n        decision = VoteType.PERMIT if reached else VoteType.BLOCK\n\n        return QuorumResult(\n            reached=reached,\n            decision=decision,\n            total_votes=len(votes),\n            permit_votes=len(votes),", "C06-R4"),
    ("C06", "defer-counts-as-permit", "fire", "operon_ai/topology/quorum.py", '        if protein.action_type in ("PERMIT", "EXECUTE"):', '        if protein.action_type in ("PERMIT", "EXECUTE", "DEFER"):', "C06-R5"),
    # ---- C15
    ("C15", "victim-max", "fire", "operon_ai/coordination/watchdog.py", "victim = min(involved, key=lambda ctx: ctx.priority)", "victim = max(involved, key=lambda ctx: ctx.priority)", "C15-R2"),
    ("C15", "edge-not-added-on-blocked", "fire", "operon_ai/coordination/controller.py",
     "            self.dependency_graph.add_dependency(\n                waiter=ctx.operation_id,\n                blocking=lock.owner,\n                resource=resource_id,\n            )", "            pass", "C15-R1"),
]


def _scratch():
    base = Path(os.environ.get("TMPDIR", tempfile.gettempdir()))
    d = Path(tempfile.mkdtemp(prefix=f"opsa-{os.getpid()}-", dir=base))
    return d


def _copy_tree(dst):
    src = repo_root()
    shutil.copytree(src / "operon_ai", dst / "operon_ai", ignore=shutil.ignore_patterns("__pycache__"))


def _run_check(pid, root):
    env = dict(os.environ, OPSA_REPO=str(root), OPSA_NO_SELFTEST="1", OPSA_EVIDENCE_DIR=str(root / "_evidence"))
    pr = subprocess.run([sys.executable, "-B", "-m", "opsa", pid, "--tier", "quick"], cwd=VERIF, env=env, capture_output=True, text=True, timeout=900)
    import re
    rules = sorted(set(re.findall(r"rule=(\S+)", pr.stdout)))
    return pr.returncode, rules, pr.stdout[-600:]


def _one(pid, m):
    kind, name = m["kind"], m["name"]
    d = _scratch()
    try:
        _copy_tree(d)
        if m.get("patch"):
            pr = subprocess.run(["patch", "-p1", "-s", "--no-backup-if-mismatch", "-i", m["patch"]], cwd=d, capture_output=True, text=True)
            if pr.returncode != 0:
                return dict(name=name, kind=kind, outcome="skipped", why="patch does not apply to the current tree")
        else:
            f = d / m["file"]
            text = f.read_text()
            if text.count(m["old"]) < 1:
                return dict(name=name, kind=kind, outcome="skipped", why="anchor text not present in the current tree")
            f.write_text(text.replace(m["old"], m["new"]) if m.get("all") else text.replace(m["old"], m["new"], 1) if kind == "fire" else text.replace(m["old"], m["new"]))
            try:
                compile((d / m["file"]).read_text(), m["file"], "exec")
            except SyntaxError as e:
                return dict(name=name, kind=kind, outcome="skipped", why=f"mutant does not compile: {e}")
        rc, rules, tail = _run_check(pid, d)
        if kind == "silent":
            ok = rc == 0
            return dict(name=name, kind=kind, outcome="ok" if ok else "FALSE-ALARM", rc=rc, rules=rules, tail=None if ok else tail)
        exp = m.get("expect")
        ok = rc == 1 and (exp is None or any(r.startswith(exp) for r in rules))
        return dict(name=name, kind=kind, outcome="ok" if ok else "MISSED", rc=rc, rules=rules, tail=None if ok else tail)
    finally:
        shutil.rmtree(d, ignore_errors=True)


def mutants_for(pid):
    out = []
    for (prop, name, kind, file, old, new, expect) in CATALOG:
        if prop == pid:
            out.append(dict(name=name, kind=kind, file=file, old=old, new=new, expect=expect))
    sd = VERIF / "seeded"
    if sd.is_dir():
        for d in sorted(sd.iterdir()):
            mp = d / "meta.json"
            if mp.exists() and (d / "patch.diff").exists():
                meta = json.loads(mp.read_text())
                if meta.get("property") == pid and meta.get("detection", {}).get("verdict") == "caught":
                    out.append(dict(name=f"seeded/{d.name}", kind="fire", patch=str(d / "patch.diff"), expect=pid))
    bd = VERIF / "seeded_benign"
    if bd.is_dir():
        for d in sorted(bd.iterdir()):
            mp = d / "meta.json"
            if mp.exists() and (d / "patch.diff").exists():
                meta = json.loads(mp.read_text())
                if meta.get("property") == pid:
                    out.append(dict(name=f"seeded_benign/{d.name}", kind="silent", patch=str(d / "patch.diff")))
    return out


def selftest(pid: str) -> int:
    ms = mutants_for(pid)
    if not ms:
        print(f"[{pid}/selftest] no mutants")
        return 0
    seed = int(os.environ.get("VERIF_SEED", "0") or 0)
    random.Random(seed).shuffle(ms)
    with ThreadPoolExecutor(max_workers=min(16, len(ms))) as ex:
        results = list(ex.map(lambda m: _one(pid, m), ms))
    bad = [r for r in results if r["outcome"] in ("MISSED", "FALSE-ALARM")]
    skipped = [r for r in results if r["outcome"] == "skipped"]
    summary = dict(mutants=len(results), fired=sum(1 for r in results if r["kind"] == "fire" and r["outcome"] == "ok"),
                   silent_ok=sum(1 for r in results if r["kind"] == "silent" and r["outcome"] == "ok"), skipped=len(skipped),
                   failures=[dict(name=r["name"], outcome=r["outcome"], rc=r.get("rc"), rules=r.get("rules")) for r in bad],
                   skipped_names=[f"{r['name']}: {r['why']}" for r in skipped], results=[dict(name=r["name"], kind=r["kind"], outcome=r["outcome"], rules=r.get("rules")) for r in results])
    # merge into the evidence file written by the main run
    ev = VERIF / "evidence" / f"{pid}.json"
    try:
        e = json.loads(ev.read_text())
        e["coverage"]["selftest"] = summary
        ev.write_text(json.dumps(e, indent=1, default=str))
    except Exception:
        pass
    print(f"[{pid}/selftest] mutants={summary['mutants']} fired={summary['fired']} silent-ok={summary['silent_ok']} skipped={summary['skipped']} failures={len(bad)}")
    for r in bad:
        print(f"ANALYSIS-ERROR property={pid} self-test: mutant {r['name']} ({r['kind']}) → {r['outcome']} (rc={r.get('rc')}, rules={r.get('rules')})")
        if r.get("tail"):
            print("   " + r["tail"].replace("\n", "\n   ")[-400:])
    return 2 if bad else 0
