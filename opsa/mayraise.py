"""May-raise table for stdlib calls on attacker-chosen input (DESIGN appendix B)
and a per-function 'can an exception escape' analysis built on it.

`exceptions_of(node, fi, summary, res)` returns the set of exception class names
the statement/expression can raise ('*' = any Exception), or an empty set."""
from __future__ import annotations

import ast

from .cfg import CFG
from .loader import dotted, is_self_attr, parent, src

TOTAL_CALLS = {"len", "isinstance", "str", "repr", "type", "max", "min", "bool", "list", "dict", "set", "tuple", "any", "all", "sorted", "callable", "id",
               "hash", "round", "abs", "enumerate", "zip", "range", "ord", "sum", "getattr", "hasattr", "frozenset", "reversed", "iter", "print_const",
               # unbound str slots applied to a str (sub)class instance: the base implementation, total
               "str.__str__", "str.__len__", "str.lower", "str.upper", "str.strip", "str.__getitem__", "str.__contains__", "str.__eq__", "str.__hash__"}
TOTAL_METHODS = {"lower", "upper", "strip", "lstrip", "rstrip", "startswith", "endswith", "replace", "split", "join", "keys", "values", "items", "get", "append",
                 "extend", "add", "time", "now", "utcnow", "isoformat", "format", "copy", "casefold", "isdigit", "find", "count", "title", "capitalize",
                 "partition", "setdefault", "update", "hexdigest", "digest", "search", "match", "fullmatch", "findall", "finditer", "group", "groups", "clear",
                 "discard", "total_seconds", "perf_counter", "monotonic", "sort", "insert", "splitlines", "isalnum", "isalpha", "isspace", "sub", "warning", "info", "debug", "error"}
# callee (dotted or last component) -> exception classes on hostile str input
RAISING = {
    "json.loads": {"JSONDecodeError", "RecursionError", "ValueError"},     # ValueError: the integer string conversion limit ("1" * 5000) is not a JSONDecodeError
    "ast.parse": {"SyntaxError", "ValueError", "RecursionError", "MemoryError"},
    "ast.literal_eval": {"SyntaxError", "ValueError", "RecursionError", "MemoryError", "TypeError"},
    "int": {"ValueError"}, "float": {"ValueError"},
    "re.compile": {"error"}, "open": {"OSError"}, "next": {"StopIteration"},
}


def total_subclass_test(x):
    """`issubclass(type(v), T)` with T a builtin class (or a tuple of them): type(v) is always a class and the check of a builtin
    class cannot be customised by v, so the call is total"""
    import ast as _a
    if not (isinstance(x, _a.Call) and isinstance(x.func, _a.Name) and x.func.id == "issubclass" and len(x.args) == 2 and not x.keywords):
        return False
    a, t = x.args
    if not (isinstance(a, _a.Call) and isinstance(a.func, _a.Name) and a.func.id == "type" and len(a.args) == 1):
        return False
    B = {"str", "int", "float", "bool", "bytes", "bytearray", "list", "tuple", "dict", "set", "frozenset", "complex", "object", "type"}
    ts = t.elts if isinstance(t, _a.Tuple) else [t]
    return all(isinstance(e, _a.Name) and e.id in B for e in ts)


_CTOR_MEMO = {}


def ctor_may_raise(res, fi, call):
    """a constructor call of a package class whose (data)class defines its own `__post_init__` / `__init__` body that can
    raise: decided by interpreting the constructor on the call's arguments — literals as written, everything else unknown.
    None: the class has no code of its own to run (synthesised constructor); False: no path raises; True: some path does."""
    if not isinstance(call.func, ast.Name):
        return None
    ci = res.class_by_name(call.func.id, fi.module)
    if ci is None or not ci.is_dataclass():
        return None
    pi = ci.methods.get("__post_init__")
    if pi is None or not any(isinstance(n, (ast.Raise, ast.Assert, ast.Call)) for n in ast.walk(pi.node)):
        return None if pi is None else False
    key = (id(res.p), fi.key, call.lineno, call.col_offset)
    if key in _CTOR_MEMO:
        return _CTOR_MEMO[key]
    from .fdai import Interp, Unknown, PyRaise, Imprecise, explore
    args, kwargs = [], {}

    def absval(e, hint):
        if isinstance(e, ast.Constant):
            return e.value
        if isinstance(e, ast.UnaryOp) and isinstance(e.op, ast.USub) and isinstance(e.operand, ast.Constant) and isinstance(e.operand.value, (int, float)):
            return -e.operand.value
        return Unknown(hint)
    if any(isinstance(a, ast.Starred) for a in call.args) or any(k.arg is None for k in call.keywords):
        _CTOR_MEMO[key] = True
        return True

    def go(o):
        it = Interp(res.p, o)
        a_ = [absval(a, f"arg{i}") for i, a in enumerate(call.args)]
        k_ = {k.arg: absval(k.value, k.arg) for k in call.keywords}
        try:
            it.instantiate(ci, a_, k_)
        except PyRaise as e:
            return repr(e.exc)
        return None
    try:
        outs = [r for _, r in explore(go, max_paths=300)]
        r = any(x is not None for x in outs)
    except Imprecise:
        r = True
    except Exception:
        r = True
    _CTOR_MEMO[key] = r
    return r


_HOSTILE_MEMO = {}


def hostile_str_params(fi, res, _busy=()):
    """str-annotated parameters of fi that can carry attacker-controlled text.  For a public function: all of them.
    A private helper only sees what its callers pass: a parameter is hostile only if some call site passes something
    other than a literal, a digest, or a caller's own non-hostile parameter (decided recursively)."""
    if not hasattr(fi.node, "args"):
        return set()
    strparams = {a.arg for a in fi.node.args.args if a.annotation is not None and "str" in src(a.annotation)}
    if not (fi.name.startswith("_") and not fi.name.startswith("__") and strparams):
        return strparams
    key = (id(res.p), fi.key)
    if key in _HOSTILE_MEMO:
        return _HOSTILE_MEMO[key]
    if fi.key in _busy:
        return strparams
    params = [a.arg for a in fi.node.args.args]
    hostile = set()
    sites = res.callers_of(fi)
    for caller, call in sites:
        caller_str = {a.arg for a in caller.node.args.args if a.annotation is not None and "str" in src(a.annotation)} if hasattr(caller.node, "args") else set()
        caller_hostile = hostile_str_params(caller, res, _busy + (fi.key,)) if caller is not fi else strparams

        def clean(a):
            if isinstance(a, ast.Constant):
                return True
            if isinstance(a, ast.Name):
                if a.id in caller_str and a.id not in caller_hostile:
                    return True
                defs = [n.value for n in ast.walk(caller.node) if isinstance(n, ast.Assign) and any(isinstance(t, ast.Name) and t.id == a.id for t in n.targets)]
                return bool(defs) and all(_is_digest(d) or isinstance(d, ast.Constant) for d in defs)
            if isinstance(a, ast.JoinedStr):
                return all(isinstance(v, ast.Constant) or (isinstance(v, ast.FormattedValue) and clean(v.value)) for v in a.values)
            if isinstance(a, ast.Attribute) and isinstance(a.value, ast.Name):
                # `result.reason` right after `result = FilterResult(…, reason="literal")` in the same block: the field's value
                rd = _reaching_def_in_block(call, a.value.id)
                if isinstance(rd, ast.Call):
                    kw = [k.value for k in rd.keywords if k.arg == a.attr]
                    return len(kw) == 1 and clean(kw[0])
                return False
            return _is_digest(a)
        off = 1 if params and params[0] == "self" and isinstance(call.func, ast.Attribute) else 0
        for i, a in enumerate(call.args):
            if i + off < len(params) and params[i + off] in strparams and not clean(a):
                hostile.add(params[i + off])
        for k in call.keywords:
            if k.arg in strparams and not clean(k.value):
                hostile.add(k.arg)
    out = hostile if sites else strparams
    _HOSTILE_MEMO[key] = out
    return out


def _reaching_def_in_block(node, name):
    """the value last assigned to local `name` before the statement containing `node`, when that assignment is an earlier
    simple statement of the same block and nothing in between can rebind the name; else None"""
    st = node
    while st is not None and not isinstance(st, ast.stmt):
        st = parent(st)
    if st is None:
        return None
    par = parent(st)
    for fld in ("body", "orelse", "finalbody"):
        lst = getattr(par, fld, None)
        if isinstance(lst, list) and st in lst:
            for prev in reversed(lst[:lst.index(st)]):
                if isinstance(prev, ast.Assign) and len(prev.targets) == 1 and isinstance(prev.targets[0], ast.Name) and prev.targets[0].id == name:
                    return prev.value
                if any(isinstance(y, ast.Name) and y.id == name and isinstance(y.ctx, (ast.Store, ast.Del)) for y in ast.walk(prev)):
                    return None
                if any(isinstance(y, ast.Attribute) and isinstance(y.ctx, ast.Store) and isinstance(y.value, ast.Name) and y.value.id == name for y in ast.walk(prev)):
                    return None
            return None
    return None


def _is_digest(e):
    """`….hexdigest()` possibly sliced: ASCII hex, never hostile"""
    if isinstance(e, ast.Subscript):
        e = e.value
    return isinstance(e, ast.Call) and isinstance(e.func, ast.Attribute) and e.func.attr == "hexdigest"


def exceptions_of(n, fi, summary, res):
    out = set()
    if isinstance(n, ast.Raise):
        e = n.exc
        if isinstance(e, ast.Call):
            e = e.func
        d = dotted(e) if e is not None else None
        return {d.split(".")[-1]} if d else {"*"}
    if isinstance(n, ast.Assert):
        return {"AssertionError"}
    strparams = hostile_str_params(fi, res)
    tainted = set(strparams) | _derived_from(fi, strparams)
    todo = [n]
    while todo:
        x = todo.pop()
        if isinstance(x, (ast.Lambda, ast.FunctionDef)) and x is not n:
            continue
        if isinstance(x, ast.AnnAssign):
            todo.extend([c for c in (x.target, x.value) if c is not None])   # annotations are not evaluated for locals
            continue
        todo.extend(ast.iter_child_nodes(x))
        if isinstance(x, ast.Subscript) and isinstance(x.ctx, ast.Load) and not isinstance(x.slice, ast.Slice):
            # data-dependent lookup failures: only when the key or the container derives from the hostile text
            if any(isinstance(y, ast.Name) and y.id in tainted for y in ast.walk(x)) and not _membership_guarded(x) and not _fixed_shape_index(x, fi) and not _match_start_index(x, fi):
                out.add("KeyError")
                out.add("IndexError")
        if isinstance(x, ast.BinOp) and isinstance(x.op, (ast.Div, ast.FloorDiv, ast.Mod)) and not _nonzero(x.right):
            out.add("ZeroDivisionError")
        if isinstance(x, ast.Call):
            d = dotted(x.func) or ""
            last = x.func.attr if isinstance(x.func, ast.Attribute) else d.split(".")[-1]
            if d == "print":
                for a in x.args:
                    for y in ast.walk(a):
                        if isinstance(y, ast.Name) and y.id in tainted and not _only_under_len(y, a):
                            out.add("UnicodeEncodeError")
                continue
            if last == "encode" and isinstance(x.func, ast.Attribute) and not any(k.arg == "errors" for k in x.keywords) and len(x.args) < 2:
                out.add("UnicodeEncodeError")
                continue
            if d in RAISING:
                out |= RAISING[d]
                continue
            if last in ("loads",) and "json" in d:
                out |= RAISING["json.loads"]
                continue
            if d in TOTAL_CALLS or total_subclass_test(x) or (isinstance(x.func, ast.Attribute) and last in TOTAL_METHODS) or d.startswith("hashlib.") or d.startswith("time.") or d.startswith("datetime."):
                continue
            cm_ = ctor_may_raise(res, fi, x)
            if cm_:
                out.add("*")          # a record whose own __post_init__ can refuse the values it is given
                continue
            tgts = res.resolve_call(fi, x)
            if tgts:
                if all(t.name in ("__init__", "__post_init__") and t.cls is not None and (t.cls.is_dataclass() or t.cls.is_enum()) for t in tgts):
                    continue
                for t in tgts:
                    if t.name in ("__init__", "__post_init__") and t.cls is not None and t.cls.is_dataclass():
                        continue
                    out |= summary(t)
                continue
            if isinstance(x.func, ast.Name) and x.func.id[:1].isupper():
                continue      # constructors of plain data classes / enums of the module
            if is_self_attr(x.func) or (isinstance(x.func, ast.Attribute) and last in ("execute", "func", "validate", "condition")):
                out.add("*")  # stored callables / user objects: arbitrary Exception
                continue
            if isinstance(x.func, ast.Name):
                out.add("*")  # local callable (callback variable)
                continue
            out.add("*")
    return out


def _derived_from(fi, names):
    out = set()
    changed = True
    while changed:
        changed = False
        for st in ast.walk(fi.node):
            if isinstance(st, ast.Assign) and len(st.targets) == 1 and isinstance(st.targets[0], ast.Name):
                if st.targets[0].id not in out and any(isinstance(y, ast.Name) and (y.id in names or y.id in out) for y in ast.walk(st.value)) or \
                        (st.targets[0].id not in out and any(isinstance(y, ast.Attribute) and y.attr == "content" for y in ast.walk(st.value))):
                    out.add(st.targets[0].id)
                    changed = True
    return out


def _fixed_shape_index(x, fi):
    """t[0] / t[1] on a value that is not a variable-length result of splitting/searching the input"""
    if not (isinstance(x.slice, ast.Constant) and isinstance(x.slice.value, int)):
        return False
    if not isinstance(x.value, ast.Name):
        return False
    for st in ast.walk(fi.node):
        if isinstance(st, ast.Assign) and any(isinstance(t, ast.Name) and t.id == x.value.id for t in st.targets):
            for c in ast.walk(st.value):
                if isinstance(c, ast.Call) and isinstance(c.func, ast.Attribute) and c.func.attr in ("findall", "split", "rsplit", "splitlines", "groups", "finditer"):
                    return False
    return True


def _match_start_index(x, fi):
    """s[i] where i = m.start() for a match m = <pattern>.search(s) / re.search(<pattern>, s) of a constant pattern that
    cannot match the empty string: the start of a non-empty match lies inside the subject"""
    import re as _re
    try:
        import re._parser as _sre
    except ImportError:          # pragma: no cover
        import sre_parse as _sre
    if not (isinstance(x.slice, ast.Name) and isinstance(x.value, ast.Name)):
        return False
    idx, subj = x.slice.id, x.value.id
    fn = fi.node
    mname = None
    for st in ast.walk(fn):
        if isinstance(st, ast.Assign) and len(st.targets) == 1 and isinstance(st.targets[0], ast.Name) and st.targets[0].id == idx:
            v = st.value
            if isinstance(v, ast.Call) and isinstance(v.func, ast.Attribute) and v.func.attr == "start" and not v.args and isinstance(v.func.value, ast.Name):
                mname = v.func.value.id
            else:
                return False
    if mname is None:
        return False
    for st in ast.walk(fn):
        if isinstance(st, ast.Assign) and len(st.targets) == 1 and isinstance(st.targets[0], ast.Name) and st.targets[0].id == mname:
            c = st.value
            if not (isinstance(c, ast.Call) and isinstance(c.func, ast.Attribute) and c.func.attr in ("search", "match")):
                return False
            d = dotted(c.func) or ""
            pat_expr, subject = (c.args[0], c.args[1]) if d.startswith("re.") and len(c.args) >= 2 else (c.func.value, c.args[0] if c.args else None)
            if not (isinstance(subject, ast.Name) and subject.id == subj):
                return False
            text = _const_pattern(pat_expr, fi)
            if text is None:
                return False
            try:
                return _sre.parse(text).getwidth()[0] >= 1
            except Exception:      # noqa: BLE001
                return False
    return False


def _const_pattern(e, fi, depth=0):
    """regex source of a literal, of `re.compile(<literal>)`, or of a class / module constant bound to one"""
    if isinstance(e, ast.Constant) and isinstance(e.value, str):
        return e.value
    if isinstance(e, ast.Call) and (dotted(e.func) or "") == "re.compile" and e.args:
        return _const_pattern(e.args[0], fi, depth + 1)
    if depth > 3:
        return None
    name = e.attr if isinstance(e, ast.Attribute) and isinstance(e.value, ast.Name) and e.value.id in ("self", "cls") else (e.id if isinstance(e, ast.Name) else None)
    if name is None:
        return None
    if fi.cls is not None and name in getattr(fi.cls, "assigns", {}):
        return _const_pattern(fi.cls.assigns[name], fi, depth + 1)
    for st in fi.module.tree.body:
        if isinstance(st, ast.Assign) and any(isinstance(t, ast.Name) and t.id == name for t in st.targets):
            return _const_pattern(st.value, fi, depth + 1)
    return None


def _membership_guarded(x):
    """d[k] lies in the body of `if k in d` (or after `if k not in d: return/raise/continue`)"""
    key, cont = src(x.slice), src(x.value)

    def tests_membership(t, positive=True):
        for c in ast.walk(t):
            if isinstance(c, ast.Compare) and len(c.ops) == 1 and src(c.left) == key and src(c.comparators[0]) == cont:
                if isinstance(c.ops[0], ast.In if positive else ast.NotIn):
                    return True
        return False
    q, prev = parent(x), x
    while q is not None and not isinstance(q, (ast.FunctionDef, ast.Lambda)):
        if isinstance(q, ast.If) and prev in q.body and tests_membership(q.test, True):
            return True
        if isinstance(q, ast.IfExp) and prev is q.body and tests_membership(q.test, True):
            return True
        body = None
        for fld in ("body", "orelse", "finalbody"):
            b = getattr(q, fld, None)
            if isinstance(b, list) and prev in b:
                body = b
        if body is not None:
            for st in body[: body.index(prev)]:
                if isinstance(st, ast.If) and tests_membership(st.test, False) and st.body and isinstance(st.body[-1], (ast.Return, ast.Raise, ast.Continue, ast.Break)):
                    return True
        prev, q = q, parent(q)
    return False


def _guarded_subscript(x):
    """d[k] under `if k in d` / `k not in d: return` is not modelled precisely; tuple/list constant indexes and
    dict literals are total enough for the analysed code — only plain Name[...] on locals built in the function are trusted"""
    return isinstance(x.slice, ast.Constant) and isinstance(x.slice.value, int)


def _nonzero(e):
    if isinstance(e, ast.Constant):
        return bool(e.value)
    if isinstance(e, ast.Call) and isinstance(e.func, ast.Name) and e.func.id == "max" and any(isinstance(a, ast.Constant) and isinstance(a.value, (int, float)) and a.value > 0 for a in e.args):
        return True
    if isinstance(e, ast.BinOp) and isinstance(e.op, ast.Mult):
        return _nonzero(e.left) and _nonzero(e.right)
    return False


def _only_under_len(name, root):
    q = parent(name)
    while q is not None and q is not root:
        if isinstance(q, ast.Call) and isinstance(q.func, ast.Name) and q.func.id == "len":
            return True
        q = parent(q)
    return False


class Escapes:
    """per-function summary: which exception classes can escape to the caller, with a witness path"""

    def __init__(self, res, exc_classes=None):
        self.res = res
        self.memo = {}
        self.paths = {}
        self.exc_classes = exc_classes or {}

    def of(self, fi):
        if fi.key in self.memo:
            return self.memo[fi.key]
        self.memo[fi.key] = set()
        pred = lambda n: exceptions_of(n, fi, self.of, self.res)
        c = CFG(fi.node, may_raise=pred, exc_classes=self.exc_classes)
        seen = c.reach(starts=[c.entry])
        esc = set()
        if c.raise_exit in seen:
            # which classes: every exc edge into raise_exit from a reachable node
            for n, lab in c.raise_exit.pred:
                if n in seen and lab == "exc":
                    esc |= c.escaping.get(n.id, {"*"})
            self.paths[fi.key] = c.fmt_path(c.witness(seen, c.raise_exit))
        self.memo[fi.key] = esc
        return esc
