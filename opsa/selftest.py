"""Mutant self-test of the checker (thorough tier).  See mutants catalogue in
opsa/mutants.py; until a property has a catalogue the self-test is a no-op."""
from __future__ import annotations


def run_for(pid: str) -> int:
    try:
        from . import mutants
    except ImportError:
        print(f"[{pid}/selftest] no mutant catalogue yet")
        return 0
    return mutants.selftest(pid)
