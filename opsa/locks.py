"""Lock discipline: lock objects per class, syntactic with-regions, locks held
at a node, interprocedural 'may acquire' closure, 'held on entry' helpers."""
from __future__ import annotations

import ast

from .loader import ClassInfo, FuncInfo, dotted, is_self_attr, parent, walk_no_nested, short
from .resolve import Resolver


def class_locks(ci: ClassInfo):
    """{attr: 'Lock' | 'RLock'} for self.<attr> = threading.Lock()/RLock()"""
    out = {}
    for m in ci.methods.values():
        for n in walk_no_nested(m.node):
            if isinstance(n, ast.Assign) and len(n.targets) == 1 and is_self_attr(n.targets[0]) and isinstance(n.value, ast.Call):
                d = dotted(n.value.func) or ""
                last = d.split(".")[-1]
                if last in ("Lock", "RLock") and (d.startswith("threading") or d == last):
                    out[n.targets[0].attr] = last
    return out


_CM_CACHE = {}


def _cm_lock_attrs(w: ast.With, recv="self"):
    """`with self.m():` where m is a @contextmanager method of the enclosing class (or a class with __enter__/__exit__
    is not followed here) that holds `self.L` around its single yield (`with self.L: yield` or acquire … yield … release):
    the with-statement is a region of L"""
    out = []
    cls = parent(w)
    while cls is not None and not isinstance(cls, ast.ClassDef):
        cls = parent(cls)
    if cls is None:
        return out
    for it in w.items:
        e = it.context_expr
        if isinstance(e, ast.Call) and isinstance(e.func, ast.Attribute) and isinstance(e.func.value, ast.Name) and e.func.value.id == recv:
            key = (id(cls), e.func.attr)
            if key not in _CM_CACHE:
                attrs = []
                for m in cls.body:
                    if isinstance(m, ast.FunctionDef) and m.name == e.func.attr and any((dotted(d) or "").split(".")[-1] == "contextmanager" for d in m.decorator_list):
                        for y in ast.walk(m):
                            if isinstance(y, (ast.Yield, ast.YieldFrom)):
                                q = parent(y)
                                while q is not None and q is not m:
                                    if isinstance(q, ast.With):
                                        for i2 in q.items:
                                            c2 = i2.context_expr
                                            if isinstance(c2, ast.Attribute) and isinstance(c2.value, ast.Name) and c2.value.id == recv:
                                                attrs.append(c2.attr)
                                    if isinstance(q, ast.Try) and q.finalbody:
                                        for st in q.finalbody:
                                            for c3 in ast.walk(st):
                                                if isinstance(c3, ast.Call) and isinstance(c3.func, ast.Attribute) and c3.func.attr == "release" and is_self_attr(c3.func.value):
                                                    attrs.append(c3.func.value.attr)
                                    q = parent(q)
                _CM_CACHE[key] = attrs
            out.extend(_CM_CACHE[key])
    return out


def _cm_class_lock_attrs(w: ast.With, recv="self"):
    """`with K(self):` where K is a class of the same module whose __enter__ acquires `<stored arg>.<L>` and whose
    __exit__ releases it: the with-statement is a region of L on `self`"""
    out = []
    mod = parent(w)
    while mod is not None and not isinstance(mod, ast.Module):
        mod = parent(mod)
    if mod is None:
        return out
    def manager_classes():
        return {c.name: c for c in mod.body if isinstance(c, ast.ClassDef)}

    def lock_passed_directly(e):
        """`K(self.L)`: the manager is handed the lock itself and acquires / releases what it was given"""
        if not (isinstance(e, ast.Call) and isinstance(e.func, ast.Name) and len(e.args) == 1 and isinstance(e.args[0], ast.Attribute)
                and isinstance(e.args[0].value, ast.Name) and e.args[0].value.id == recv):
            return []
        c = manager_classes().get(e.func.id)
        if c is None:
            return []
        ms = {m.name: m for m in c.body if isinstance(m, ast.FunctionDef)}
        if not all(k in ms for k in ("__init__", "__enter__", "__exit__")):
            return []
        params = [a.arg for a in ms["__init__"].args.args[1:]]
        stored = [t.attr for n in ast.walk(ms["__init__"]) if isinstance(n, (ast.Assign, ast.AnnAssign)) for t in (n.targets if isinstance(n, ast.Assign) else [n.target])
                  if isinstance(t, ast.Attribute) and isinstance(n.value, ast.Name) and n.value.id in params]
        acq = any(isinstance(n, ast.Call) and isinstance(n.func, ast.Attribute) and n.func.attr == "acquire" and isinstance(n.func.value, ast.Attribute) and n.func.value.attr in stored for n in ast.walk(ms["__enter__"]))
        rel = any(isinstance(n, ast.Call) and isinstance(n.func, ast.Attribute) and n.func.attr == "release" and isinstance(n.func.value, ast.Attribute) and n.func.value.attr in stored for n in ast.walk(ms["__exit__"]))
        return [e.args[0].attr] if acq and rel else []

    def through_method(e):
        """`self.m()` where m only returns a manager built on self / on one of self's locks"""
        if not (isinstance(e, ast.Call) and isinstance(e.func, ast.Attribute) and isinstance(e.func.value, ast.Name) and e.func.value.id == recv and not e.args):
            return None
        cls = parent(w)
        while cls is not None and not isinstance(cls, ast.ClassDef):
            cls = parent(cls)
        if cls is None:
            return None
        for m in cls.body:
            if isinstance(m, ast.FunctionDef) and m.name == e.func.attr:
                rets = [n.value for n in ast.walk(m) if isinstance(n, ast.Return) and n.value is not None]
                if len(rets) == 1 and isinstance(rets[0], ast.Call):
                    return rets[0]
        return None
    for it in w.items:
        e = it.context_expr
        inner = through_method(e)
        if inner is not None:
            e = inner
        out.extend(lock_passed_directly(e))
        if isinstance(e, ast.Call) and isinstance(e.func, ast.Name) and len(e.args) == 1 and isinstance(e.args[0], ast.Name) and e.args[0].id == recv:
            key = (id(mod), e.func.id)
            if key not in _CM_CACHE:
                attrs = []
                for c in mod.body:
                    if isinstance(c, ast.ClassDef) and c.name == e.func.id:
                        ms = {m.name: m for m in c.body if isinstance(m, ast.FunctionDef)}
                        if "__enter__" in ms and "__exit__" in ms and "__init__" in ms:
                            # the attribute the constructor stores its argument in
                            stored = [t.attr for n in ast.walk(ms["__init__"]) if isinstance(n, (ast.Assign, ast.AnnAssign)) for t in (n.targets if isinstance(n, ast.Assign) else [n.target])
                                      if isinstance(t, ast.Attribute) and isinstance(n.value, ast.Name) and n.value.id in [a.arg for a in ms["__init__"].args.args[1:]]]
                            acq = set()
                            for n in ast.walk(ms["__enter__"]):
                                # self.<stored>.<L>.acquire()  or  held = self.<stored>.<L>; held.acquire()
                                if isinstance(n, ast.Attribute) and isinstance(n.value, ast.Attribute) and isinstance(n.value.value, ast.Name) and n.value.value.id == "self" and n.value.attr in stored:
                                    acq.add(n.attr)
                            has_acquire = any(isinstance(n, ast.Call) and isinstance(n.func, ast.Attribute) and n.func.attr == "acquire" for n in ast.walk(ms["__enter__"]))
                            has_release = any(isinstance(n, ast.Call) and isinstance(n.func, ast.Attribute) and n.func.attr == "release" for n in ast.walk(ms["__exit__"]))
                            if has_acquire and has_release:
                                attrs = sorted(acq)
                _CM_CACHE[key] = attrs
            out.extend(_CM_CACHE[key])
    return out


def with_lock_attr(w: ast.With, recv="self"):
    """lock attrs acquired by a with statement on `<recv>.<attr>`, through a lock-holding @contextmanager helper, or
    through a context-manager class constructed on `<recv>`"""
    out = []
    for it in w.items:
        e = it.context_expr
        if isinstance(e, ast.Attribute) and isinstance(e.value, ast.Name) and e.value.id == recv:
            out.append(e.attr)
    out.extend(_ordered_pair_lock_attrs(w, recv))
    out.extend(_cm_lock_attrs(w, recv))
    out.extend(_cm_class_lock_attrs(w, recv))
    return out


def _ordered_pair_lock_attrs(w: ast.With, recv="self"):
    """`first, second = (self, other) if id(self) <= id(other) else (other, self)` … `with first.L, second.L:` (the
    lock-ordering idiom for two instances): whichever way the test goes, the with statement holds `<recv>.L` — provided it
    takes L on *every* name of the unpacked pair and <recv> is a member of the pair on both alternatives"""
    by_attr = {}
    for it in w.items:
        e = it.context_expr
        if isinstance(e, ast.Attribute) and isinstance(e.value, ast.Name) and e.value.id != recv:
            by_attr.setdefault(e.attr, set()).add(e.value.id)
    if not by_attr:
        return []
    fn = parent(w)
    while fn is not None and not isinstance(fn, (ast.FunctionDef, ast.AsyncFunctionDef)):
        fn = parent(fn)
    if fn is None:
        return []
    out = []
    for attr, names in by_attr.items():
        for st in ast.walk(fn):
            if not (isinstance(st, ast.Assign) and len(st.targets) == 1 and isinstance(st.targets[0], ast.Tuple)):
                continue
            tn = [t.id for t in st.targets[0].elts if isinstance(t, ast.Name)]
            if len(tn) != len(st.targets[0].elts) or set(tn) != names:
                continue
            # the only binding of these names in the function
            if sum(1 for y in ast.walk(fn) if isinstance(y, ast.Name) and isinstance(y.ctx, ast.Store) and y.id in names) != len(tn):
                continue
            v = st.value
            alts = []
            if isinstance(v, ast.IfExp):
                alts = [v.body, v.orelse]
            elif isinstance(v, ast.Call) and isinstance(v.func, ast.Name) and v.func.id == "sorted" and v.args:
                alts = [v.args[0]]
            elif isinstance(v, ast.Tuple):
                alts = [v]
            ok = bool(alts)
            for a in alts:
                if not (isinstance(a, (ast.Tuple, ast.List)) and len(a.elts) == len(tn) and all(isinstance(x, ast.Name) for x in a.elts)
                        and any(x.id == recv for x in a.elts)):
                    ok = False
            if ok:
                out.append(attr)
                break
    return out


def _acquire_try_attr(t: ast.Try, lockattrs):
    """`self.L.acquire()` immediately followed by `try: … finally: self.L.release()` — returns L or None"""
    q = parent(t)
    for fld in ("body", "orelse", "finalbody"):
        b = getattr(q, fld, None)
        if isinstance(b, list) and t in b:
            i = b.index(t)
            if i == 0:
                return None
            prev = b[i - 1]
            if isinstance(prev, ast.Expr) and isinstance(prev.value, ast.Call) and isinstance(prev.value.func, ast.Attribute) and prev.value.func.attr == "acquire":
                recv = prev.value.func.value
                alias = None
                if isinstance(recv, ast.Name):
                    # `lock = self.L` earlier in the same block, then lock.acquire() … lock.release()
                    for st0 in b[:i - 1]:
                        if isinstance(st0, ast.Assign) and len(st0.targets) == 1 and isinstance(st0.targets[0], ast.Name) and st0.targets[0].id == recv.id and is_self_attr(st0.value):
                            alias, recv = recv.id, st0.value
                if is_self_attr(recv) and recv.attr in lockattrs:
                    attr = recv.attr
                    for st in t.finalbody:
                        for c in ast.walk(st):
                            if isinstance(c, ast.Call) and isinstance(c.func, ast.Attribute) and c.func.attr == "release" and \
                                    (is_self_attr(c.func.value, attr) or (alias is not None and isinstance(c.func.value, ast.Name) and c.func.value.id == alias)):
                                return attr
    return None


def regions(fi: FuncInfo, lockattrs):
    """[(region node, attr)] for critical sections on the class's own locks: `with self.L:` and
    `self.L.acquire(); try: … finally: self.L.release()` (the region node has a .body either way)"""
    out = []
    for n in walk_no_nested(fi.node):
        if isinstance(n, ast.With):
            for a in with_lock_attr(n):
                if a in lockattrs:
                    out.append((n, a))
        elif isinstance(n, ast.Try) and n.finalbody:
            a = _acquire_try_attr(n, lockattrs)
            if a:
                out.append((n, a))
    return out


def held_at(node, lockattrs):
    """set of own lock attrs syntactically held at `node` (enclosing with-regions)"""
    held = set()
    q = parent(node)
    prev = node
    while q is not None and not isinstance(q, (ast.FunctionDef, ast.Lambda, ast.ClassDef)):
        if isinstance(q, ast.With) and prev in q.body:
            for a in with_lock_attr(q):
                if a in lockattrs:
                    held.add(a)
        if isinstance(q, ast.Try) and q.finalbody and (prev in q.body or prev in q.handlers or prev in q.orelse):
            a = _acquire_try_attr(q, lockattrs)
            if a:
                held.add(a)
        prev = q
        q = parent(q)
    return held


def explicit_acquires(fi: FuncInfo, lockattrs):
    """self.<lock>.acquire() calls (idiom not used by the repo today; supported so a rewrite is not misread)"""
    out = []
    for n in walk_no_nested(fi.node):
        if isinstance(n, ast.Call) and isinstance(n.func, ast.Attribute) and n.func.attr == "acquire" and is_self_attr(n.func.value) and n.func.value.attr in lockattrs:
            out.append((n, n.func.value.attr))
    return out


class LockAnalysis:
    def __init__(self, project, res: Resolver, ci: ClassInfo):
        self.p = project
        self.res = res
        self.ci = ci
        self.locks = class_locks(ci)
        # subclasses share the lock
        self.family = [ci] + project.subclasses(ci)
        self._may = {}

    def methods(self):
        seen = {}
        for c in self.family:
            for m in c.methods.values():
                seen.setdefault(m.key, m)
        return list(seen.values())

    def direct_acquires(self, fi):
        s = {a for _, a in regions(fi, self.locks)}
        s |= {a for _, a in explicit_acquires(fi, self.locks)}
        return s

    def self_calls(self, fi, within=None):
        """[(call node, target FuncInfo)] for calls on the same instance (self.m(...))
        inside `within` (an AST node) or the whole function"""
        out = []
        root = within if within is not None else fi.node
        it = ast.walk(root) if within is not None else walk_no_nested(fi.node)
        for n in it:
            if isinstance(n, ast.Call) and isinstance(n.func, ast.Attribute) and isinstance(n.func.value, ast.Name) and n.func.value.id == "self":
                for t in self.res.resolve_call(fi, n):
                    out.append((n, t))
        return out

    def may_acquire(self, fi, _stack=()):
        """{lock attr: [call chain as text]} — locks of this instance that calling fi may acquire"""
        if fi.key in self._may:
            return self._may[fi.key]
        if fi.key in _stack:
            return {}
        out = {}
        for a in self.direct_acquires(fi):
            out[a] = [f"{fi.qual} takes self.{a}"]
        for call, t in self.self_calls(fi):
            sub = self.may_acquire(t, _stack + (fi.key,))
            for a, chain in sub.items():
                out.setdefault(a, [f"{fi.qual} ▸ {short(call, 40)} (line {call.lineno})"] + chain)
        self._may[fi.key] = out
        return out

    def reentry_violations(self):
        """[(fi, with node, lock attr, call node, chain)] — a call made while a
        non-re-entrant lock of this instance is held reaches a re-acquisition"""
        out = []
        for fi in self.methods():
            for w, a in regions(fi, self.locks):
                if self.locks[a] != "Lock":
                    continue
                for st in w.body:
                    for call, t in self.self_calls(fi, within=st):
                        may = self.may_acquire(t)
                        if a in may:
                            out.append((fi, w, a, call, may[a]))
        return out

    def held_on_entry(self, lockattr):
        """set of method keys that are only ever entered (package-wide) with
        self.<lockattr> held: every resolved call site is inside a region of the
        lock or inside another held-on-entry method; methods with no call site at all
        are not included."""
        methods = {m.key: m for m in self.methods()}
        sites = {k: [] for k in methods}
        for fi in self.p.all_funcs:
            for n in walk_no_nested(fi.node):
                if isinstance(n, ast.Call):
                    for t in self.res.resolve_call(fi, n):
                        if t.key in sites:
                            sites[t.key].append((fi, n))
            # method objects stored in tables / passed as callbacks escape
            for n in walk_no_nested(fi.node):
                if isinstance(n, ast.Attribute) and isinstance(n.ctx, ast.Load) and is_self_attr(n) and not (
                        isinstance(parent(n), ast.Call) and parent(n).func is n):
                    for m in methods.values():
                        if m.name == n.attr and fi.cls in self.family:
                            sites[m.key].append((fi, None))   # escaping reference: unknown context
        # call sites inside private helpers that nothing in the package calls or references (kept for compatibility, dead)
        # say nothing about the context a helper is entered in
        def _private(m):
            return m.name.startswith("_") and not m.name.startswith("__")
        dead = set()
        grew = True
        while grew:
            grew = False
            for k, m in methods.items():
                if k not in dead and _private(m) and all(fi.key in dead for fi, _ in sites[k]):
                    dead.add(k)
                    grew = True
        self.dead_private = dead
        for k in sites:
            if k not in dead:
                sites[k] = [(fi, c) for fi, c in sites[k] if fi.key not in dead]
        held = set()
        changed = True
        while changed:
            changed = False
            for k, m in methods.items():
                if k in held or not sites[k] or m.name == "__init__" or not m.name.startswith("_") or m.name.startswith("__"):
                    continue    # public methods can be entered from anywhere
                ok = True
                if all(call is not None and fi.name == "__init__" for fi, call in sites[k]):
                    continue    # construction-only helper: not a locked context
                for fi, call in sites[k]:
                    if call is None:
                        ok = False
                        break
                    same_instance = isinstance(call.func, ast.Attribute) and isinstance(call.func.value, ast.Name) and call.func.value.id == "self" and fi.cls in self.family
                    if not same_instance:
                        ok = False
                        break
                    if fi.name == "__init__":
                        continue    # construction: object not yet shared
                    if lockattr in held_at(call, self.locks) or fi.key in held:
                        continue
                    ok = False
                    break
                if ok:
                    held.add(k)
                    changed = True
        return held


def late_lock_constructions(ci):
    """[(method, node)] where a threading lock is built and bound to a self attribute outside the constructor (and the
    copy / unpickle hooks): a lazily built or rebound lock does not exclude the threads that race on its creation"""
    import ast as _ast
    from .loader import dotted as _dotted, is_self_attr as _isa
    out = []
    for m in ci.methods.values():
        if m.name in ("__init__", "__post_init__", "__setstate__", "__deepcopy__", "__copy__"):
            continue
        for n in _ast.walk(m.node):
            if isinstance(n, (_ast.Assign, _ast.AnnAssign)) and n.value is not None and isinstance(n.value, _ast.Call) \
                    and (_dotted(n.value.func) or "").split(".")[-1] in ("Lock", "RLock") \
                    and any(_isa(t) for t in (n.targets if isinstance(n, _ast.Assign) else [n.target])):
                out.append((m, n))
    return out
