"""C03 — tools outside the allowed capability set are never executed, on any path."""
from __future__ import annotations

import ast

from ..loader import AnchorError, dotted, is_self_attr, parent, short, src, walk_no_nested
from ..resolve import Resolver
from ..rules import cfg_of, edge_implies, where, mentions_name

M = "operon_ai/organelles/mitochondria.py"
FILES = [M, "operon_ai/organelles/nucleus.py", "operon_ai/core/types.py"]

# `execute` methods that are not tools (resolved receiver class -> reason)
NOT_TOOLS = {
    "Watchdog": "Watchdog.execute(controller) terminates operations; it is not a registered tool",
    "DiagramExecutor": "DiagramExecutor.execute runs a wiring diagram; it is not a registered tool",
}


def _tool_origin(fi, name):
    """definitions of local `name` in fi that read a `.tools` registry: returns list of (node, text)"""
    out = []
    for n in walk_no_nested(fi.node):
        if isinstance(n, ast.Assign) and any(isinstance(t, ast.Name) and t.id == name for t in n.targets):
            out.append(n.value)
        elif isinstance(n, ast.For):
            names = [x.id for x in ast.walk(n.target) if isinstance(x, ast.Name)]
            if name in names:
                out.append(n.iter)
        elif isinstance(n, ast.NamedExpr) and isinstance(n.target, ast.Name) and n.target.id == name:
            out.append(n.value)
    return out


def _reads_tools(e):
    return any(isinstance(x, ast.Attribute) and x.attr == "tools" for x in ast.walk(e))


def run(p, led, tier):
    res = Resolver(p)
    mito = p.cls("Mitochondria", M)
    led.explanation = (
        "Package-wide enumeration of every call that can invoke a registered tool (attribute calls named `execute` "
        "whose receiver is defined from a `.tools` registry, plus direct `.func(` calls on tool objects), minus a "
        "frozen, reasoned table of unrelated execute methods. Each site must be dominated — in its function's CFG — "
        "by an edge whose condition implies 'no capability ceiling configured ∨ the tool's required set ⊆ the "
        "allowed set' (truth table over the test's atoms; the gate may be a helper all of whose normal returns pass "
        "such an edge), with the required set read from the same tool object that is executed and no redefinition "
        "in between; the refusing edge must end in a failure result. Entry points reaching a site are listed.")
    led.level = "proof"
    led.not_decided = []
    led.assumptions = ["A1 no reflection (no getattr(tool, 'execute') / stored bound methods)", "A3 tool bodies are black boxes"]
    led.rule("C03-R1", "every call site that can execute a registered tool is dominated by a capability gate on that same tool", 2)
    led.rule("C03-R2", "entry points reaching a tool execution site (listed; covered because R1 is about sites)", 1)
    led.rule("C03-R3", "the refusing edge of every gate ends in a failure result (raise into a failure handler, or a success=False result)", 1)

    sites = []
    excluded = []
    unresolved = []
    for fi in p.all_funcs:
        for n in walk_no_nested(fi.node):
            if not (isinstance(n, ast.Call) and isinstance(n.func, ast.Attribute)):
                continue
            if n.func.attr not in ("execute", "func"):
                continue
            recv = n.func.value
            c = res.expr_class(fi, recv)
            if c is not None and c.name in NOT_TOOLS:
                excluded.append((fi, n, NOT_TOOLS[c.name]))
                continue
            if n.func.attr == "func":
                # direct call of a SimpleTool's callable outside SimpleTool.execute
                if fi.cls is not None and fi.cls.name == "SimpleTool":
                    continue
                if c is not None and c.name == "SimpleTool":
                    sites.append((fi, n, recv))
                continue
            # execute: is the receiver a tool?
            is_tool = False
            if c is not None and c.name in ("SimpleTool", "Tool"):
                is_tool = True
            if isinstance(recv, ast.Name):
                if any(_reads_tools(d) for d in _tool_origin(fi, recv.id)):
                    is_tool = True
            elif _reads_tools(recv):
                is_tool = True
            if is_tool:
                sites.append((fi, n, recv))
            elif c is None and fi.module.rel in FILES[:2]:
                # an `.execute(` on a receiver whose class cannot be resolved, inside the engine / the LLM loop: the tool may
                # travel inside a value object (`plan.callee.target.execute(…)`): counted as a site
                sites.append((fi, n, recv))
            elif c is None:
                unresolved.append((fi, n))
    led.extra["excluded_execute_methods"] = [f"{fi.qual}: {short(n)} — {why}" for fi, n, why in excluded]
    led.analysed["unresolved"] = [f"{fi.qual}: {short(n)}" for fi, n in unresolved]
    for fi, n in unresolved:
        led.info(f"unresolved receiver of {short(n)} in {fi.qual} (not defined from a tools registry)")
    if len(sites) < 1:
        raise AnchorError("no tool execution site found (the expression pathway and the structured tool-call path are expected to reach one)")

    # ---- the gate, decided semantically at the public entry points: the tool body runs  ⇔  no ceiling ∨ required ⊆ allowed
    interpreted, sem_ok = _capability_tables(p, led, mito)
    if sem_ok:
        led.ok("C03-R3", "Mitochondria ▸ a refused tool is reported as a failure result at every interpreted entry point", where(interpreted[0], interpreted[0].node),
               "every refusing cell of the capability tables returns success=False (rows above)")
    cg_reach = {f.key: {g.key for g in res.reachable_from(f)} for f in p.all_funcs if not f.name.startswith("_") or f.name == "__call__"}

    def covered(site_fn):
        """every public function that reaches the site does so only through an interpreted entry point"""
        ikeys = {e.key for e in interpreted}
        for f in p.all_funcs:
            if f.key not in cg_reach or site_fn.key not in cg_reach[f.key] or f.key in ikeys:
                continue
            # reach from f without passing through an interpreted entry point
            seen, todo = {f.key}, [f]
            hit = False
            while todo and not hit:
                g = todo.pop()
                for h, _c in res.callees(g):
                    if h.key in ikeys or h.key in seen:
                        continue
                    if h.key == site_fn.key:
                        hit = True
                        break
                    seen.add(h.key)
                    todo.append(h)
            if hit or f.key == site_fn.key:
                return False
        return True

    for fi, call, recv in sites:
        if sem_ok and covered(fi) and (fi.module.rel, call.lineno) in EXECUTED_AT:
            led.ok("C03-R1", f"{fi.qual} ▸ {short(call, 50)}", where(fi, call),
                   "the interpreted entry points, whose capability tables hold for every required / allowed set (rows above), are the only way to this site and their runs went through it")
            continue
        cfg = cfg_of(fi, led)
        node = cfg.node_of(call)
        key = f"{fi.qual} ▸ {short(call, 50)}"
        toolvar = recv.id if isinstance(recv, ast.Name) else None
        # ---- candidate gate edges in this function
        gate_edges = []
        gate_tests = []
        for t in cfg.nodes:
            if t.kind != "test":
                continue
            for lab in ("T", "F"):
                if edge_implies(t.ast, lab, lambda a: _classify(fi, a, toolvar), lambda f: (f.get("restricted") is False) or (f.get("subset") is True)):
                    gate_edges.append((t, lab))
                    gate_tests.append(t)
        # ---- gate helpers: self._something(tool...) whose every normal return passes an admitting edge
        helper_nodes = []
        for c in walk_no_nested(fi.node):
            if isinstance(c, ast.Call) and c is not call:
                for g in res.resolve_call(fi, c):
                    if g.cls is mito and _is_gate_helper(g, led) and _passes_tool(c, toolvar, recv):
                        helper_nodes.append(cfg.node_of(c))
        def cut(a, b, lab):
            if (a, lab) in [(t, l) for t, l in gate_edges]:
                return True
            if a in helper_nodes and lab != "exc":
                return True
            return False
        seen = cfg.reach(starts=[cfg.entry], cut=cut)
        if node in seen:
            led.fail("C03-R1", key, where(fi, call),
                     "the tool body is reachable without a capability test: a tool whose required capabilities exceed the allowed set is executed",
                     path=cfg.fmt_path(cfg.witness(seen, node)),
                     witness="Mitochondria(allowed_capabilities=set()) + tool requiring NET: execute_tool_call(ToolCall(name=tool)) runs the tool body")
            continue
        # same tool object, not redefined between gate and call
        probs = []
        if toolvar:
            defs = _tool_origin(fi, toolvar)
            if len(defs) != 1:
                probs.append(f"`{toolvar}` has {len(defs)} definitions")
            for t, lab in gate_edges:
                inner = cfg.reach(start_edges=[(t, m, l) for m, l in t.succ if l == lab])
                for x in inner:
                    if x.kind == "stmt" and isinstance(x.ast, ast.Assign) and any(isinstance(tt, ast.Name) and tt.id == toolvar for tt in x.ast.targets):
                        after = cfg.reach(start_edges=cfg.out_edges(x))
                        if node in after:
                            probs.append(f"`{toolvar}` is reassigned at line {x.line} between the gate and the call")
        if probs:
            led.fail("C03-R1", key, where(fi, call), "; ".join(sorted(set(probs))))
        else:
            how = (f"dominated by the admitting edge of `{short(gate_tests[0].ast, 90)}`" if gate_tests else "dominated by the normal return of a gate helper")
            led.ok("C03-R1", key, where(fi, call), how + (f"; required set is read from `{toolvar}`, defined once from the registry" if toolvar else ""))
        # ---- R3 refusal is a failure
        for t, lab in gate_edges:
            other = "F" if lab == "T" else "T"
            refuse = cfg.reach(start_edges=[(t, m, l) for m, l in t.succ if l == other])
            k3 = f"{fi.qual} ▸ refusing edge of `{short(t.ast, 60)}`"
            if node in refuse:
                led.fail("C03-R3", k3, where(fi, t.ast), "the refusing edge still reaches the tool call")
                continue
            bad_ret = []
            for x in refuse:
                if x.kind == "stmt" and isinstance(x.ast, ast.Return):
                    if not _is_failure_result(x.ast.value, res, fi):
                        bad_ret.append(x)
            raises = cfg.raise_exit in refuse
            if bad_ret:
                led.fail("C03-R3", k3, where(fi, bad_ret[0].ast), f"after a refused tool the function returns `{short(bad_ret[0].ast.value)}`, not a failure")
            elif raises and not _callers_contain(p, res, fi):
                led.fail("C03-R3", k3, where(fi, t.ast), "refusal raises to a caller that does not convert it into a failure result")
            else:
                led.ok("C03-R3", k3, where(fi, t.ast), "refusal " + ("raises into the blanket failure handler of the public entry point" if raises else "returns a success=False result"))
        for hn in helper_nodes:
            k3 = f"{fi.qual} ▸ refusal of gate helper `{short(hn.ast, 50)}`"
            excs = [m for m, l in hn.succ if l == "exc"]
            okh = True
            for m_ in excs:
                if m_ is cfg.raise_exit and not _callers_contain(p, res, fi):
                    okh = False
                if m_.kind == "except":
                    r = cfg.reach(starts=[m_])
                    if node in r:
                        okh = False
                    for x in r:
                        if x.kind == "stmt" and isinstance(x.ast, ast.Return) and not _is_failure_result(x.ast.value, res, fi) and x is not node:
                            # returns after the handler must be failures unless they are past the call (not reachable here)
                            if node not in cfg.reach(starts=[cfg.entry], avoid={m_}) or True:
                                pass
            if okh:
                led.ok("C03-R3", k3, where(fi, hn.ast), "the helper's refusal (exception edge) leads to a failure result and never to the tool call")
            else:
                led.fail("C03-R3", k3, where(fi, hn.ast), "the helper's refusal is not turned into a failure result, or its handler falls through to the tool call")

    # ---------------- R4 the declared requirement set reaches the gate intact: nobody rewrites a tool's requirement set
    # into something that can be smaller (a normalisation that drops what it does not recognise un-requires it)
    led.rule("C03-R4", "a tool's required capability set is never replaced by a possibly smaller one between declaration and the gate", 1)
    n_rw = 0
    for fi in p.all_funcs:
        for n in walk_no_nested(fi.node):
            if not isinstance(n, (ast.Assign, ast.AnnAssign, ast.AugAssign)):
                continue
            tgts = n.targets if isinstance(n, ast.Assign) else [n.target]
            for t in tgts:
                if not (isinstance(t, ast.Attribute) and t.attr in ("required_capabilities", "capabilities") and not (fi.cls is not None and fi.cls.name in ("WiringDiagram", "ModuleSpec"))):
                    continue
                if fi.module.rel not in FILES:
                    continue
                v = n.value
                key = f"{fi.qual} ▸ {short(n, 60)}"
                n_rw += 1
                same = src(t)

                def preserves(e):
                    if e is None:
                        return False
                    if src(e) == same or (isinstance(e, ast.Name) and e.id in fi.params()):
                        return True
                    if isinstance(e, ast.Call) and isinstance(e.func, ast.Name) and e.func.id in ("set", "frozenset") and len(e.args) == 1:
                        return preserves(e.args[0])
                    if isinstance(e, ast.BinOp) and isinstance(e.op, ast.BitOr):
                        return preserves(e.left) or preserves(e.right)
                    if isinstance(e, ast.BoolOp) and isinstance(e.op, ast.Or):
                        return preserves(e.values[0])
                    return False
                if isinstance(n, ast.AugAssign) and isinstance(n.op, ast.BitOr):
                    led.ok("C03-R4", key, where(fi, n), "widened only", nontrivial=False)
                elif preserves(v):
                    led.ok("C03-R4", key, where(fi, n), "value-preserving (copy / union)", nontrivial=False)
                else:
                    led.fail("C03-R4", key, where(fi, n), f"the requirement set is replaced by `{short(v, 60)}`, which need not contain every declared requirement: what it drops is no longer checked by the gate",
                             witness="a tool registered with required_capabilities={'shell'} runs under allowed_capabilities=set()")
    led.ok("C03-R4", "package ▸ rewrites of a tool's requirement set", "operon_ai/", f"{n_rw} assignment(s) to a requirement attribute in the analysed files")

    # ---------------- R2 entry points (informational obligations)
    entries = set()
    site_funcs = {fi.key for fi, _, _ in sites}
    for fi in p.all_funcs:
        if fi.name.startswith("_") and fi.name != "__call__":
            continue
        reach = res.reachable_from(fi)
        if any(g.key in site_funcs for g in reach):
            entries.add(fi.qual)
    led.ok("C03-R2", "package ▸ public entry points reaching a tool execution site", "operon_ai/", f"{sorted(entries)}")
    led.extra["entry_points"] = sorted(entries)
    for e in ("Mitochondria.metabolize", "Mitochondria.execute_tool_call", "Nucleus.transcribe_with_tools"):
        if e not in entries:
            led.info(f"expected entry point {e} does not reach a tool site through resolved calls (listed for review)")


# ----------------------------------------------------------------------
EXECUTED_AT = set()      # (file, line) of the call expressions through which a table run reached a tool body


def _capability_tables(p, led, mito):
    """metabolize (tool pathway, forced and auto-detected) and execute_tool_call interpreted for every required set ×
    every ceiling over three capabilities (plus each single capability): the tool body runs exactly when the statement
    allows it, and a refusal is a failure result.  Returns (interpreted entry points, all rows hold)."""
    import itertools
    from ..fdai import Interp, Obj, Unknown, PyRaise, SkipPath, explore, Imprecise, stub
    st = p.cls("SimpleTool", M)
    CAP = p.cls("Capability", "operon_ai/core/types.py")
    MP = p.cls("MetabolicPathway", M)
    members = [n for n, _ in CAP.enum_members()]
    met = p.find_method(mito, "metabolize")
    etc = p.find_method(mito, "execute_tool_call")
    if met is None or etc is None:
        raise AnchorError("Mitochondria.metabolize / execute_tool_call not found")
    base = members[:3]
    subsets = [frozenset(c) for k in range(len(base) + 1) for c in itertools.combinations(base, k)]
    combos = [(r, a) for r in subsets for a in [None] + subsets]
    combos += [(frozenset({m_}), a) for m_ in members[3:] for a in (None, frozenset(), frozenset({m_}), frozenset(base))]
    # declared requirements that are not members of the enumeration (a custom tag): never covered by a ceiling made of
    # members, so the tool must be refused under every ceiling ("arbitrary required-capability sets")
    combos += [(r_, a) for r_ in (frozenset({"§gpu"}), frozenset({base[0], "§shell"})) for a in (frozenset(), frozenset({base[0]}), frozenset(base))]
    ok_all = True
    EXECUTED_AT.clear()
    for label, how in (("metabolize ▸ tool pathway (forced)", "forced"), ("metabolize ▸ tool pathway (auto-detected)", "auto"), ("execute_tool_call", "call")):
        bad, npaths = [], 0
        admissible_ran = [0]
        for req, allowed in combos:
            def go(o, _req=req, _allowed=allowed):
                it = Interp(p, o)
                ran = []

                @stub
                def body(interp, args, kwargs):
                    ran.append(1)
                    EXECUTED_AT.update(interp.call_stack[-2:])
                    return "done"
                m = it.instantiate(mito, [], dict(allowed_capabilities=(None if _allowed is None else {it.enum_member(CAP, c) for c in _allowed}), silent=True))
                try:
                    t = it.instantiate(st, [], dict(name="t", description="d", func=body, required_capabilities={(c[1:] if c.startswith("§") else it.enum_member(CAP, c)) for c in _req}))
                except PyRaise as e_:
                    raise SkipPath(f"the tool record rejects this declaration: {e_.exc!r}")
                it.call_fi(p.find_method(mito, "engulf_tool"), [m, t], {})
                try:
                    if how == "call":
                        tc = Obj(None, {"name": "t", "id": "c1", "arguments": {}}, tag="toolcall")
                        r = it.call_fi(etc, [m, tc], {})
                    else:
                        r = it.call_fi(met, [m, "t()"] + ([it.enum_member(MP, "OXIDATIVE")] if how == "forced" else []), {})
                except PyRaise as e:
                    return dict(raised=repr(e.exc), ran=len(ran))
                return dict(success=r.fields.get("success") if isinstance(r, Obj) else None, ran=len(ran))
            try:
                paths = [r for _, r in explore(go, max_paths=100)]
            except Imprecise as e:
                raise AnchorError(f"{label} could not be interpreted: {e}")
            npaths += len(paths)
            may = allowed is None or req <= allowed
            for r in paths:
                tag = f"required={sorted(req)} allowed={'no ceiling' if allowed is None else sorted(allowed)}"
                if "raised" in r:
                    bad.append(f"{tag}: raises {r['raised']}")
                elif r["ran"] and not may:
                    bad.append(f"{tag}: the tool body ran although its requirements exceed the ceiling")
                elif not may and r["success"] is not False:
                    bad.append(f"{tag}: the refusal is reported as success={r['success']!r}")
                elif may and r["ran"]:
                    admissible_ran[0] += 1          # (the statement does not oblige an admissible call to go through; it must be *possible*, or the table is vacuous)
        key = f"Mitochondria.{label} ▸ capability table ({len(combos)} required × allowed cells)"
        fn = etc if how == "call" else met
        if not admissible_ran[0] and not bad:
            raise AnchorError(f"{label}: no admissible tool ever ran in the capability table — the harness does not reach tool execution")
        if bad:
            ok_all = False
            led.fail("C03-R1", key, where(fn, fn.node), f"{len(set(bad))} cell(s), e.g. {sorted(set(bad))[0]}", path=sorted(set(bad))[:8],
                     witness="Mitochondria(allowed_capabilities=set()) + tool requiring NET: the tool body runs")
        else:
            led.ok("C03-R1", key, where(fn, fn.node), f"{npaths} path(s): the tool body runs ⇔ no ceiling ∨ required ⊆ allowed; a refusal is a failure result")
    # ---- a forbidden tool must not run wherever its call sits in the expression and whichever pathway is forced
    net = members[2]
    shapes = ["u(t())", "1 + t()", "0 < t()", "[1, t()]", "t() if 1 else 0", "-t()", "u(x=t())", "t() and 1", "t()"]
    nbad, npaths2 = [], 0
    for shape in shapes:
        for pathway in [None] + [n for n, _ in MP.enum_members()]:
            def go_n(o, _shape=shape, _pw=pathway):
                it = Interp(p, o)
                ran = []

                def mk(label):
                    @stub
                    def body(interp, args, kwargs):
                        ran.append(label)
                        return 1
                    return body
                m = it.instantiate(mito, [], dict(allowed_capabilities=set(), silent=True))
                t = it.instantiate(st, [], dict(name="t", description="d", func=mk("forbidden"), required_capabilities={it.enum_member(CAP, net)}))
                u = it.instantiate(st, [], dict(name="u", description="d", func=mk("harmless"), required_capabilities=set()))
                reg = p.find_method(mito, "engulf_tool")
                try:
                    it.call_fi(reg, [m, t], {})
                    it.call_fi(reg, [m, u], {})
                    r = it.call_fi(met, [m, _shape] + ([it.enum_member(MP, _pw)] if _pw else []), {})
                except PyRaise as e:
                    return dict(raised=repr(e.exc), ran=list(ran))
                return dict(ran=list(ran), success=r.fields.get("success") if isinstance(r, Obj) else None)
            try:
                paths = [r for _, r in explore(go_n, max_paths=200)]
            except Imprecise as e:
                led.info(f"nested tool-call shape {shape!r} under pathway {pathway}: not interpreted ({e})")
                continue
            npaths2 += len(paths)
            for r in paths:
                if "forbidden" in r["ran"]:
                    nbad.append(f"expression {shape!r}, pathway {pathway or 'auto-detected'}: the tool requiring {net} ran under allowed_capabilities=set()")
    key = "Mitochondria.metabolize ▸ a forbidden tool does not run wherever its call sits in the expression (9 shapes × every pathway)"
    if nbad:
        ok_all = False
        led.fail("C03-R1", key, where(met, met.node), sorted(set(nbad))[0], path=sorted(set(nbad))[:8], witness="metabolize('1 + wire(100)') with wire requiring NET and allowed_capabilities=set(): wire runs")
    elif npaths2:
        led.ok("C03-R1", key, where(met, met.node), f"{npaths2} path(s): the forbidden tool's body never runs (nested in a call, an operator, a comparison, a display, a conditional; forced onto every pathway)")
    # ---- histories: a verdict obtained for one tool / one ceiling must not carry over to another
    def extra_kwargs(fn, known):
        """every optional parameter of the entry point that the statement does not mention is the caller's to choose: symbolic"""
        a = fn.node.args
        names = [x.arg for x in a.args[1:] + a.kwonlyargs]
        return {n: Unknown(f"caller_chooses_{n}") for n in names if n not in known}
    hist_bad, hpaths = [], 0
    for how in ("forced", "call"):
        for scenario in ("same name re-registered with a forbidden tool", "ceiling lowered after an admitted call", "another tool object of the same shape"):
            def go_h(o, _how=how, _sc=scenario):
                it = Interp(p, o)
                ran = []

                def mk(label):
                    @stub
                    def body(interp, args, kwargs):
                        ran.append(label)
                        return "done"
                    return body
                net = it.enum_member(CAP, members[2])
                m = it.instantiate(mito, [], dict(allowed_capabilities=({net} if _sc.startswith("ceiling") else set()), silent=True))
                good = it.instantiate(st, [], dict(name="t", description="d", func=mk("good"), required_capabilities=({net} if _sc.startswith("ceiling") else set())))
                evil = it.instantiate(st, [], dict(name=("t" if _sc.startswith("same name") else "u"), description="d", func=mk("evil"), required_capabilities={net}))
                reg = p.find_method(mito, "engulf_tool")

                def call(name):
                    if _how == "call":
                        tc = Obj(None, {"name": name, "id": "c1", "arguments": {}}, tag="toolcall")
                        return it.call_fi(etc, [m, tc], extra_kwargs(etc, ("call",)))
                    return it.call_fi(met, [m, f"{name}()", it.enum_member(MP, "OXIDATIVE")], extra_kwargs(met, ("expression", "pathway")))
                try:
                    it.call_fi(reg, [m, good], {})
                    call("t")
                    n_good = len(ran)
                    if _sc.startswith("same name"):
                        it.call_fi(reg, [m, evil], {})
                        r = call("t")
                    elif _sc.startswith("ceiling"):
                        m.fields["allowed_capabilities"] = set()
                        r = call("t")
                    else:
                        it.call_fi(reg, [m, evil], {})
                        r = call("u")
                except PyRaise as e:
                    return dict(raised=repr(e.exc))
                return dict(later=ran[n_good:], success=r.fields.get("success") if isinstance(r, Obj) else None)
            try:
                paths = [r for _, r in explore(go_h, max_paths=200)]
            except Imprecise as e:
                raise AnchorError(f"capability history could not be interpreted: {e}")
            hpaths += len(paths)
            for r in paths:
                tag = f"{'execute_tool_call' if how == 'call' else 'metabolize'}, {scenario}"
                if "raised" in r:
                    hist_bad.append(f"{tag}: raises {r['raised']}")
                elif r["later"]:
                    hist_bad.append(f"{tag}: the tool body ran although its requirements exceed the ceiling at the time of the call (a clearance obtained earlier, or chosen by the caller, was reused)")
                elif r["success"] is not False:
                    hist_bad.append(f"{tag}: the refusal is reported as success={r['success']!r}")
    key = "Mitochondria ▸ capability verdicts do not carry over (re-registration, lowered ceiling, look-alike tool; optional parameters chosen by the caller)"
    if hist_bad:
        ok_all = False
        led.fail("C03-R1", key, where(etc, etc.node), sorted(set(hist_bad))[0], path=sorted(set(hist_bad))[:8],
                 witness="call a benign tool, re-register its name with a tool requiring NET under allowed_capabilities=set(), call again: the body runs")
    else:
        led.ok("C03-R1", key, where(etc, etc.node), f"{hpaths} path(s) over 3 histories × 2 entry points: the later, inadmissible call is refused")
    return [met, etc], ok_all


def _is_allowed(fi, e, depth=0):
    """expression denotes the configured capability ceiling (`self.allowed_capabilities`, or a local bound to it)"""
    if "allowed_capabilities" in src(e):
        return True
    if isinstance(e, ast.Name) and depth < 3:
        defs = _tool_origin(fi, e.id)
        return bool(defs) and all(_is_allowed(fi, d, depth + 1) for d in defs)
    return False


def _classify(fi, atom, toolvar):
    """('restricted', pol) for tests of `allowed_capabilities is (not) None`;
    ('subset', pol) for `<req>.issubset(<allowed>)`, `<req> <= <allowed>`, `not (<req> - <allowed>)` where <req> derives from the tool"""
    if isinstance(atom, ast.Compare) and len(atom.ops) == 1 and _is_allowed(fi, atom.left) and isinstance(atom.comparators[0], ast.Constant) and atom.comparators[0].value is None:
        if isinstance(atom.ops[0], (ast.IsNot, ast.NotEq)):
            return ("restricted", True)
        if isinstance(atom.ops[0], (ast.Is, ast.Eq)):
            return ("restricted", False)
    if isinstance(atom, ast.Call) and isinstance(atom.func, ast.Attribute) and atom.func.attr == "issubset" and atom.args and _is_allowed(fi, atom.args[0]):
        if _derives_from_tool(fi, atom.func.value, toolvar):
            return ("subset", True)
    if isinstance(atom, ast.Call) and isinstance(atom.func, ast.Attribute) and atom.func.attr == "issuperset" and _is_allowed(fi, atom.func.value) and atom.args:
        if _derives_from_tool(fi, atom.args[0], toolvar):
            return ("subset", True)
    if isinstance(atom, ast.Compare) and len(atom.ops) == 1 and isinstance(atom.ops[0], ast.LtE) and _is_allowed(fi, atom.comparators[0]):
        if _derives_from_tool(fi, atom.left, toolvar):
            return ("subset", True)
    if isinstance(atom, ast.Compare) and len(atom.ops) == 1 and isinstance(atom.ops[0], ast.GtE) and _is_allowed(fi, atom.left):
        if _derives_from_tool(fi, atom.comparators[0], toolvar):
            return ("subset", True)
    if isinstance(atom, ast.BinOp) and isinstance(atom.op, ast.Sub) and _is_allowed(fi, atom.right):
        if _derives_from_tool(fi, atom.left, toolvar):
            return ("subset", False)     # non-empty difference  <=>  not a subset
    if isinstance(atom, ast.Name):
        # a local bound once to one of the forms above (`missing = needed - granted; if missing: raise`)
        defs = _tool_origin(fi, atom.id)
        if len(defs) == 1 and not isinstance(defs[0], ast.Name):
            return _classify(fi, defs[0], toolvar)
    return None


def _derives_from_tool(fi, e, toolvar, depth=0):
    """the required-capability expression is computed from the executed tool object"""
    if depth > 4:
        return False
    if toolvar is None:
        return any(isinstance(x, ast.Attribute) and x.attr in ("required_capabilities", "capabilities") for x in ast.walk(e)) or \
            any(isinstance(x, ast.Constant) and x.value in ("required_capabilities", "capabilities") for x in ast.walk(e))
    if mentions_name(e, toolvar) and ("required_capabilities" in src(e) or "capabilities" in src(e)):
        return True
    for x in ast.walk(e):
        if isinstance(x, ast.Name) and x.id != toolvar:
            for d in _tool_origin(fi, x.id):
                if d is not e and _derives_from_tool(fi, d, toolvar, depth + 1):
                    return True
    return False


def _is_gate_helper(g, led):
    """every normal return of g passes an admitting capability edge (its refusing edge raises)"""
    cfg = cfg_of(g, led)
    params = [a for a in g.params() if a != "self"]
    edges = []
    for t in cfg.nodes:
        if t.kind != "test":
            continue
        for lab in ("T", "F"):
            for tv in params + [None]:
                if edge_implies(t.ast, lab, lambda a: _classify(g, a, tv), lambda f: (f.get("restricted") is False) or (f.get("subset") is True)):
                    edges.append((t, lab))
                    break
    if not edges:
        return False
    seen = cfg.reach(starts=[cfg.entry], cut=lambda a, b, l: (a, l) in edges)
    return cfg.exit not in seen


def _passes_tool(call, toolvar, recv):
    args = [src(a) for a in call.args] + [src(k.value) for k in call.keywords]
    if toolvar:
        return any(toolvar == a or a.startswith(toolvar + ".") for a in args) or any(toolvar in a for a in args)
    return any(src(recv) in a for a in args)


def _is_failure_result(v, res=None, fi=None, depth=0):
    """the returned expression is a success=False result: a constructor call with success=False, a helper all of
    whose returns are such results, or a local bound once to one of those"""
    if v is None:
        return False
    if isinstance(v, ast.Call):
        for k in v.keywords:
            if k.arg == "success" and isinstance(k.value, ast.Constant) and k.value.value is False:
                return True
        if res is not None and fi is not None and depth < 3:
            tg = [g for g in res.resolve_call(fi, v) if g.name not in ("__init__", "__post_init__")]
            if tg:
                return all((rets := [r for r in walk_no_nested(g.node) if isinstance(r, ast.Return)]) and all(_is_failure_result(r.value, res, g, depth + 1) for r in rets) for g in tg)
    if isinstance(v, ast.Name) and fi is not None and depth < 3:
        defs = _tool_origin(fi, v.id)
        return len(defs) == 1 and _is_failure_result(defs[0], res, fi, depth + 1)
    return False


def _callers_contain(p, res, fi):
    """every package call site of fi is inside a try whose catch-all handler returns a success=False result"""
    sites = res.callers_of(fi)
    if not sites:
        return False
    for caller, call in sites:
        q = parent(call)
        ok = False
        while q is not None and not isinstance(q, ast.FunctionDef):
            if isinstance(q, ast.Try):
                for h in q.handlers:
                    names = {dotted(x) for x in (h.type.elts if isinstance(h.type, ast.Tuple) else [h.type])} if h.type is not None else {"BaseException"}
                    if names & {"Exception", "BaseException"}:
                        rets = [r for r in ast.walk(h) if isinstance(r, ast.Return)]
                        if rets and all(_is_failure_result(r.value, res, caller) for r in rets):
                            ok = True
            q = parent(q)
        if not ok:
            return False
    return True
