"""C12 — taint abstract interpretation of the renderer (deciding rule set for the "bound values stay data" clause).

The driver `Ribosome.translate` is interpreted by fdai with
  * the template text, the registered templates and every match object unknown,
  * the binding dictionary, the filters, the default text of a defaulted variable and the rendering of an included
    template marked as *data* (a marker in the symbol of the unknown, so the mark travels through every operation that
    builds a text from its operands: str(), f-strings, +, join, replace, slicing, method calls),
  * the regex engine replaced by a recorder: every `re.sub / finditer / search …` (module function or compiled pattern)
    logs (pattern, subject text) and, for substitutions, explores every path of the replacement callback and folds the
    returned texts into the result,
  * the delimiter rewrite `x.replace("{", <text without "{{">)` recognised as the escape (data → escaped data) and the
    opposite rewrite as the un-escape (escaped data → data again).

A *scan* is a regex call whose pattern contains the template delimiter, or a `.replace(key, …)` whose key is template
syntax (a literal containing the delimiter, or the text a syntax scan matched).  The rule: no scan ever sees a subject
that contains unescaped data.  Which function hosts the scan, how the passes are dispatched (tables, getattr, partial,
closures, helpers) and in how many phases the driver is split does not matter: only the order of effects does.

The same runs decide the reporting clauses: strict mode raises before the first substitution, a simple variable left in
place comes with a warning in Protein.warnings, an unknown include becomes the explicit marker, and the escape is undone
(nothing escaped is left in the returned text).
"""
from __future__ import annotations

import ast
import re as _re

from ..fdai import Interp, Obj, Unknown, PyRaise, ExcVal, explore, Imprecise, PathLimit, stub, _sym
from ..loader import AnchorError

T, E, U, S = "⟦T:", "⟦E:", "⟦U:", "⟦S⟧"
RE_FUNCS = ("sub", "subn", "finditer", "findall", "search", "match", "fullmatch", "split")
PROBES = {
    "simple": "{{name}}", "optional": "{{?name}}", "filtered": "{{name|upper}}", "default": "{{name|a default}}",
    "conditionals": "{{#if a}}x{{/if}}", "loops": "{{#each xs}}x{{/each}}", "includes": "{{>part}}",
}


# methods of an unknown text whose arguments do not become part of the result / whose result is not text at all
TEXT_PRESERVING = {"split", "rsplit", "splitlines", "partition", "rpartition", "strip", "lstrip", "rstrip", "removeprefix", "removesuffix",
                   "upper", "lower", "title", "capitalize", "casefold", "swapcase", "expandtabs", "encode", "decode"}
NOT_TEXT = {"find", "rfind", "index", "rindex", "count", "startswith", "endswith", "isdigit", "isalpha", "isalnum", "isspace", "isidentifier", "islower", "isupper"}


def label_of(pattern: str) -> str:
    """which documented construct a scan pattern recognises, decided by the host regex engine on one probe per construct
    (constant folding of a literal pattern); 'syntax' for any other pattern that contains the delimiter"""
    try:
        rx = _re.compile(pattern, _re.DOTALL)
    except _re.error:
        return "syntax"
    hits = [k for k, probe in PROBES.items() if rx.fullmatch(probe)]
    if len(hits) == 1:
        return hits[0]
    if set(hits) == {"filtered", "default"}:
        return "default"
    if hits:
        return "+".join(sorted(hits))
    return "syntax"


def is_syntax_text(s) -> bool:
    return isinstance(s, str) and ("{{" in s or "\\{\\{" in s or "\\{{" in s or "{\\{" in s)


def data_in(sym: str):
    """kinds of unescaped data visible in a symbol"""
    return sorted(set(_re.findall(r"⟦[TU]:([a-z ]+)⟧", sym)))


class TaintInterp(Interp):
    def __init__(self, *a, **k):
        super().__init__(*a, **k)
        self.scan_events = []        # dicts
        self.escapes = set()         # (A, B) literal escape rewrites seen
        self.unescapes = set()
        self.appends = []            # (tick, list object, value)
        self.tick = 0
        self.n_match = 0
        self.recursive = set()       # qualnames of renderer functions that can reach themselves (set by interpret)
        self.active = {}
        self.renderer = None         # name of the renderer class: any of its methods entered again while running is an include recursion
        self.level = 0               # include nesting of the translate() activation that is running

    # -- locations
    def here(self):
        return self.call_stack[-1] if self.call_stack else ("?", 0)

    # -- recursion through includes: a renderer function that is entered again while one of its activations is still
    # running renders an included template with the same code — for the including activation the result is simply data
    def _call_func(self, f, args, kwargs):
        q = f.fi.qual if f.fi is not None else None
        if q is not None and (q in self.recursive or (f.fi.cls is not None and f.fi.cls.name == self.renderer)):
            if self.active.get(q, 0) >= 1:
                return Unknown(T + "included rendering⟧" + q)
            self.active[q] = self.active.get(q, 0) + 1
            try:
                return super()._call_func(f, args, kwargs)
            finally:
                self.active[q] -= 1
        return super()._call_func(f, args, kwargs)

    # -- the escape / un-escape rewrites and replace-scans on unknown texts
    def call(self, f, args, kwargs):
        if isinstance(f, Unknown) and f.meth and f.sym.endswith(".replace") and len(args) >= 2:
            recv = f.sym[: -len(".replace")]
            a, b = args[0], args[1]
            if isinstance(a, str) and isinstance(b, str):
                if a in ("{", "{{") and "{{" not in b and a != b:
                    self.escapes.add((a, b))
                    return Unknown("esc⟨" + recv.replace(T, E).replace(U, E) + "⟩")
                if b in ("{", "{{") and a not in ("{", "{{"):
                    self.unescapes.add((a, b))
                    return Unknown("unesc⟨" + recv.replace(E, U) + "⟩")
            key_is_syntax = is_syntax_text(a) or (isinstance(a, Unknown) and S in a.sym)
            if key_is_syntax:
                self.note_scan("replace", a if isinstance(a, str) else "<matched construct>", recv, substitution=True)
            return Unknown(f"{recv}.replace(…, {_sym(b)})")      # the search key does not flow into the result
        if isinstance(f, Unknown) and f.meth and "." in f.sym:
            recv, _, name = f.sym.rpartition(".")
            if name in TEXT_PRESERVING:
                # only the receiver's text flows into the result (separators, prefixes, fill characters and search keys do not)
                return Unknown(f"{recv}.{name}(…)")
            if name in NOT_TEXT:
                return Unknown(f"{name}⟨…⟩#{self.fresh('n').sym}")
        return super().call(f, args, kwargs)

    def _method(self, recv, name, args, kwargs):
        if isinstance(recv, list) and name == "append" and args:
            self.tick += 1
            self.appends.append((self.tick, recv, args[0]))
        if isinstance(recv, list) and name == "extend" and args:
            for v in (args[0] if isinstance(args[0], (list, tuple)) else []):
                self.tick += 1
                self.appends.append((self.tick, recv, v))
        if isinstance(recv, str) and name == "replace" and len(args) >= 2 and is_syntax_text(args[0]) and isinstance(args[1], Unknown):
            # substitution into a literal text: the subject is template source
            self.note_scan("replace", args[0], repr(recv)[:60], substitution=True)
        return super()._method(recv, name, args, kwargs)

    def note_scan(self, via, pattern, subject_sym, substitution):
        self.tick += 1
        self.scan_events.append(dict(tick=self.tick, via=via, pattern=pattern if isinstance(pattern, str) else None, subject=subject_sym,
                                     where=self.here(), substitution=substitution, level=self.level, data=data_in(subject_sym), callback_paths=[]))
        return self.scan_events[-1]

    # -- the recorder that stands for the regex engine
    def new_match(self, label):
        self.n_match += 1
        n = self.n_match

        @stub
        def group(interp, a, k, _n=n, _label=label):
            idx = a[0] if a else 0
            if idx == 0:
                return Unknown(f"{S}m{_n}.group(0)")
            if _label == "default" and idx == 2:
                return Unknown(f"{T}default text⟧m{_n}.group(2)")
            return Unknown(f"m{_n}.group({idx})")

        @stub
        def groups(interp, a, k, _n=n):
            return (Unknown(f"m{_n}.group(1)"), Unknown(f"m{_n}.group(2)"))

        @stub
        def pos(interp, a, k, _n=n):
            return Unknown(f"m{_n}.pos")
        rx = Obj(None, {"groups": Unknown(f"match{n}.re.groups", kind="int"), "pattern": Unknown(f"match{n}.re.pattern", kind="str")}, tag=f"pattern{n}")
        return Obj(None, {"group": group, "groups": groups, "start": pos, "end": pos, "span": pos, "re": rx, "string": Unknown(f"match{n}.string", kind="str")}, tag=f"match{n}")

    def regex_call(self, fname, pattern, rest, kwargs):
        """re.<fname>(pattern, *rest) / compiled.<fname>(*rest)"""
        if fname in ("sub", "subn"):
            repl, text = (rest + [None, None])[:2]
            if text is None:
                text = kwargs.get("string")
            if repl is None:
                repl = kwargs.get("repl")
        else:
            repl, text = None, (rest[0] if rest else kwargs.get("string"))
        tsym = text.sym if isinstance(text, Unknown) else repr(text)
        syntax = is_syntax_text(pattern) if isinstance(pattern, str) else True      # an unknown pattern may be anything
        label = label_of(pattern) if isinstance(pattern, str) else "syntax"
        ev = None
        if syntax:
            ev = self.note_scan("re." + fname, pattern, tsym, substitution=fname in ("sub", "subn"))
            ev["label"] = label
        rets = []
        if fname in ("sub", "subn") and repl is not None and not isinstance(repl, (str, Unknown)):
            saved = self.o
            the_match = self.new_match(label)

            def one(o2):
                self.o = o2
                t0 = self.tick
                try:
                    v = self.call(repl, [the_match], {})
                    return dict(kind="ret", value=v, t0=t0, t1=self.tick)
                except PyRaise as e:
                    return dict(kind="raise", value=e.exc, t0=t0, t1=self.tick)
            try:
                # the callback is run for a first occurrence of a construct (every path), and then again for a second
                # occurrence with the same text: whatever the first left behind (a memo, a counter, a shared mapping)
                # is there when the second runs
                rets = [r for _, r in explore(one, max_paths=400)]
                rets += [dict(r, repeat=True) for _, r in explore(one, max_paths=400)]
            finally:
                self.o = saved
            if ev is not None:
                ev["callback_paths"] = rets
        elif fname in ("sub", "subn") and isinstance(repl, (str, Unknown)):
            rets = [dict(kind="ret", value=repl, t0=self.tick, t1=self.tick)]
        if fname in ("sub", "subn"):
            parts = [(r["value"].sym if isinstance(r["value"], Unknown) else repr(r["value"])) for r in rets if r["kind"] == "ret"]
            out = Unknown(f"re.sub⟨{tsym}⟩⟨{' | '.join(parts)}⟩")
            return (out, Unknown("nsubs")) if fname == "subn" else out
        if fname in ("finditer", "findall"):
            n = 1          # one match: the loop body over the matches is interpreted once (no match only skips it)
            if fname == "findall":
                return [Unknown(f"found{self.n_match + i}⟨{tsym}⟩") for i in range(n)]
            return [self.new_match(label) for _ in range(n)]
        if fname == "split":
            return [Unknown(f"piece⟨{tsym}⟩")]
        # search / match / fullmatch
        return self.new_match(label) if self.o.choose(2, f"{label} found") == 0 else None

    def install_regex(self):
        for fn in RE_FUNCS:
            def f(interp, args, kwargs, _fn=fn):
                return interp.regex_call(_fn, args[0] if args else kwargs.get("pattern"), list(args[1:]), kwargs)
            self.ext_stubs["re." + fn] = f

        def compile_(interp, args, kwargs):
            pat = args[0] if args else kwargs.get("pattern")
            fields = {"pattern": pat}
            for fn in RE_FUNCS:
                def m(i2, a2, k2, _fn=fn, _pat=pat):
                    return i2.regex_call(_fn, _pat, list(a2), k2)
                fields[fn] = stub(m)
            return Obj(None, fields, tag="compiled-pattern")
        self.ext_stubs["re.compile"] = compile_
        self.ext_stubs["re.escape"] = lambda interp, args, kwargs: args[0] if isinstance(args[0], Unknown) else _re.escape(args[0])


def interpret(p, rib, tr, mrna_cls, strict: bool, max_paths=3000, recursive=()):
    """every path of translate() on an unknown template with unknown bindings.  Returns a list of run records"""
    qual = tr.qual

    def go(o):
        it = TaintInterp(p, o)
        it.max_unknown_len = 1
        it.install_regex()
        it.recursive = set(recursive)
        it.renderer = rib.name
        r = it.instantiate(rib, [], dict(silent=True, strict=strict))
        r.fields["templates"] = Unknown("templates")
        r.fields["filters"] = Unknown(T + "filter output⟧filters")
        m = it.instantiate(mrna_cls, [], dict(sequence=Unknown("template_text"), name="t"))
        rec = dict(strict=strict, interp=it)
        try:
            res = it.call_fi(tr, [r, m], {"**": Unknown(T + "bound value⟧context")})
            rec["result"] = res
        except PyRaise as e:
            rec["raised"] = e.exc
            rec["raised_after"] = len([ev for ev in it.scan_events if ev["substitution"]])
        rec["events"] = it.scan_events
        rec["appends"] = it.appends
        rec["escapes"], rec["unescapes"] = it.escapes, it.unescapes
        return rec
    try:
        return [r for _, r in explore(go, max_paths=max_paths)]
    except PathLimit as e:
        raise AnchorError(f"taint interpretation of {qual}: {e}")
