"""C04 — energy ledger: no overdraft, exact charging, free failures, bounded spend, no raise."""
from __future__ import annotations

import ast

from ..fdai import LinInterp, Lin, Obj, PyRaise, Unknown, explore, Imprecise, entails, Interp
from ..loader import AnchorError, short, src, walk_no_nested
from ..rules import accessor_field, dict_key_field, where

MB = "operon_ai/state/metabolism.py"
FILES = [MB]
BAL = ("atp", "gtp", "nadh")


def L(x):
    return Lin.of(x) if not isinstance(x, Lin) else x


def nm(v):
    return getattr(v, "name", None) or repr(v)


def run(p, led, tier):
    store = p.cls("ATP_Store", MB)
    ET = p.cls("EnergyType", MB)
    MS = p.cls("MetabolicState", MB)
    for m in ("consume", "regenerate", "transfer_to", "convert_nadh_to_atp", "reset"):
        if p.find_method(store, m) is None:
            raise AnchorError(f"ATP_Store.{m} not found")
    # private fields, found through the public accessors that expose them
    DEBT = accessor_field(p, store, "get_debt")
    STATE = accessor_field(p, store, "get_state")
    CONSUMED = dict_key_field(p, store, "get_statistics", "total_consumed")
    REGEN = dict_key_field(p, store, "get_statistics", "total_regenerated")
    for nm_, v_ in (("debt (get_debt)", DEBT), ("state (get_state)", STATE), ("total_consumed (get_statistics)", CONSUMED), ("total_regenerated (get_statistics)", REGEN)):
        if v_ is None:
            raise AnchorError(f"ATP_Store: the field behind {nm_} could not be identified")
    led.extra["fields"] = dict(debt=DEBT, state=STATE, consumed=CONSUMED, regenerated=REGEN)
    led.explanation = (
        "Affine effect analysis: every ledger method is abstractly interpreted from a *symbolic* state — balances, "
        "capacities, debt, cost/amount are integer symbols constrained only by the ledger invariant "
        "(0 ≤ balance ≤ capacity, 0 ≤ debt ≤ max_debt, amount ≥ 0) — for every currency, metabolic state and "
        "allow_debt setting. Branch conditions become linear facts; each comparison is decided from the facts when "
        "they entail an answer and explored all ways otherwise (infeasible branches pruned). At every exit the final "
        "fields are linear forms over the entry symbols and the obligations are read off them: every balance ≥ 0, "
        "debt within [0, max_debt], balances ≤ capacity, success ⇒ Δ(net worth) = −cost exactly and the consumption "
        "counter grows by cost, failure ⇒ nothing changes, regeneration/transfer/conversion never create energy, and "
        "no path raises. Entailment is a bounded search for a non-negative combination of ≤ 3 facts (no solver). "
        "The invariant is established by the constructor and preserved by every method, so it holds along every "
        "history (induction); 'total successful spend ≤ initial balances + debt limit' follows from exact charging.")
    led.exhaustive = True
    led.level = "proof"
    led.not_decided = ["histories involving apply_debt_interest (excluded by the statement)", "concurrent histories (C05)", "callbacks that raise (on_state_change)"]
    led.assumptions = ["A4 amounts, capacities and the debt limit are non-negative integers", "the bounded entailment search is sound (it only ever accepts a goal it has derived from recorded facts)"]
    led.rule("C04-R1", "after every operation every balance is ≥ 0", 15)
    led.rule("C04-R2", "debt stays within [0, max_debt]", 15)
    led.rule("C04-R3", "no balance exceeds its capacity", 15)
    led.rule("C04-R4", "success removes exactly the cost from net worth (and counts it); failure changes nothing; regenerate/transfer/convert never create energy", 15)
    led.rule("C04-R5", "no ledger operation raises", 15)
    led.rule("C04-R6", "the constructor establishes the ledger invariant", 1)

    SYMS = ["atp0", "gtp0", "nadh0", "max_atp", "max_gtp", "max_nadh", "debt0", "max_debt", "consumed0", "regen0"]

    def mk(o, state, peer=False):
        it = LinInterp(p, o)
        st = it.instantiate(store, [], dict(budget=0, gtp_budget=0, nadh_reserve=0, regeneration_rate=0.0, max_debt=0, on_state_change=None, silent=True))
        pre = "p_" if peer else ""
        s = {k: Lin.sym(pre + k) for k in SYMS}
        st.fields.update(atp=s["atp0"], gtp=s["gtp0"], nadh=s["nadh0"], max_atp=s["max_atp"], max_gtp=s["max_gtp"], max_nadh=s["max_nadh"], max_debt=s["max_debt"])
        st.fields.update({DEBT: s["debt0"], CONSUMED: s["consumed0"], REGEN: s["regen0"], STATE: it.enum_member(MS, state)})
        for b in BAL:
            it.assume(s[b + "0"])
            it.assume(s["max_" + b].add(s[b + "0"], -1))
        it.assume(s["debt0"])
        it.assume(s["max_debt"].add(s["debt0"], -1))
        it.assume(s["consumed0"])
        it.assume(s["regen0"])
        return it, st, s

    def worth(fields):
        w = Lin()
        for b in BAL:
            w = w.add(L(fields[b]))
        return w.add(L(fields[DEBT]), -1)

    def check_exit(it, st, s, before_worth, kind, ret, raised, amount, energy, problems):
        f = st.fields
        if raised:
            problems["C04-R5"].append(f"raises {raised}")
            return
        for b in BAL:
            v = L(f[b])
            if v is None or not entails(it.facts, v):
                problems["C04-R1"].append(f"{b} = {f[b]!r} is not provably ≥ 0")
            cap = L(f["max_" + b])
            # the statement bounds balances by their capacity for regeneration (and conversion clamps explicitly); a spend may top ATP up from NADH
            if kind in ("regenerate", "convert") and v is not None and cap is not None and not entails(it.facts, cap.add(v, -1)):
                problems["C04-R3"].append(f"{b} = {f[b]!r} can exceed max_{b} = {cap!r}")
        d = L(f[DEBT])
        if d is None or not entails(it.facts, d):
            problems["C04-R2"].append(f"debt = {f[DEBT]!r} is not provably ≥ 0")
        elif not entails(it.facts, L(f["max_debt"]).add(d, -1)):
            problems["C04-R2"].append(f"debt = {d!r} can exceed max_debt")
        dw = worth(f).add(before_worth, -1)

        def differs(a, b):
            """a ≠ b possible on this path: equality is judged under the path's facts (a planned spend may know cost = balance + reserve)"""
            if a == b:
                return False
            d_ = a.add(b, -1)
            return not (entails(it.facts, d_) and entails(it.facts, d_.scale(-1)))
        if kind == "consume":
            dc = L(f[CONSUMED]).add(s["consumed0"], -1)
            if ret is True:
                want = L(amount).scale(-1)
                if differs(dw, want):
                    problems["C04-R4"].append(f"success: Δ(net worth) = {dw!r}, not −cost = {want!r}")
                if differs(dc, L(amount)):
                    problems["C04-R4"].append(f"success: consumption counter grows by {dc!r}, not by cost")
            elif ret is False:
                if differs(dw, Lin()):
                    problems["C04-R4"].append(f"failure: net worth changed by {dw!r}")
                if differs(L(f[DEBT]), s["debt0"]):
                    problems["C04-R4"].append(f"failure: debt changed to {f[DEBT]!r}")
                if differs(dc, Lin()):
                    problems["C04-R4"].append("failure: consumption counter changed")
            else:
                problems["C04-R4"].append(f"consume returned {ret!r}")
        elif kind == "regenerate":
            # 0 <= Δworth <= amount
            if not entails(it.facts, dw):
                problems["C04-R4"].append(f"regenerate lowered net worth (Δ = {dw!r})")
            if not entails(it.facts, L(amount).add(dw, -1)):
                problems["C04-R4"].append(f"regenerate created energy: Δ(net worth) = {dw!r} can exceed the amount")
        elif kind == "convert":
            if differs(dw, Lin()):
                problems["C04-R4"].append(f"conversion changed net worth by {dw!r}")

    def drive(kind, cfgs):
        meth = p.find_method(store, {"consume": "consume", "regenerate": "regenerate", "convert": "convert_nadh_to_atp"}[kind])
        for cfg in cfgs:
            state, energy, allow_debt = cfg
            problems = {r: [] for r in ("C04-R1", "C04-R2", "C04-R3", "C04-R4", "C04-R5")}
            npaths = 0

            def go(o):
                it, st, s = mk(o, state)
                amount = Lin.sym("cost" if kind == "consume" else "amount")
                it.assume(amount)
                w0 = worth(st.fields)
                et = it.enum_member(ET, energy) if energy else None
                try:
                    if kind == "consume":
                        ret = it.call_fi(meth, [st, amount, "op", et, allow_debt, Unknown("priority", kind="int")], {})
                    elif kind == "regenerate":
                        ret = it.call_fi(meth, [st, amount, et], {})
                    else:
                        ret = it.call_fi(meth, [st, amount], {})
                    raised = None
                except PyRaise as e:
                    ret, raised = None, repr(e.exc)
                local = {r: [] for r in problems}
                check_exit(it, st, s, w0, kind, ret, raised, amount, energy, local)
                return local
            try:
                res_ = explore(go, max_paths=20000)
            except Imprecise as e:
                raise AnchorError(f"ATP_Store.{meth.name} could not be interpreted for {cfg}: {e}")
            for _, local in res_:
                npaths += 1
                for r, lst in local.items():
                    problems[r].extend(lst)
            label = f"ATP_Store.{meth.name} ▸ state={state}" + (f" currency={energy}" if energy else "") + (f" allow_debt={allow_debt}" if kind == "consume" else "")
            wit = {"C04-R4": "ATP_Store(budget=5, nadh_reserve=3, max_debt=100).consume(20, allow_debt=True) removes 23 from net worth (NADH top-up, then the deficit is computed from the stale balance)",
                   "C04-R5": "ATP_Store(budget=0, max_debt=10).consume(5, allow_debt=True) raises ZeroDivisionError in _update_state"}
            for r in problems:
                key = f"{label} ▸ {r}"
                if problems[r]:
                    uniq = sorted(set(problems[r]))
                    led.fail(r, key, where(meth, meth.node), f"{len(problems[r])} of {npaths} path(s): {uniq[0]}", path=uniq[:6], witness=wit.get(r))
                else:
                    led.ok(r, key, where(meth, meth.node), f"{npaths} symbolic path(s)")

    states = [n for n, _ in MS.enum_members()]
    energies = [n for n, _ in ET.enum_members()]
    quick_states = states if tier == "thorough" else ["NORMAL", "STARVING"]
    drive("consume", [(s_, e_, d_) for s_ in quick_states for e_ in energies for d_ in (False, True)])
    drive("regenerate", [(s_, e_, None) for s_ in (quick_states[:1]) for e_ in energies])
    drive("convert", [(quick_states[0], None, None)])

    # ---------------- transfer_to: both stores symbolic; a transfer never creates energy
    tr = p.find_method(store, "transfer_to")
    for energy, listener in [(e_, l_) for e_ in energies for l_ in (False, True)]:
        problems = {r: [] for r in ("C04-R1", "C04-R2", "C04-R3", "C04-R4", "C04-R5")}
        npaths = [0]

        def go_t(o):
            it, st, s = mk(o, "NORMAL")
            # the peer: a second symbolic store sharing the interpreter (its own symbols and invariant)
            peer = it.instantiate(store, [], dict(budget=0, gtp_budget=0, nadh_reserve=0, regeneration_rate=0.0, max_debt=0, on_state_change=None, silent=True))
            ps = {k: Lin.sym("peer_" + k) for k in SYMS}
            peer.fields.update(atp=ps["atp0"], gtp=ps["gtp0"], nadh=ps["nadh0"], max_atp=ps["max_atp"], max_gtp=ps["max_gtp"], max_nadh=ps["max_nadh"], max_debt=ps["max_debt"])
            peer.fields.update({DEBT: ps["debt0"], CONSUMED: ps["consumed0"], REGEN: ps["regen0"], STATE: it.enum_member(MS, "NORMAL")})
            for b_ in BAL:
                it.assume(ps[b_ + "0"])
                it.assume(ps["max_" + b_].add(ps[b_ + "0"], -1))
            it.assume(ps["debt0"])
            it.assume(ps["max_debt"].add(ps["debt0"], -1))
            amount = Lin.sym("amount")
            it.assume(amount)
            if listener:
                # both stores have a state-change listener that returns or raises (A3): whatever it does, and wherever in
                # the transfer it is called, no energy may have been created when transfer_to returns or raises
                for obj_ in (st, peer):
                    for fld in [k for k in obj_.fields if "state_change" in k or k == "on_state_change"]:
                        obj_.fields[fld] = Unknown("on_state_change")
            w0, pw0 = worth(st.fields), worth(peer.fields)
            local = {r: [] for r in problems}
            try:
                ret = it.call_fi(tr, [st, peer, amount, it.enum_member(ET, energy)], {})
            except PyRaise as e:
                if listener and "on_state_change" in repr(e.exc):
                    total = worth(st.fields).add(w0, -1).add(worth(peer.fields).add(pw0, -1))
                    if not entails(it.facts, total.scale(-1)):
                        local["C04-R4"].append(f"when a state-change listener raises during the transfer, energy has been created: Δ(sender) + Δ(receiver) = {total!r} is not provably ≤ 0")
                    return local
                local["C04-R5"].append(f"raises {e.exc!r}")
                return local
            for who, obj_, ss in (("sender", st, s), ("receiver", peer, ps)):
                f = obj_.fields
                for b_ in BAL:
                    v = L(f[b_])
                    if v is None or not entails(it.facts, v):
                        local["C04-R1"].append(f"{who}: {b_} = {f[b_]!r} is not provably ≥ 0")
                    if who == "receiver" and v is not None and not entails(it.facts, L(f["max_" + b_]).add(v, -1)):
                        local["C04-R3"].append(f"receiver: {b_} = {f[b_]!r} can exceed its capacity")
                d = L(f[DEBT])
                if d is None or not entails(it.facts, d) or not entails(it.facts, L(f["max_debt"]).add(d, -1)):
                    local["C04-R2"].append(f"{who}: debt = {f[DEBT]!r} not provably within [0, max_debt]")
            dself = worth(st.fields).add(w0, -1)
            dpeer = worth(peer.fields).add(pw0, -1)
            total = dself.add(dpeer)
            if not entails(it.facts, total.scale(-1)):
                local["C04-R4"].append(f"the transfer can create energy: Δ(sender) + Δ(receiver) = {total!r} is not provably ≤ 0")
            if ret is False and (dself != Lin() or dpeer != Lin()):
                local["C04-R4"].append(f"a failed transfer changed the stores (Δ sender {dself!r}, Δ receiver {dpeer!r})")
            if ret is True and not entails(it.facts, dself.scale(-1)):
                local["C04-R4"].append(f"a transfer increases the sender's net worth (Δ = {dself!r})")
            return local
        for _, local in explore(go_t, max_paths=20000):
            npaths[0] += 1
            for r, lst in local.items():
                problems[r].extend(lst)
        for r in problems:
            key = f"ATP_Store.transfer_to ▸ currency={energy}{' ▸ with state-change listeners that may raise' if listener else ''} ▸ {r}"
            if problems[r]:
                led.fail(r, key, where(tr, tr.node), f"{len(problems[r])} of {npaths[0]} path(s): {sorted(set(problems[r]))[0]}",
                         witness="transfer ATP into a store that is in debt: the debt is paid *and* the same energy is handed back to the sender" if r == "C04-R4" else None)
            else:
                led.ok(r, key, where(tr, tr.node), f"{npaths[0]} symbolic path(s) over two symbolic stores")

    # ---------------- R6 constructor establishes the invariant
    def go_c(o):
        it = LinInterp(p, o)
        b, g, n, md = Lin.sym("budget"), Lin.sym("gtp_budget"), Lin.sym("nadh_reserve"), Lin.sym("max_debt")
        for x in (b, g, n, md):
            it.assume(x)
        st = it.instantiate(store, [], dict(budget=b, gtp_budget=g, nadh_reserve=n, regeneration_rate=0.0, max_debt=md, silent=True))
        f = st.fields
        probs = []
        for bal in BAL:
            if not entails(it.facts, L(f[bal])) or not entails(it.facts, L(f["max_" + bal]).add(L(f[bal]), -1)):
                probs.append(f"{bal} not within [0, max_{bal}] after construction")
        if L(f[DEBT]) != Lin():
            probs.append("debt not 0 after construction")
        return probs
    probs = [x for _, r in explore(go_c) for x in r]
    init = store.methods["__init__"]
    if probs:
        led.fail("C04-R6", "ATP_Store.__init__ ▸ invariant", where(init, init.node), probs[0])
    else:
        led.ok("C04-R6", "ATP_Store.__init__ ▸ invariant", where(init, init.node), "balances = capacities ≥ 0, debt = 0 for all non-negative arguments")
    # reset re-establishes it
    rs = p.find_method(store, "reset")

    def go_r(o):
        it, st, s = mk(o, "NORMAL")
        try:
            it.call_fi(rs, [st], {})
        except PyRaise as e:
            return [f"reset raises {e.exc!r}"]
        f = st.fields
        out = []
        for bal in BAL:
            if L(f[bal]) != L(f["max_" + bal]):
                out.append(f"reset leaves {bal} = {f[bal]!r}")
        if L(f[DEBT]) != Lin():
            out.append("reset leaves debt")
        return out
    probs = [x for _, r in explore(go_r, max_paths=2000) for x in r]
    if probs:
        led.fail("C04-R5" if "raises" in probs[0] else "C04-R6", "ATP_Store.reset ▸ re-establishes the initial state", where(rs, rs.node), probs[0])
    else:
        led.ok("C04-R6", "ATP_Store.reset ▸ re-establishes the initial state", where(rs, rs.node), "balances = capacities, debt = 0, no raise")
