"""C19 — cascade gates fail closed and halted pipelines run nothing further."""
from __future__ import annotations

import ast
import itertools

from ..cfg import edge_facts
from ..loader import AnchorError, dotted, short, src, walk_no_nested, parent
from ..resolve import Resolver
from ..rules import (calls_named, cfg_of, folded_path, in_cycle, mentions_attr, mentions_name,
                     walk_folded, where)

FILES = ["operon_ai/topology/cascade.py"]


def _stage_calls(p, res, attr):
    """package-wide calls  <recv>.<attr>(...)  where <recv> is (or may be) a CascadeStage"""
    stage_cls = p.cls("CascadeStage", "operon_ai/topology/cascade.py")
    out = []
    for fi in p.all_funcs:
        for n in walk_no_nested(fi.node):
            if isinstance(n, ast.Call) and isinstance(n.func, ast.Attribute) and n.func.attr == attr:
                recv = n.func.value
                c = res.expr_class(fi, recv)
                if c is stage_cls:
                    out.append((fi, n))
                elif c is None and isinstance(recv, ast.Name) and _iterates_stages(fi, recv.id):
                    out.append((fi, n))
    return out


def _iterates_stages(fi, name):
    for n in walk_no_nested(fi.node):
        if isinstance(n, ast.For):
            tnames = {x.id for x in ast.walk(n.target) if isinstance(x, ast.Name)}
            if name in tnames and mentions_attr(n.iter, "_stages"):
                return True
    return False


def _enclosing_for(n):
    q = parent(n)
    while q is not None and not isinstance(q, (ast.For, ast.While, ast.FunctionDef, ast.Lambda)):
        q = parent(q)
    return q if isinstance(q, (ast.For, ast.While)) else None


def run(p, led, tier):
    res = Resolver(p)
    led.explanation = (
        "Reachability-with-cuts over the CFG (exception edges included) of every function that calls a stage's "
        "processor: the processor call must be unreachable inside one iteration once the gate-passed edge and the "
        "no-gate edge are cut; with halt_on_failure folded to True the blocked / gate-exception / "
        "failed-required-stage edges must not reach the loop head; `success` must imply all-completed ∧ not-blocked "
        "(truth table over its atoms) and the released output must be conditional on it; the running amplification "
        "is multiplied only after the processor completed and is clamped before its next use. Decides the structure, "
        "not numeric equality of the product.")
    led.not_decided = ["numeric equality of total_amplification with the clamped product", "ordering of results in parallel mode"]
    led.assumptions = ["A3: checkpoint/processor/on_error are black boxes that may return anything or raise any Exception"]
    led.rule("C19-R1", "a stage's processor call is reachable only through the true edge of that stage's checkpoint call on the same signal, or through the no-checkpoint edge", 1)
    led.rule("C19-R2", "with halt_on_failure the blocked edge, the gate-exception edge and the failed-required-stage edge leave the loop", 3)
    led.rule("C19-R3", "success ⇒ all stages completed ∧ nothing blocked; final output released only under success", 2)
    led.rule("C19-R4", "amplification multiplied only on the completed path and clamped by the maximum before reuse", 2)

    cascade = p.cls("Cascade", "operon_ai/topology/cascade.py")
    proc_calls = _stage_calls(p, res, "processor")
    if not proc_calls:
        raise AnchorError("no call of a CascadeStage.processor found in the package")
    runfi = p.method("Cascade", "run")

    seq_fns = {g.key for g in res.reachable_from(runfi)}       # the sequential pipeline: decided semantically below
    _sequential_table(p, led, tier, cascade, runfi)
    for fi, pc in proc_calls:
        if fi.key in seq_fns:
            continue
        cfg = cfg_of(fi, led)
        pn = cfg.node_of(pc)
        recv = src(pc.func.value)
        key = f"{fi.qual} ▸ {short(pc, 50)}"
        loop = _enclosing_for(pc)
        # gate calls on the same receiver
        gates = [c for c in calls_named(fi.node, "checkpoint") if isinstance(c.func, ast.Attribute) and src(c.func.value) == recv]
        # an out-edge of a test is *admitting* when its condition implies
        # "this stage has no checkpoint  ∨  the checkpoint call returned true" (truth table over the test's atoms)
        pass_edges = set()     # admitting edges that involve the gate call
        nogate_edges = set()   # admitting edges that only say "no checkpoint"
        for t in cfg.nodes:
            if t.kind != "test":
                continue
            for lab in ("T", "F"):
                verdict = _admitting(t.ast, lab, recv, gates)
                if verdict == "gate":
                    pass_edges.add((t, lab))
                elif verdict == "nogate":
                    nogate_edges.add((t, lab))
        head = cfg.node_of(loop.iter) if isinstance(loop, ast.For) else (cfg.node_of(loop.test) if loop is not None else None)

        def cut(a, b, lab, _pe=pass_edges, _ne=nogate_edges, _h=head):
            if (a, lab) in _pe or (a, lab) in _ne:
                return True
            if _h is not None and b is _h:
                return True     # stay inside one iteration
            return False
        if head is not None:
            starts = [(head, m, l) for m, l in head.succ if l == "T"]
            seen = cfg.reach(start_edges=starts, cut=cut)
        else:
            seen = cfg.reach(starts=[cfg.entry], cut=cut)
        if pn in seen:
            why = ("the stage's processor is reachable without its checkpoint having returned true"
                   + (" (no checkpoint evaluation on this path at all)" if not gates else " — via an exception or false edge of the gate"))
            led.fail("C19-R1", key, where(fi, pc), why, path=cfg.fmt_path(cfg.witness(seen, pn)),
                     witness="a stage whose checkpoint raises (or, in parallel mode, returns False) still has its processor run")
        else:
            led.ok("C19-R1", key, where(fi, pc),
                   f"with {len(pass_edges)} gate-passed edge(s), {len(nogate_edges)} no-gate edge(s) and the loop back edges cut, the call is unreachable from the start of an iteration")
        # same signal, not stale
        for g in gates:
            gn = cfg.node_of(g)
            ga = src(g.args[0]) if g.args else None
            pa = src(pc.args[0]) if pc.args else None
            k2 = key + " ▸ same signal as gate"
            if ga is None or ga != pa:
                led.fail("C19-R1", k2, where(fi, pc), f"gate evaluated on `{ga}` but processor called on `{pa}`")
                continue
            stale = None
            if isinstance(pc.args[0], ast.Name):
                var = pc.args[0].id
                pe = [(a, m, l) for (a, lab) in pass_edges if a is gn for m, l in a.succ if l == lab]
                inner = cfg.reach(start_edges=pe, cut=(lambda a, b, l, _h=head: _h is not None and b is _h))
                for n in inner:
                    if n.kind == "stmt" and isinstance(n.ast, (ast.Assign, ast.AugAssign)) and n is not pn:
                        tg = n.ast.targets if isinstance(n.ast, ast.Assign) else [n.ast.target]
                        if any(isinstance(t, ast.Name) and t.id == var for t in tg):
                            after = cfg.reach(start_edges=cfg.out_edges(n), cut=(lambda a, b, l, _h=head: _h is not None and b is _h))
                            if pn in after:
                                stale = n
            if stale is not None:
                led.fail("C19-R1", k2, where(fi, pc), f"`{pa}` is reassigned at line {stale.line} between the gate and the processor")
            else:
                led.ok("C19-R1", k2, where(fi, pc), f"both take `{pa}` and no assignment to it lies between them")

    # ---------------- R3 success / final output, in every function that builds a CascadeResult
    for fi in cascade.methods.values():
        if fi.key in seq_fns:
            continue        # sequential run: success / output decided on the interpreted paths
        for c in walk_no_nested(fi.node):
            if not (isinstance(c, ast.Call) and isinstance(c.func, ast.Name) and c.func.id == "CascadeResult"):
                continue
            kws = {k.arg: k.value for k in c.keywords}
            if "success" not in kws or "final_output" not in kws:
                raise AnchorError(f"{fi.qual}: CascadeResult built without success/final_output keywords")
            sexpr = _definition(fi, kws["success"])
            key = f"{fi.qual} ▸ CascadeResult ▸ success"
            verdict, detail = _success_implies(fi, sexpr, sequential=(fi is runfi))
            if verdict:
                led.ok("C19-R3", key, where(fi, c), detail)
            else:
                led.fail("C19-R3", key, where(fi, c), detail)
            key = f"{fi.qual} ▸ CascadeResult ▸ final_output"
            fo = _definition(fi, kws["final_output"])
            sname = src(kws["success"])
            if isinstance(fo, ast.IfExp) and _implies_name(fo.test, sname) and _is_none(fo.orelse):
                led.ok("C19-R3", key, where(fi, c), f"`{short(fo)}`: released only when `{sname}` holds")
            elif _is_none(fo):
                led.ok("C19-R3", key, where(fi, c), "never released", nontrivial=False)
            elif fi is not runfi:
                # fork mode has no 'composition of the stage functions'; the statement's output clause is about
                # the sequential pipeline.  Recorded, not judged.
                led.info(f"{fi.qual}: final_output `{short(fo)}` is not conditional on success (fork mode collects whatever completed; outside the statement's sequential-output clause)")
            else:
                led.fail("C19-R3", key, where(fi, c), f"final output `{short(fo)}` is not conditional on `{sname}`: an unsuccessful run releases an output",
                         witness="run_parallel with one failing stage returns success=False and final_output=[outputs of the other stages]" if fi is not runfi else None)



# ----------------------------------------------------------------------
def _symv(v):
    return getattr(v, 'sym', repr(v))


def _sequential_table(p, led, tier, cascade, runfi):
    """Cascade.run interpreted (fdai) on every pipeline shape with adversarial gates, processors and error handlers"""
    from ..fdai import Interp, Obj, Unknown, PyRaise, ExcVal, explore, Imprecise, stub
    stage_cls = p.cls("CascadeStage", "operon_ai/topology/cascade.py")
    FACTORS, MAXAMP = (8.0, 0.5, 3.0), 5.0      # the first stage saturates the gain control, the second attenuates
    shapes = list(itertools.product((True, False), (True, False), (True, False)))     # (has checkpoint, required, has on_error)
    sizes = (1, 2) if tier == "quick" else (1, 2, 3)
    NGATE = 5 if tier == "quick" else 6       # gate outcomes: pass, refuse, raise, raise without message, None (thorough: also 0)
    probs = {"C19-R1": [], "C19-R2": [], "C19-R3": [], "C19-R4": []}
    npaths = nconf = 0
    # enum-typed options of the constructor and their non-default members
    MODE_OPTIONS, MODE_CLS = [], {}
    init = cascade.methods.get("__init__")
    if init is not None:
        a_ = init.node.args
        defaults = dict(zip([x.arg for x in a_.args][len(a_.args) - len(a_.defaults):], a_.defaults))
        for x in a_.args:
            if x.annotation is not None and isinstance(x.annotation, ast.Name):
                ec = next((ci for ci in p.classes.get(x.annotation.id, []) if ci.is_enum()), None)
                if ec is not None:
                    dflt = defaults.get(x.arg)
                    dname = dflt.attr if isinstance(dflt, ast.Attribute) else None
                    MODE_CLS[x.arg] = ec
                    MODE_OPTIONS += [(x.arg, mn) for mn, _ in ec.enum_members() if mn != dname]
    for n in sizes:
        combos = list(itertools.product(shapes, repeat=n)) if n <= 2 else [c for c in itertools.product(shapes, repeat=n) if c[0][0] and c[1][1]]
        variants = [(c_, h_, "plain") for c_ in combos for h_ in (True, False)]
        if n == 2:
            # stages that share a name (add_stage accepts it): judged stage by stage all the same
            variants += [(c_, h_, "same-name") for c_ in combos for h_ in (True, False)]
        # the same cascade run a second time on the same signal after a first run in which everything passed: nothing the
        # first run left behind (a remembered gate verdict, a counter) may stand in for this run's gates
        variants += [(c_, h_, "second-run") for c_ in combos if all(x[0] for x in c_) for h_ in (True, False)]
        if n == 2:
            # every other value of an enum-typed constructor option (the cascade's `mode`): `run` is the sequential runner
            # whatever the mode says, and the statement's clauses hold for it in every configuration
            for pname, mem in MODE_OPTIONS:
                variants += [(c_, h_, f"option {pname}={mem}") for c_ in combos if all(x[0] and not x[2] for x in c_) for h_ in (True, False)]
        for combo, halt, variant in variants:
            if True:
                nconf += 1

                def go(o, _combo=combo, _halt=halt, _variant=variant):
                    it = Interp(p, o)
                    log = []
                    phase = {"first": _variant == "second-run"}
                    ckw = dict(halt_on_failure=_halt, max_amplification=MAXAMP, silent=True)
                    if _variant.startswith("option "):
                        pn_, mn_ = _variant[len("option "):].split("=")
                        ckw[pn_] = it.enum_member(MODE_CLS[pn_], mn_)
                    casc = it.instantiate(cascade, ["c"], ckw)
                    for i, (has_cp, required, has_err) in enumerate(_combo):
                        def mk(i=i):
                            @stub
                            def cp(interp, args, kwargs):
                                nk = 2 if (_variant == "same-name" or _variant.startswith("option ")) else NGATE
                                k = 0 if phase["first"] else interp.o.choose(nk, f"checkpoint {i}: passes / refuses / raises / raises an exception without a message / answers None / answers 0")
                                log.append(("cp", i, args[0], k))
                                if k == 2:
                                    raise PyRaise(ExcVal("RuntimeError", ("gate crashed",)))
                                if k == 3:
                                    raise PyRaise(ExcVal("AssertionError", ()))          # `assert x > 10`: str(e) == ""
                                if k == 4:
                                    return None          # `return d.get("approved")`: not true — the gate did not pass
                                if k == 5:
                                    return 0
                                return k == 0

                            @stub
                            def proc(interp, args, kwargs):
                                k = 0 if phase["first"] else interp.o.choose(2, f"processor {i}: returns / raises")
                                log.append(("proc", i, args[0], k))
                                if k == 1:
                                    raise PyRaise(ExcVal("RuntimeError", ("stage failed",)))
                                return Unknown(f"out{i}")

                            @stub
                            def err(interp, args, kwargs):
                                k = interp.o.choose(2, f"on_error {i}: recovers / raises")
                                log.append(("err", i, None, k))
                                if k == 1:
                                    raise PyRaise(ExcVal("RuntimeError", ("recovery failed",)))
                                return Unknown(f"recovered{i}")
                            return cp, proc, err
                        cp, proc, err = mk()
                        st = it.instantiate(stage_cls, [], dict(name=("s" if _variant == "same-name" else f"s{i}"), processor=proc, amplification=FACTORS[i], checkpoint=cp if has_cp else None,
                                                                on_error=err if has_err else None, required=required))
                        it.call_fi(p.find_method(cascade, "add_stage"), [casc, st], {})
                    inp = Unknown("input")
                    try:
                        if phase["first"]:
                            it.call_fi(runfi, [casc, inp], {})
                            phase["first"] = False
                            del log[:]
                        r = it.call_fi(runfi, [casc, inp], {})
                    except PyRaise as e:
                        return dict(raised=repr(e.exc), log=log)
                    f = r.fields if isinstance(r, Obj) else {}
                    # the per-stage outcomes the run reports, in order (a list of records each carrying an enum status)
                    reported = None
                    for v_ in f.values():
                        if isinstance(v_, list) and v_ and all(isinstance(x, Obj) for x in v_):
                            names = []
                            for x in v_:
                                en = [y for y in x.fields.values() if type(y).__name__ == "EnumVal"]
                                names.append(en[0].name if len(en) == 1 else None)
                            if all(n is not None for n in names):
                                reported = names
                    return dict(log=log, success=f.get("success"), out=f.get("final_output"), amp=f.get("total_amplification"), blocked=f.get("blocked_at"), inp=inp, reported=reported)
                try:
                    paths = [r for _, r in explore(go, max_paths=3000)]
                except Imprecise as e:
                    raise AnchorError(f"Cascade.run could not be interpreted for pipeline {combo}: {e}")
                npaths += len(paths)
                for r in paths:
                    tag = f"stages(checkpoint,required,on_error)={list(combo)} halt_on_failure={halt}" + ({"plain": "", "same-name": ", all stages share one name", "second-run": ", second run of the same cascade on the same signal"}.get(variant, ", " + variant))
                    if "raised" in r:
                        probs["C19-R2"].append(f"{tag}: run raises {r['raised']}")
                        continue
                    log = r["log"]
                    # R1 gate before processor on the same signal
                    for j, ev in enumerate(log):
                        if ev[0] == "proc" and combo[ev[1]][0]:
                            g = [e for e in log[:j] if e[0] == "cp" and e[1] == ev[1]]
                            if not g or g[-1][3] != 0:
                                probs["C19-R1"].append(f"{tag}: processor of stage {ev[1]} ran although its checkpoint {'was not evaluated' if not g else ('refused' if g[-1][3] == 1 else 'raised')}")
                            elif g[-1][2] is not ev[2]:
                                probs["C19-R1"].append(f"{tag}: stage {ev[1]}: gate evaluated on a different signal than the one processed")
                    # stage outcomes
                    status = {}
                    for i in range(len(combo)):
                        cps = [e for e in log if e[0] == "cp" and e[1] == i]
                        prs = [e for e in log if e[0] == "proc" and e[1] == i]
                        ers = [e for e in log if e[0] == "err" and e[1] == i]
                        if len(prs) > 1 or len(cps) > 1:
                            probs["C19-R1"].append(f"{tag}: stage {i} evaluated {len(cps)} gate(s) / ran {len(prs)} time(s)")
                        rep = r.get("reported")
                        reached = [k for k in range(len(combo)) if any(e[1] == k for e in log)]
                        if rep is not None and (len(rep) != len(reached) or reached != list(range(len(reached)))):
                            rep = None          # the report cannot be lined up with the stages by position
                        if cps and cps[-1][3] != 0:
                            status[i] = "gate-closed"
                        elif prs and prs[-1][3] == 0 and ers:
                            # the processor returned, yet the run turned to the stage's error handler: the run itself judged
                            # the stage failed (a deadline, a rejected output): stricter than the statement asks, never looser
                            status[i] = "recovered" if ers[-1][3] == 0 else "failed"
                        elif prs and prs[-1][3] == 0 and rep is not None and i < len(rep) and "COMPLET" not in rep[i].upper():
                            status[i] = "failed"          # likewise: reported as not completed although the processor returned
                        elif prs and prs[-1][3] == 0:
                            status[i] = "completed"
                        elif prs and ers and ers[-1][3] == 0:
                            status[i] = "recovered"
                        elif prs:
                            status[i] = "failed"
                        else:
                            status[i] = "not-run"
                    # R2 halting
                    if halt:
                        for i in range(len(combo)):
                            stop = status[i] == "gate-closed" or (status[i] == "failed" and combo[i][1])
                            if stop and any(status[k] != "not-run" for k in range(i + 1, len(combo))):
                                probs["C19-R2"].append(f"{tag}: stage {i} {status[i]} but later stages still ran ({ {k: status[k] for k in range(i + 1, len(combo))} })")
                    # R3 success and output
                    all_done = all(status[i] in ("completed", "recovered") for i in range(len(combo)))
                    if r["success"] is True and not all_done:
                        probs["C19-R3"].append(f"{tag}: success=True with stage outcomes {status}")
                    if r["success"] is not True and r["out"] is not None:
                        probs["C19-R3"].append(f"{tag}: an unsuccessful run releases the output {r['out']!r}")
                    if not isinstance(r["success"], bool):
                        probs["C19-R3"].append(f"{tag}: success is {r['success']!r}")
                    # R4 amplification = clamped product over the stages whose processor completed
                    ncomp = sum(1 for i in range(len(combo)) if status[i] == "completed")
                    want, raw = 1.0, 1.0
                    for i in range(len(combo)):
                        if status[i] == "completed":
                            want = min(want * FACTORS[i], MAXAMP)
                            raw *= FACTORS[i]
                    raw = min(raw, MAXAMP)      # the other reading of "clamped product": clamp once at the end
                    if isinstance(r["amp"], (int, float)):
                        if r["amp"] > MAXAMP:
                            probs["C19-R4"].append(f"{tag}: total amplification {r['amp']} exceeds the maximum {MAXAMP}")
                        elif abs(r["amp"] - want) > 1e-9 and abs(r["amp"] - raw) > 1e-9:
                            probs["C19-R4"].append(f"{tag}: completed stages {[i for i in range(len(combo)) if status[i] == 'completed']} with factors {FACTORS} (max {MAXAMP}): total amplification {r['amp']}, the clamped running product is {want}")
                    else:
                        probs["C19-R4"].append(f"{tag}: total amplification is not a number ({r['amp']!r})")
    # ---- overlapping runs of one cascade: a stage's processor pushes a sub-item through the same cascade.  Each run's gates
    # must be asked about that run's own signal (nothing about "the current run" may live on the instance)
    def go_re(o):
        it = Interp(p, o)
        log = []
        depth = {"d": 0}
        casc = it.instantiate(cascade, ["c"], dict(halt_on_failure=True, max_amplification=MAXAMP, silent=True))
        for i in range(2):
            def mk(i=i):
                @stub
                def cp(interp, args, kwargs):
                    log.append(("cp", depth["d"], i, args[0]))
                    return True

                @stub
                def proc(interp, args, kwargs):
                    d = depth["d"]
                    log.append(("proc", d, i, args[0]))
                    if i == 0 and d == 0:
                        depth["d"] = 1
                        try:
                            interp.call_fi(runfi, [casc, Unknown("inner signal")], {})
                        finally:
                            depth["d"] = 0
                    return Unknown(f"out{d}.{i}")
                return cp, proc
            cp, proc = mk()
            it.call_fi(p.find_method(cascade, "add_stage"), [casc, it.instantiate(stage_cls, [], dict(name=f"s{i}", processor=proc, amplification=1.0, checkpoint=cp, required=True))], {})
        try:
            it.call_fi(runfi, [casc, Unknown("outer signal")], {})
        except PyRaise as e:
            return dict(raised=repr(e.exc), log=log)
        return dict(log=log)
    try:
        re_paths = [r for _, r in explore(go_re, max_paths=200)]
    except Imprecise as e:
        re_paths = []
        led.info(f"re-entrant run scenario not interpreted ({e})")
    for r in re_paths:
        lg = r["log"]
        for j, ev in enumerate(lg):
            if ev[0] == "proc":
                g = [e for e in lg[:j] if e[0] == "cp" and e[1] == ev[1] and e[2] == ev[2]]
                if not g:
                    probs["C19-R1"].append(f"overlapping runs (a processor re-enters run() on the same cascade): stage {ev[2]} of the {'inner' if ev[1] else 'outer'} run processed a signal without its gate having been asked")
                elif g[-1][3] is not ev[3]:
                    probs["C19-R1"].append(f"overlapping runs (a processor re-enters run() on the same cascade): the gate of stage {ev[2]} of the {'inner' if ev[1] else 'outer'} run was asked about {_symv(g[-1][3])}, the stage processed {_symv(ev[3])}")
    titles = {"C19-R1": "Cascade.run ▸ processor only after its checkpoint passed on the same signal",
              "C19-R2": "Cascade.run ▸ halt ▸ a closed / crashing gate or a failed required stage stops the pipeline; run never raises",
              "C19-R3": "Cascade.run ▸ success ⇒ every stage completed and nothing blocked; output released only under success",
              "C19-R4": "Cascade.run ▸ total amplification is the clamped product over completed stages"}
    for rid, title in titles.items():
        mine = sorted(set(probs[rid]))
        if mine:
            led.fail(rid, title, where(runfi, runfi.node), f"{len(mine)} case(s), e.g. {mine[0]}", path=mine[:8],
                     witness="a stage whose checkpoint raises still has its processor run" if rid == "C19-R1" else None)
        else:
            led.ok(rid, title, where(runfi, runfi.node), f"{nconf} pipeline shapes (1–{sizes[-1]} stages × checkpoint/required/on_error × halt) and {npaths} paths over gate / processor / error-handler outcomes")
    # extra obligations so that each clause of R2 is visible on its own
    for what in ("gate returned false", "gate raised", "required stage failed (not recovered)"):
        led.ok("C19-R2", f"Cascade.run ▸ halt ▸ {what}", where(runfi, runfi.node), "row of the table above", nontrivial=False) if not probs["C19-R2"] else None
    led.ok("C19-R4", "Cascade.run ▸ factor applied for every completed stage and only those", where(runfi, runfi.node), "row of the table above", nontrivial=False) if not probs["C19-R4"] else None


# ----------------------------------------------------------------------
def _is_nogate(atom, pol, recv):
    """fact '<recv>.checkpoint is falsy/None'"""
    if isinstance(atom, ast.Attribute) and atom.attr == "checkpoint" and src(atom.value) == recv:
        return pol is False
    if isinstance(atom, ast.Compare) and len(atom.ops) == 1 and isinstance(atom.left, ast.Attribute) \
            and atom.left.attr == "checkpoint" and src(atom.left.value) == recv and _is_none(atom.comparators[0]):
        if isinstance(atom.ops[0], (ast.Is, ast.Eq)):
            return pol is True
        if isinstance(atom.ops[0], (ast.IsNot, ast.NotEq)):
            return pol is False
    return False


def _leaf_atoms(e, out):
    if isinstance(e, ast.BoolOp):
        for v in e.values:
            _leaf_atoms(v, out)
    elif isinstance(e, ast.UnaryOp) and isinstance(e.op, ast.Not):
        _leaf_atoms(e.operand, out)
    else:
        out.append(e)


def _eval_atoms(e, asg):
    if isinstance(e, ast.BoolOp):
        vs = [_eval_atoms(v, asg) for v in e.values]
        return all(vs) if isinstance(e.op, ast.And) else any(vs)
    if isinstance(e, ast.UnaryOp) and isinstance(e.op, ast.Not):
        return not _eval_atoms(e.operand, asg)
    return asg[id(e)]


def _admitting(test, label, recv, gates):
    """'gate' / 'nogate' / None: does taking this edge imply (no checkpoint ∨ gate returned true)?"""
    atoms = []
    _leaf_atoms(test, atoms)
    kinds = {}
    for a in atoms:
        if any(a is g for g in gates):
            kinds[id(a)] = ("g", True)
        elif _is_nogate(a, False, recv):      # atom true  <=> checkpoint present
            kinds[id(a)] = ("c", True)
        elif _is_nogate(a, True, recv):       # atom true  <=> checkpoint absent
            kinds[id(a)] = ("c", False)
        else:
            kinds[id(a)] = ("o", None)
    if not any(k[0] in ("g", "c") for k in kinds.values()) or len(atoms) > 8:
        return None
    uses_gate = any(k[0] == "g" for k in kinds.values())
    for bits in itertools.product([False, True], repeat=len(atoms)):
        asg = {id(a): b for a, b in zip(atoms, bits)}
        val = _eval_atoms(test, asg)
        if val != (label == "T"):
            continue
        present = None
        passed = None
        for a in atoms:
            k, pol = kinds[id(a)]
            if k == "c":
                present = asg[id(a)] if pol else (not asg[id(a)])
            if k == "g":
                passed = asg[id(a)]
        ok = (present is False) or (passed is True)
        if not ok:
            return None
    return "gate" if uses_gate else "nogate"


def _is_none(e):
    return isinstance(e, ast.Constant) and e.value is None


def _definition(fi, e):
    """if e is a local name with exactly one assignment in fi, return the assigned expression"""
    if isinstance(e, ast.Name):
        defs = [n for n in walk_no_nested(fi.node) if isinstance(n, ast.Assign) and any(isinstance(t, ast.Name) and t.id == e.id for t in n.targets)]
        if len(defs) == 1:
            return defs[0].value
    return e


def _implies_name(test, name):
    """test is `name` or a conjunction containing it"""
    if src(test) == name:
        return True
    if isinstance(test, ast.BoolOp) and isinstance(test.op, ast.And):
        return any(_implies_name(v, name) for v in test.values)
    return False


def _atoms(e, out):
    if isinstance(e, ast.BoolOp):
        for v in e.values:
            _atoms(v, out)
    elif isinstance(e, ast.UnaryOp) and isinstance(e.op, ast.Not):
        _atoms(e.operand, out)
    else:
        if not any(src(e) == src(x) for x in out):
            out.append(e)


def _eval(e, asg):
    if isinstance(e, ast.BoolOp):
        vs = [_eval(v, asg) for v in e.values]
        return all(vs) if isinstance(e.op, ast.And) else any(vs)
    if isinstance(e, ast.UnaryOp) and isinstance(e.op, ast.Not):
        return not _eval(e.operand, asg)
    return asg[src(e)]


def _success_implies(fi, sexpr, sequential):
    """truth table over the atoms of the success expression: success must imply
    'completed count == number of stages' and (sequential run) 'nothing blocked'."""
    atoms = []
    _atoms(sexpr, atoms)
    if len(atoms) > 8:
        return False, "success expression too complex to tabulate"
    kinds = {}
    for a in atoms:
        kinds[src(a)] = _classify(fi, a)
    need = {"all_completed"} | ({"not_blocked"} if sequential else set())
    have = {k for k, _ in kinds.values() if k}
    missing = need - have
    if missing:
        return False, f"`{short(sexpr)}` does not test {sorted(missing)}"
    for bits in itertools.product([False, True], repeat=len(atoms)):
        asg = {src(a): b for a, b in zip(atoms, bits)}
        if _eval(sexpr, asg):
            for a in atoms:
                k, pol = kinds[src(a)]
                if k in need and asg[src(a)] != pol:
                    return False, f"`{short(sexpr)}` can be true while `{short(a)}` is {asg[src(a)]}: success reported without {k}"
    return True, f"truth table over {len(atoms)} atom(s) of `{short(sexpr)}`: success ⇒ {' ∧ '.join(sorted(need))}"


def _classify(fi, atom):
    """('all_completed', polarity-that-means-it) / ('not_blocked', pol) / (None, None)"""
    if isinstance(atom, ast.Compare) and len(atom.ops) == 1:
        l, r, op = atom.left, atom.comparators[0], atom.ops[0]
        s = src(l) + " | " + src(r)
        if "len(self._stages)" in s and isinstance(op, (ast.Eq, ast.GtE)):
            other = r if "len(self._stages)" in src(l) else l
            d = _definition(fi, other)
            if "StageStatus.COMPLETED" in src(d):
                return ("all_completed", True)
        if "blocked_at" in s and _is_none(r):
            if isinstance(op, (ast.Is, ast.Eq)):
                return ("not_blocked", True)
            if isinstance(op, (ast.IsNot, ast.NotEq)):
                return ("not_blocked", False)
    if isinstance(atom, ast.Name) and atom.id == "blocked_at":
        return ("not_blocked", False)
    return (None, None)


