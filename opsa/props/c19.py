"""C19 — cascade gates fail closed and halted pipelines run nothing further."""
from __future__ import annotations

import ast
import itertools

from ..cfg import edge_facts
from ..loader import AnchorError, dotted, short, src, walk_no_nested, parent
from ..resolve import Resolver
from ..rules import (calls_named, cfg_of, folded_path, in_cycle, mentions_attr, mentions_name,
                     walk_folded, where)

FILES = ["operon_ai/topology/cascade.py"]


def _stage_calls(p, res, attr):
    """package-wide calls  <recv>.<attr>(...)  where <recv> is (or may be) a CascadeStage"""
    stage_cls = p.cls("CascadeStage", "operon_ai/topology/cascade.py")
    out = []
    for fi in p.all_funcs:
        for n in walk_no_nested(fi.node):
            if isinstance(n, ast.Call) and isinstance(n.func, ast.Attribute) and n.func.attr == attr:
                recv = n.func.value
                c = res.expr_class(fi, recv)
                if c is stage_cls:
                    out.append((fi, n))
                elif c is None and isinstance(recv, ast.Name) and _iterates_stages(fi, recv.id):
                    out.append((fi, n))
    return out


def _iterates_stages(fi, name):
    for n in walk_no_nested(fi.node):
        if isinstance(n, ast.For):
            tnames = {x.id for x in ast.walk(n.target) if isinstance(x, ast.Name)}
            if name in tnames and mentions_attr(n.iter, "_stages"):
                return True
    return False


def _enclosing_for(n):
    q = parent(n)
    while q is not None and not isinstance(q, (ast.For, ast.While, ast.FunctionDef, ast.Lambda)):
        q = parent(q)
    return q if isinstance(q, (ast.For, ast.While)) else None


def run(p, led, tier):
    res = Resolver(p)
    led.explanation = (
        "Reachability-with-cuts over the CFG (exception edges included) of every function that calls a stage's "
        "processor: the processor call must be unreachable inside one iteration once the gate-passed edge and the "
        "no-gate edge are cut; with halt_on_failure folded to True the blocked / gate-exception / "
        "failed-required-stage edges must not reach the loop head; `success` must imply all-completed ∧ not-blocked "
        "(truth table over its atoms) and the released output must be conditional on it; the running amplification "
        "is multiplied only after the processor completed and is clamped before its next use. Decides the structure, "
        "not numeric equality of the product.")
    led.not_decided = ["numeric equality of total_amplification with the clamped product", "ordering of results in parallel mode"]
    led.assumptions = ["A3: checkpoint/processor/on_error are black boxes that may return anything or raise any Exception"]
    led.rule("C19-R1", "a stage's processor call is reachable only through the true edge of that stage's checkpoint call on the same signal, or through the no-checkpoint edge", 1)
    led.rule("C19-R2", "with halt_on_failure the blocked edge, the gate-exception edge and the failed-required-stage edge leave the loop", 3)
    led.rule("C19-R3", "success ⇒ all stages completed ∧ nothing blocked; final output released only under success", 2)
    led.rule("C19-R4", "amplification multiplied only on the completed path and clamped by the maximum before reuse", 2)

    cascade = p.cls("Cascade", "operon_ai/topology/cascade.py")
    proc_calls = _stage_calls(p, res, "processor")
    if not proc_calls:
        raise AnchorError("no call of a CascadeStage.processor found in the package")
    runfi = p.method("Cascade", "run")

    for fi, pc in proc_calls:
        cfg = cfg_of(fi, led)
        pn = cfg.node_of(pc)
        recv = src(pc.func.value)
        key = f"{fi.qual} ▸ {short(pc, 50)}"
        loop = _enclosing_for(pc)
        # gate calls on the same receiver
        gates = [c for c in calls_named(fi.node, "checkpoint") if isinstance(c.func, ast.Attribute) and src(c.func.value) == recv]
        # an out-edge of a test is *admitting* when its condition implies
        # "this stage has no checkpoint  ∨  the checkpoint call returned true" (truth table over the test's atoms)
        pass_edges = set()     # admitting edges that involve the gate call
        nogate_edges = set()   # admitting edges that only say "no checkpoint"
        for t in cfg.nodes:
            if t.kind != "test":
                continue
            for lab in ("T", "F"):
                verdict = _admitting(t.ast, lab, recv, gates)
                if verdict == "gate":
                    pass_edges.add((t, lab))
                elif verdict == "nogate":
                    nogate_edges.add((t, lab))
        head = cfg.node_of(loop.iter) if isinstance(loop, ast.For) else (cfg.node_of(loop.test) if loop is not None else None)

        def cut(a, b, lab, _pe=pass_edges, _ne=nogate_edges, _h=head):
            if (a, lab) in _pe or (a, lab) in _ne:
                return True
            if _h is not None and b is _h:
                return True     # stay inside one iteration
            return False
        if head is not None:
            starts = [(head, m, l) for m, l in head.succ if l == "T"]
            seen = cfg.reach(start_edges=starts, cut=cut)
        else:
            seen = cfg.reach(starts=[cfg.entry], cut=cut)
        if pn in seen:
            why = ("the stage's processor is reachable without its checkpoint having returned true"
                   + (" (no checkpoint evaluation on this path at all)" if not gates else " — via an exception or false edge of the gate"))
            led.fail("C19-R1", key, where(fi, pc), why, path=cfg.fmt_path(cfg.witness(seen, pn)),
                     witness="a stage whose checkpoint raises (or, in parallel mode, returns False) still has its processor run")
        else:
            led.ok("C19-R1", key, where(fi, pc),
                   f"with {len(pass_edges)} gate-passed edge(s), {len(nogate_edges)} no-gate edge(s) and the loop back edges cut, the call is unreachable from the start of an iteration")
        # same signal, not stale
        for g in gates:
            gn = cfg.node_of(g)
            ga = src(g.args[0]) if g.args else None
            pa = src(pc.args[0]) if pc.args else None
            k2 = key + " ▸ same signal as gate"
            if ga is None or ga != pa:
                led.fail("C19-R1", k2, where(fi, pc), f"gate evaluated on `{ga}` but processor called on `{pa}`")
                continue
            stale = None
            if isinstance(pc.args[0], ast.Name):
                var = pc.args[0].id
                pe = [(a, m, l) for (a, lab) in pass_edges if a is gn for m, l in a.succ if l == lab]
                inner = cfg.reach(start_edges=pe, cut=(lambda a, b, l, _h=head: _h is not None and b is _h))
                for n in inner:
                    if n.kind == "stmt" and isinstance(n.ast, (ast.Assign, ast.AugAssign)) and n is not pn:
                        tg = n.ast.targets if isinstance(n.ast, ast.Assign) else [n.ast.target]
                        if any(isinstance(t, ast.Name) and t.id == var for t in tg):
                            after = cfg.reach(start_edges=cfg.out_edges(n), cut=(lambda a, b, l, _h=head: _h is not None and b is _h))
                            if pn in after:
                                stale = n
            if stale is not None:
                led.fail("C19-R1", k2, where(fi, pc), f"`{pa}` is reassigned at line {stale.line} between the gate and the processor")
            else:
                led.ok("C19-R1", k2, where(fi, pc), f"both take `{pa}` and no assignment to it lies between them")

    # ---------------- R2 halting (Cascade.run)
    cfg = cfg_of(runfi, led)
    loops = [n for n in walk_no_nested(runfi.node) if isinstance(n, ast.For) and mentions_attr(n.iter, "_stages")]
    if len(loops) != 1:
        raise AnchorError(f"Cascade.run: expected one loop over the stages, found {len(loops)}")
    head = cfg.node_of(loops[0].iter)
    halt_attr = "self.halt_on_failure"
    if not any(mentions_attr(n.ast, "halt_on_failure") for n in cfg.nodes if n.kind == "test"):
        raise AnchorError("Cascade.run no longer tests halt_on_failure")
    run_proc = [(fi, c) for fi, c in proc_calls if fi is runfi]
    run_gates = [c for c in calls_named(runfi.node, "checkpoint")]
    completed_nodes = {n for n in cfg.nodes if n.ast is not None and n.kind == "stmt" and "StageStatus.COMPLETED" in src(n.ast)}
    for g in run_gates:
        gn = cfg.node_of(g)
        if gn.kind != "test":
            continue
        false_lab = [lab for lab in ("T", "F") for atom, pol in edge_facts(gn.ast, lab) if atom is g and pol is False]
        for kind, labs in (("gate returned false", false_lab), ("gate raised", ["exc"])):
            starts = [(gn, m, l) for m, l in gn.succ if l in labs]
            r = walk_folded(cfg, starts, {halt_attr: {True}})
            key = f"Cascade.run ▸ halt ▸ {kind}"
            bad = [n for n in [head] + [cfg.node_of(c) for _, c in run_proc] if n in r]
            if bad:
                led.fail("C19-R2", key, where(runfi, g), "with halt_on_failure=True control continues to " + ("the next stage" if bad[0] is head else "this stage's processor"),
                         path=cfg.fmt_path(folded_path(r, bad[0])))
            else:
                led.ok("C19-R2", key, where(runfi, g), "folding halt_on_failure=True: neither the loop head nor a processor call is reachable")
    for fi, pc in run_proc:
        pn = cfg.node_of(pc)
        starts = [(pn, m, l) for m, l in pn.succ if l == "exc"]
        # the stage variable: receiver of the processor call
        recv = src(pc.func.value)
        r = walk_folded(cfg, starts, {halt_attr: {True}, f"{recv}.required": {True}}, avoid=completed_nodes)
        key = "Cascade.run ▸ halt ▸ required stage failed (not recovered)"
        if head in r:
            led.fail("C19-R2", key, where(runfi, pc), "with halt_on_failure=True and a required stage failing without recovery, the loop continues", path=cfg.fmt_path(folded_path(r, head)))
        else:
            led.ok("C19-R2", key, where(runfi, pc), "folding halt_on_failure=True ∧ required=True and excluding recovered (COMPLETED) results: the loop head is unreachable from the processor's exception edge")

    # ---------------- R3 success / final output, in every function that builds a CascadeResult
    for fi in cascade.methods.values():
        for c in walk_no_nested(fi.node):
            if not (isinstance(c, ast.Call) and isinstance(c.func, ast.Name) and c.func.id == "CascadeResult"):
                continue
            kws = {k.arg: k.value for k in c.keywords}
            if "success" not in kws or "final_output" not in kws:
                raise AnchorError(f"{fi.qual}: CascadeResult built without success/final_output keywords")
            sexpr = _definition(fi, kws["success"])
            key = f"{fi.qual} ▸ CascadeResult ▸ success"
            verdict, detail = _success_implies(fi, sexpr, sequential=(fi is runfi))
            if verdict:
                led.ok("C19-R3", key, where(fi, c), detail)
            else:
                led.fail("C19-R3", key, where(fi, c), detail)
            key = f"{fi.qual} ▸ CascadeResult ▸ final_output"
            fo = _definition(fi, kws["final_output"])
            sname = src(kws["success"])
            if isinstance(fo, ast.IfExp) and _implies_name(fo.test, sname) and _is_none(fo.orelse):
                led.ok("C19-R3", key, where(fi, c), f"`{short(fo)}`: released only when `{sname}` holds")
            elif _is_none(fo):
                led.ok("C19-R3", key, where(fi, c), "never released", nontrivial=False)
            elif fi is not runfi:
                # fork mode has no 'composition of the stage functions'; the statement's output clause is about
                # the sequential pipeline.  Recorded, not judged.
                led.info(f"{fi.qual}: final_output `{short(fo)}` is not conditional on success (fork mode collects whatever completed; outside the statement's sequential-output clause)")
            else:
                led.fail("C19-R3", key, where(fi, c), f"final output `{short(fo)}` is not conditional on `{sname}`: an unsuccessful run releases an output",
                         witness="run_parallel with one failing stage returns success=False and final_output=[outputs of the other stages]" if fi is not runfi else None)

    # ---------------- R4 amplification shape (Cascade.run)
    res_calls = [c for c in walk_no_nested(runfi.node) if isinstance(c, ast.Call) and isinstance(c.func, ast.Name) and c.func.id == "CascadeResult"]
    amp = next((k.value for k in res_calls[0].keywords if k.arg == "total_amplification"), None) if res_calls else None
    if not isinstance(amp, ast.Name):
        raise AnchorError("Cascade.run: total_amplification is not a local variable")
    var = amp.id
    writes = [n for n in cfg.nodes if n.kind == "stmt" and isinstance(n.ast, (ast.Assign, ast.AugAssign))
              and any(isinstance(t, ast.Name) and t.id == var for t in (n.ast.targets if isinstance(n.ast, ast.Assign) else [n.ast.target]))]
    mults = [n for n in writes if isinstance(n.ast, ast.AugAssign) or (isinstance(n.ast, ast.Assign) and mentions_name(n.ast.value, var))]
    if not mults:
        raise AnchorError("Cascade.run: running amplification is never multiplied")
    pnodes = [cfg.node_of(c) for fi, c in run_proc]
    for m in mults:
        key = f"Cascade.run ▸ {short(m.ast)}"
        if not (isinstance(m.ast, ast.AugAssign) and isinstance(m.ast.op, ast.Mult)):
            if not (isinstance(m.ast, ast.Assign) and _is_clamp(m.ast.value, var)):
                led.fail("C19-R4", key, where(runfi, m.ast), "running amplification updated by something other than a product or a clamp")
                continue
            led.ok("C19-R4", key, where(runfi, m.ast), "clamp assignment", nontrivial=False)
            continue
        seen = cfg.reach(starts=[cfg.entry], cut=lambda a, b, l: a in pnodes and l != "exc")
        # must not be reachable without a processor having completed in this iteration
        seen_iter = cfg.reach(start_edges=[(head, x, l) for x, l in head.succ if l == "T"],
                              cut=lambda a, b, l: (a in pnodes and l != "exc") or b is head)
        if m in seen_iter:
            led.fail("C19-R4", key, where(runfi, m.ast), "factor multiplied on a path where the stage's processor did not complete", path=cfg.fmt_path(cfg.witness(seen_iter, m)))
        else:
            led.ok("C19-R4", key, where(runfi, m.ast), "reachable only after the processor call returned normally in the same iteration")
        # every stage whose processor completed contributes its factor: from the processor's normal edge no
        # normal path reaches the next stage without the multiplication
        for pn_ in pnodes:
            s_skip = cfg.reach(start_edges=[(pn_, x, l) for x, l in pn_.succ if l != "exc"], avoid={m}, cut=lambda a, b, l: l == "exc")
            key3 = key + " ▸ applied for every completed stage"
            if head in s_skip or cfg.exit in s_skip:
                led.fail("C19-R4", key3, where(runfi, m.ast), "a stage can complete without its factor entering the running amplification: the reported total is not the product over completed stages",
                         path=cfg.fmt_path(cfg.witness(s_skip, head if head in s_skip else cfg.exit)))
            else:
                led.ok("C19-R4", key3, where(runfi, m.ast), "every normal path from the completed processor call to the next stage passes the multiplication")
        # clamp before reuse: from m, every path to loop head / loop exit passes a clamp
        clamps = set()
        for t in cfg.nodes:
            if t.kind == "test" and isinstance(t.ast, ast.Compare) and mentions_name(t.ast, var) and mentions_attr(t.ast, "max_amplification"):
                # the T edge must assign var = max
                for x, l in t.succ:
                    if l == "T" and x.kind == "stmt" and isinstance(x.ast, ast.Assign) and mentions_attr(x.ast.value, "max_amplification") \
                            and any(isinstance(tt, ast.Name) and tt.id == var for tt in x.ast.targets) and isinstance(t.ast.ops[0], (ast.Gt, ast.GtE)):
                        clamps.add(t)
            if t.kind == "stmt" and isinstance(t.ast, ast.Assign) and _is_clamp(t.ast.value, var) and any(isinstance(tt, ast.Name) and tt.id == var for tt in t.ast.targets):
                clamps.add(t)
        key2 = key + " ▸ clamped"
        s2 = cfg.reach(start_edges=[(m, x, l) for x, l in m.succ if l != "exc"], avoid=clamps)
        esc = [n for n in s2 if n is head or (n.kind == "stmt" and n.ast is not None and any(c is res_calls[0] for c in ast.walk(n.ast)))]
        if esc:
            led.fail("C19-R4", key2, where(runfi, m.ast), "the product can reach the next stage / the result without passing the clamp against max_amplification", path=cfg.fmt_path(cfg.witness(s2, esc[0])))
        else:
            led.ok("C19-R4", key2, where(runfi, m.ast), f"every normal path from the multiplication passes the clamp ({len(clamps)} clamp site(s))")


# ----------------------------------------------------------------------
def _is_nogate(atom, pol, recv):
    """fact '<recv>.checkpoint is falsy/None'"""
    if isinstance(atom, ast.Attribute) and atom.attr == "checkpoint" and src(atom.value) == recv:
        return pol is False
    if isinstance(atom, ast.Compare) and len(atom.ops) == 1 and isinstance(atom.left, ast.Attribute) \
            and atom.left.attr == "checkpoint" and src(atom.left.value) == recv and _is_none(atom.comparators[0]):
        if isinstance(atom.ops[0], (ast.Is, ast.Eq)):
            return pol is True
        if isinstance(atom.ops[0], (ast.IsNot, ast.NotEq)):
            return pol is False
    return False


def _leaf_atoms(e, out):
    if isinstance(e, ast.BoolOp):
        for v in e.values:
            _leaf_atoms(v, out)
    elif isinstance(e, ast.UnaryOp) and isinstance(e.op, ast.Not):
        _leaf_atoms(e.operand, out)
    else:
        out.append(e)


def _eval_atoms(e, asg):
    if isinstance(e, ast.BoolOp):
        vs = [_eval_atoms(v, asg) for v in e.values]
        return all(vs) if isinstance(e.op, ast.And) else any(vs)
    if isinstance(e, ast.UnaryOp) and isinstance(e.op, ast.Not):
        return not _eval_atoms(e.operand, asg)
    return asg[id(e)]


def _admitting(test, label, recv, gates):
    """'gate' / 'nogate' / None: does taking this edge imply (no checkpoint ∨ gate returned true)?"""
    atoms = []
    _leaf_atoms(test, atoms)
    kinds = {}
    for a in atoms:
        if any(a is g for g in gates):
            kinds[id(a)] = ("g", True)
        elif _is_nogate(a, False, recv):      # atom true  <=> checkpoint present
            kinds[id(a)] = ("c", True)
        elif _is_nogate(a, True, recv):       # atom true  <=> checkpoint absent
            kinds[id(a)] = ("c", False)
        else:
            kinds[id(a)] = ("o", None)
    if not any(k[0] in ("g", "c") for k in kinds.values()) or len(atoms) > 8:
        return None
    uses_gate = any(k[0] == "g" for k in kinds.values())
    for bits in itertools.product([False, True], repeat=len(atoms)):
        asg = {id(a): b for a, b in zip(atoms, bits)}
        val = _eval_atoms(test, asg)
        if val != (label == "T"):
            continue
        present = None
        passed = None
        for a in atoms:
            k, pol = kinds[id(a)]
            if k == "c":
                present = asg[id(a)] if pol else (not asg[id(a)])
            if k == "g":
                passed = asg[id(a)]
        ok = (present is False) or (passed is True)
        if not ok:
            return None
    return "gate" if uses_gate else "nogate"


def _is_none(e):
    return isinstance(e, ast.Constant) and e.value is None


def _definition(fi, e):
    """if e is a local name with exactly one assignment in fi, return the assigned expression"""
    if isinstance(e, ast.Name):
        defs = [n for n in walk_no_nested(fi.node) if isinstance(n, ast.Assign) and any(isinstance(t, ast.Name) and t.id == e.id for t in n.targets)]
        if len(defs) == 1:
            return defs[0].value
    return e


def _implies_name(test, name):
    """test is `name` or a conjunction containing it"""
    if src(test) == name:
        return True
    if isinstance(test, ast.BoolOp) and isinstance(test.op, ast.And):
        return any(_implies_name(v, name) for v in test.values)
    return False


def _atoms(e, out):
    if isinstance(e, ast.BoolOp):
        for v in e.values:
            _atoms(v, out)
    elif isinstance(e, ast.UnaryOp) and isinstance(e.op, ast.Not):
        _atoms(e.operand, out)
    else:
        if not any(src(e) == src(x) for x in out):
            out.append(e)


def _eval(e, asg):
    if isinstance(e, ast.BoolOp):
        vs = [_eval(v, asg) for v in e.values]
        return all(vs) if isinstance(e.op, ast.And) else any(vs)
    if isinstance(e, ast.UnaryOp) and isinstance(e.op, ast.Not):
        return not _eval(e.operand, asg)
    return asg[src(e)]


def _success_implies(fi, sexpr, sequential):
    """truth table over the atoms of the success expression: success must imply
    'completed count == number of stages' and (sequential run) 'nothing blocked'."""
    atoms = []
    _atoms(sexpr, atoms)
    if len(atoms) > 8:
        return False, "success expression too complex to tabulate"
    kinds = {}
    for a in atoms:
        kinds[src(a)] = _classify(fi, a)
    need = {"all_completed"} | ({"not_blocked"} if sequential else set())
    have = {k for k, _ in kinds.values() if k}
    missing = need - have
    if missing:
        return False, f"`{short(sexpr)}` does not test {sorted(missing)}"
    for bits in itertools.product([False, True], repeat=len(atoms)):
        asg = {src(a): b for a, b in zip(atoms, bits)}
        if _eval(sexpr, asg):
            for a in atoms:
                k, pol = kinds[src(a)]
                if k in need and asg[src(a)] != pol:
                    return False, f"`{short(sexpr)}` can be true while `{short(a)}` is {asg[src(a)]}: success reported without {k}"
    return True, f"truth table over {len(atoms)} atom(s) of `{short(sexpr)}`: success ⇒ {' ∧ '.join(sorted(need))}"


def _classify(fi, atom):
    """('all_completed', polarity-that-means-it) / ('not_blocked', pol) / (None, None)"""
    if isinstance(atom, ast.Compare) and len(atom.ops) == 1:
        l, r, op = atom.left, atom.comparators[0], atom.ops[0]
        s = src(l) + " | " + src(r)
        if "len(self._stages)" in s and isinstance(op, (ast.Eq, ast.GtE)):
            other = r if "len(self._stages)" in src(l) else l
            d = _definition(fi, other)
            if "StageStatus.COMPLETED" in src(d):
                return ("all_completed", True)
        if "blocked_at" in s and _is_none(r):
            if isinstance(op, (ast.Is, ast.Eq)):
                return ("not_blocked", True)
            if isinstance(op, (ast.IsNot, ast.NotEq)):
                return ("not_blocked", False)
    if isinstance(atom, ast.Name) and atom.id == "blocked_at":
        return ("not_blocked", False)
    return (None, None)


def _is_clamp(e, var):
    return (isinstance(e, ast.Call) and isinstance(e.func, ast.Name) and e.func.id == "min"
            and any(mentions_name(a, var) for a in e.args) and any(mentions_attr(a, "max_amplification") for a in e.args))
