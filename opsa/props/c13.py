"""C13 — waste handling never hangs, stays bounded and accounts for every item."""
from __future__ import annotations

import ast

from ..cfg import edge_facts
from ..loader import AnchorError, is_self_attr, parent, short, src, walk_no_nested
from ..locks import LockAnalysis, held_at, regions
from ..resolve import Resolver
from ..rules import attr_writes, calls_named, cfg_of, dict_key_field, guard_facts, mentions_attr, where, in_cycle, datetime_awareness, d_is_now_factory

FILES = ["operon_ai/organelles/lysosome.py", "operon_ai/healing/autophagy_daemon.py"]
Q = "_queue"


def run(p, led, tier):
    res = Resolver(p)
    lys = p.cls("Lysosome", "operon_ai/organelles/lysosome.py")
    la = LockAnalysis(p, res, lys)
    led.explanation = (
        "R1 lock-region analysis (re-acquisition of the non-re-entrant lysosome lock through resolved same-instance "
        "callees). R2 lockset of the queue. R3–R6 conservation tables: ingest, digest(k), autophagy and "
        "ingest_sensitive+digest are abstractly interpreted (fdai) over all fill levels × capacities 2–4 × auto-digest "
        "on/off, queue sizes 0–3 × digest limits × equal/rising priorities, with an adversarial digester that returns "
        "an empty mapping, a mapping, or raises at every call: the queue never exceeds its capacity, every item that "
        "leaves it goes through its digester exactly once, none is both queued and processed, a failing digester is "
        "contained per item and recorded, disposed + errors = items taken, and a sensitive item reaches the toxic "
        "callback exactly once and is never recycled.")
    led.not_decided = ["counter exactness under bytecode-level races outside the lock", "autophagy's clock arithmetic", "user-supplied digesters for the toxic type"]
    led.assumptions = ["A3 digesters / on_toxic do not call back into the lysosome", "max_queue_size >= 2 (statement)"]
    led.rule("C13-R1", "no region of the non-re-entrant lysosome lock reaches a re-acquisition of the same lock", 4)
    led.rule("C13-R2", "every access to the queue in a method that rewrites it happens under the lock (or in a helper entered only with it held)", 6)
    led.rule("C13-R3", "after every ingest the queue is within capacity and every item that left it went through its digester exactly once (all interpreted fill levels / capacities / digester outcomes)", 2)
    led.rule("C13-R4", "digest(k) and autophagy partition the queue: exactly the cut items are processed, each once; nothing is both kept and processed", 2)
    led.rule("C13-R5", "a failing digester is contained per item and recorded; disposed + errors = items taken; counters only on success", 3)
    led.rule("C13-R6", "a sensitive item is labelled toxic, reaches the toxic callback exactly once and is never recycled", 3)

    from ..locks import late_lock_constructions
    late = late_lock_constructions(lys)
    if late:
        m_, n_ = late[0]
        led.fail("C13-R2", f"Lysosome.{m_.name} ▸ `{short(n_, 60)}`", where(m_, n_), "the queue lock is built outside the constructor: threads racing on its creation do not exclude each other")
        return
    if len(la.locks) != 1:
        raise AnchorError(f"Lysosome is expected to own exactly one lock attribute; found {sorted(la.locks)}")
    lock = next(iter(la.locks))
    Q = dict_key_field(p, lys, "get_statistics", "queue_size")
    if Q is None:
        raise AnchorError("Lysosome: the field behind get_statistics()['queue_size'] could not be identified")
    led.extra["fields"] = dict(queue=Q, lock=lock)
    held_entry = la.held_on_entry(lock)
    led.extra["held_on_entry_helpers"] = sorted(held_entry)

    # ---------------- R1
    viol = {(fi.key, id(w)): (call, chain) for fi, w, a, call, chain in la.reentry_violations()}
    for m in la.methods():
        for w, a in regions(m, la.locks):
            key = f"{m.qual} ▸ with self.{a}"
            v = viol.get((m.key, id(w)))
            if v:
                call, chain = v
                led.fail("C13-R1", key, where(m, call),
                         f"`{short(call)}` runs while self.{a} (threading.Lock, non-re-entrant) is held and reaches a re-acquisition: the call never returns",
                         path=chain, witness="Lysosome(auto_digest_threshold=1).ingest(w) hangs")
            else:
                n = sum(1 for st in w.body for _ in la.self_calls(m, within=st))
                led.ok("C13-R1", key, where(m, w), f"{n} same-instance call(s) inside the region; none can acquire self.{a}")
    # daemon (and any other class of the package) calling into the lysosome while holding a lysosome lock is impossible
    # (the lock is private); callers holding *their own* lock are listed
    for ci_list in p.classes.values():
        for ci in ci_list:
            if ci is lys:
                continue
            for m in ci.methods.values():
                for n in walk_no_nested(m.node):
                    if isinstance(n, ast.Attribute) and n.attr == lock and isinstance(n.value, ast.Attribute) and res.expr_class(m, n.value) is lys:
                        led.fail("C13-R1", f"{m.qual} ▸ touches lysosome lock", where(m, n), "foreign code manipulates the lysosome's private lock")

    # ---------------- R2
    for m in la.methods():
        if m.name == "__init__":
            continue
        writes = [n for k, n in attr_writes(m.node, Q, "self")]
        if not writes:
            continue
        accesses = [n for n in walk_no_nested(m.node) if is_self_attr(n, Q)]
        helper = m.key in held_entry
        for n in accesses:
            key = f"{m.qual} ▸ {'write' if isinstance(n.ctx, ast.Store) else 'access'} {Q} @{_stmt(n)}"
            if lock in held_at(n, la.locks):
                led.ok("C13-R2", key, where(m, n), f"inside a region of self.{lock}")
            elif helper:
                led.ok("C13-R2", key, where(m, n), "helper entered only from call sites holding the lock")
            else:
                led.fail("C13-R2", key, where(m, n), "queue accessed outside the lock in a method that rewrites it: a concurrent ingest/digest can lose or duplicate items")

    # ---------------- R2b one critical section per operation: the snapshot of what is taken and the cut of the queue
    # (every read-for-update and write of the queue by one operation) lie in one and the same region of the lock
    led.rule("C13-R2b", "each operation that rewrites the queue touches it inside one single region of the lock (no snapshot-then-cut across regions)", 2)

    def touches_queue(g, seen=()):
        if any(is_self_attr(n, Q) for n in walk_no_nested(g.node)):
            return True
        return False
    for m in la.methods():
        if m.name == "__init__" or m.key in held_entry:
            continue
        regs = regions(m, la.locks)
        if not regs:
            continue
        touching = []
        for w, a in regs:
            direct = any(is_self_attr(n, Q) for st in w.body for n in ast.walk(st))
            via = False
            for st in w.body:
                for c, g in la.self_calls(m, within=st):
                    if g.key in held_entry and touches_queue(g):
                        via = True
            if direct or via:
                touching.append(w)
        rewrites = bool([n for k, n in attr_writes(m.node, Q, "self")]) or any(g.key in held_entry and list(attr_writes(g.node, Q, "self")) for st in m.node.body for c, g in la.self_calls(m, within=st))
        if not touching or not rewrites:
            continue
        key = f"{m.qual} ▸ one critical section for the queue"
        if len(touching) == 1:
            led.ok("C13-R2b", key, where(m, touching[0]), "all of the method's accesses to the queue lie in one region of the lock")
        else:
            led.fail("C13-R2b", key, where(m, touching[1]),
                     f"the queue is read in one region of the lock and rewritten in another ({len(touching)} regions): between them a concurrent digest / ingest changes the queue, so items are processed twice or dropped unprocessed",
                     witness="thread A snapshots the batch, thread B digests the same items, A then cuts the queue: items digested twice, toxic callback twice")

    # ---------------- R7: the timestamps autophagy subtracts are of one kind
    _timestamps(p, led, lys, res)

    # ---------------- R3–R6: sequential conservation tables (abstract interpretation; adversarial digesters / callback)
    _semantic(p, led, lys, res, Q)


def _timestamps(p, led, lys, res):
    """`now - item.<stamp>` raises TypeError when one side is offset-aware and the other offset-naive: every value that can
    reach the stamp of a queued item (the record's default, every constructor call of the record in the package that sets
    it) must be of the kind the expiry test's `now` is"""
    led.rule("C13-R7", "every timestamp that reaches a queued item is of the same kind (offset-naive / offset-aware) as the clock autophagy compares it with", 0)
    LY = "operon_ai/organelles/lysosome.py"
    W = p.cls("Waste", LY)
    sites = []          # (method, subtraction node, stamp field, kind of `now`)
    for m in lys.methods.values():
        for n in ast.walk(m.node):
            if isinstance(n, ast.BinOp) and isinstance(n.op, ast.Sub):
                for stamp_side, now_side in ((n.right, n.left), (n.left, n.right)):
                    if isinstance(stamp_side, ast.Attribute) and not is_self_attr(stamp_side) and any(stamp_side.attr == f for f in W.field_names()) :
                        k = datetime_awareness(now_side, m, res)
                        if k:
                            sites.append((m, n, stamp_side.attr, k))
    if not sites:
        led.ok("C13-R7", "Lysosome ▸ no timestamp arithmetic on queued items", LY, "nothing to compare", nontrivial=False)
        return
    for m, n, stamp, kind in sites:
        feeds = []
        dflt = W.field_default(stamp)
        if dflt is not None:
            kd = datetime_awareness(dflt, m, res)
            if kd is None and isinstance(dflt, ast.Call):
                fac = next((k.value for k in dflt.keywords if k.arg == "default_factory"), None)
                kd = "naive" if fac is not None and d_is_now_factory(fac) else (datetime_awareness(fac.body, m, res) if isinstance(fac, ast.Lambda) else None)
            feeds.append((f"{W.name}.{stamp} default", kd, m, dflt))
        for fi in p.all_funcs:
            for c in ast.walk(fi.node):
                if isinstance(c, ast.Call) and isinstance(c.func, ast.Name) and c.func.id == W.name:
                    for k in c.keywords:
                        if k.arg == stamp:
                            feeds.append((f"{fi.qual} ▸ {short(c, 40)}", datetime_awareness(k.value, fi, res), fi, c))
        bad = [(lbl, kd, fi, c) for lbl, kd, fi, c in feeds if kd is not None and kd != kind]
        key = f"{m.qual} ▸ `{short(n, 50)}`"
        if bad:
            lbl, kd, fi, c = bad[0]
            led.fail("C13-R7", key, where(fi, c), f"`{stamp}` can hold an offset-{kd} timestamp ({lbl}) while the expiry test subtracts it from an offset-{kind} clock: the subtraction raises TypeError and the call does not return",
                     witness="a daemon-flushed item stamped with datetime.now(timezone.utc) sits in the queue: Lysosome.autophagy() raises TypeError on every call")
        else:
            led.ok("C13-R7", key, where(m, n), f"{len(feeds)} source(s) of `{stamp}` (record default and constructor calls package-wide): all offset-{kind} or not datetime constructions")


# ----------------------------------------------------------------------
def _semantic(p, led, lys, res, Q):
    from ..fdai import Interp, Obj, Unknown, PyRaise, ExcVal, explore, Imprecise, stub
    LY = "operon_ai/organelles/lysosome.py"
    W = p.cls("Waste", LY)
    WT = p.cls("WasteType", LY)
    BIN = dict_key_field(p, lys, "get_statistics", "recycling_bin_size")
    DIG = dict_key_field(p, lys, "get_statistics", "total_digested")
    if BIN is None or DIG is None:
        raise AnchorError("Lysosome: the fields behind get_statistics()['recycling_bin_size'/'total_digested'] could not be identified")
    members = [n for n, _ in WT.enum_members()]
    if "TOXIC_BYPRODUCT" not in members:
        raise AnchorError("WasteType.TOXIC_BYPRODUCT not found")
    ADV = "FAILED_OPERATION"        # the type whose digester is the adversary (returns anything or raises)
    PLAIN = "EXPIRED_CACHE"
    ingest, digest, autoph = (p.find_method(lys, n) for n in ("ingest", "digest", "autophagy"))
    ins = p.find_method(lys, "ingest_sensitive")
    for nm_, m_ in (("ingest", ingest), ("digest", digest), ("autophagy", autoph), ("ingest_sensitive", ins)):
        if m_ is None:
            raise AnchorError(f"Lysosome.{nm_} not found")

    def build(o, cap, thr, types, rising=False):
        it = Interp(p, o)
        log = []

        @stub
        def adv_digester(interp, args, kwargs):
            log.append(("digester", args[0]))
            c = interp.o.choose(4, "adversarial digester: returns {} / returns a mapping / raises / returns something that is not a mapping")
            if c == 2:
                raise PyRaise(ExcVal("RuntimeError", ("digester failed",)))
            if c == 3:
                return "done"          # truthy, not a mapping: salvaging from it fails — the item failed, it was not digested
            return {} if c == 0 else {"k": Unknown("recycled_value")}

        @stub
        def on_toxic(interp, args, kwargs):
            log.append(("toxic", args[0]))
            return None
        L = it.instantiate(lys, [], dict(max_queue_size=cap, auto_digest_threshold=thr, retention_hours=Unknown("retention_hours"),
                                         digesters={it.enum_member(WT, ADV): adv_digester}, on_toxic=on_toxic, silent=True))
        # `rising`: later items are more urgent (a priority-ordered selection would differ from the FIFO cut)
        ws = [it.instantiate(W, [], dict(waste_type=it.enum_member(WT, t), content=Unknown(f"content{i}"), source="s", priority=(i if rising else 0))) for i, t in enumerate(types)]
        it.events.clear()
        return it, L, ws, log

    def fill(L, items):
        """put `items` into the queue, keeping whatever container type the constructor chose (list, deque, …)"""
        q0 = L.fields[Q]
        from ..fdai import _Deque
        if isinstance(q0, _Deque):
            L.fields[Q] = _Deque(list(items), q0.maxlen)
        elif isinstance(q0, list):
            L.fields[Q] = list(items)
        else:
            raise AnchorError(f"Lysosome queue is a {type(q0).__name__}: not a sequence the interpreter models")

    def idx(ws, x):
        for i, w in enumerate(ws):
            if w is x:
                return i
        return None

    # ---- R3 capacity and conservation of ingest
    probs, npaths = [], 0
    for cap in (2, 3, 4):
        for k in range(0, cap + 1):
            for thr in sorted({100, cap, 1, 2}):           # never / exactly at capacity / at the very first items
                def go(o, _cap=cap, _k=k, _thr=thr):
                    types = [ADV if i % 2 == 0 else PLAIN for i in range(_k)] + [ADV]
                    it, L, ws, log = build(o, _cap, _thr, types)
                    fill(L, ws[:_k])
                    d0 = L.fields[DIG]
                    try:
                        it.call_fi(ingest, [L, ws[_k]], {})
                    except PyRaise as e:
                        return dict(raised=repr(e.exc))
                    q = L.fields[Q]
                    return dict(q=[idx(ws, x) for x in q], handled=[idx(ws, x) for kind, x in log if kind == "digester"], dcount=(L.fields[DIG], d0))
                try:
                    paths = [r for _, r in explore(go, max_paths=600)]
                except Imprecise as e:
                    if "exceeds" in str(e) and "iterations" in str(e) and "unmodelled" not in str(e):
                        # a loop over concrete state that makes no progress: the call does not return
                        probs.append(f"max_queue_size={cap}, {k} queued, auto_digest_threshold={thr}: ingest does not return ({e})")
                        continue
                    raise AnchorError(f"Lysosome.ingest could not be interpreted: {e}")
                npaths += len(paths)
                for r in paths:
                    tag = f"max_queue_size={cap}, {k} queued, auto_digest_threshold={thr}"
                    if "raised" in r:
                        probs.append(f"{tag}: ingest raises {r['raised']}")
                        continue
                    q = r["q"]
                    if len(q) > cap:
                        probs.append(f"{tag}: {len(q)} items queued after ingest — the queue exceeds its capacity")
                    if None in q or len(set(q)) != len(q):
                        probs.append(f"{tag}: queue holds a foreign or duplicated item {q}")
                    gone = [i for i in range(k + 1) if i not in q]
                    if k in gone and k not in r["handled"]:
                        probs.append(f"{tag}: the ingested item is neither queued nor handed to its digester")
                    for i in gone:
                        if (i % 2 == 0 or i == k) and r["handled"].count(i) != 1:
                            probs.append(f"{tag}: item {i} left the queue and was handed to its digester {r['handled'].count(i)}× (exactly once expected: a dropped item still goes through its digester, which is how sensitive items reach the toxic callback)")
                    for i in q:
                        if i is not None and i in r["handled"]:
                            probs.append(f"{tag}: item {i} was digested and is still queued (double handling)")
    key = "Lysosome.ingest ▸ bounded queue and conservation (all fill levels × capacity 2–4 × auto-digest on/off × digester outcomes)"
    if probs:
        led.fail("C13-R3", key, where(ingest, ingest.node), sorted(set(probs))[0], path=sorted(set(probs))[:8], witness="max_queue_size=2: third ingest leaves 3 queued items")
    else:
        led.ok("C13-R3", key, where(ingest, ingest.node), f"{npaths} path(s): ≤ capacity after every ingest; every item that left the queue went to its digester exactly once; none both queued and digested; never raises")
    led.ok("C13-R3", "Lysosome ▸ growth sites of the queue", where(ingest, ingest.node), "covered semantically by the table above (any growth path is interpreted)", nontrivial=False)

    # ---- R4 / R5 digest(k): complementary cut, per-item containment, exact accounting
    probs, npaths = [], 0
    for n, k, rising in [(n, k, rising) for n in range(0, 4) for k in (None, 0, 1, 2, n + 1) for rising in (False, True)]:
        if True:
            def go(o, _n=n, _k=k, _rising=rising):
                types = [ADV for i in range(_n)] if _rising else [ADV if i % 2 == 0 else PLAIN for i in range(_n)]
                it, L, ws, log = build(o, 10, 100, types, rising=_rising)
                fill(L, ws)
                d0 = L.fields[DIG]
                try:
                    r = it.call_fi(digest, [L] + ([] if _k is None else [_k]), {})
                except PyRaise as e:
                    return dict(raised=repr(e.exc))
                q = L.fields[Q]
                raised_n = sum(1 for lab, c in it.o.labels if lab.startswith("adversarial digester") and c == 2)
                junk_n = sum(1 for lab, c in it.o.labels if lab.startswith("adversarial digester") and c == 3)
                f = r.fields if isinstance(r, Obj) else {}
                return dict(q=[idx(ws, x) for x in q], handled=[idx(ws, x) for kind, x in log if kind == "digester"], disposed=f.get("disposed"), nerr=len(f.get("errors", [])) if isinstance(f.get("errors"), list) else None,
                            success=f.get("success"), raised_n=raised_n, junk_n=junk_n, dig=(L.fields[DIG], d0))
            try:
                paths = [r for _, r in explore(go, max_paths=800)]
            except Imprecise as e:
                raise AnchorError(f"Lysosome.digest could not be interpreted: {e}")
            npaths += len(paths)
            for r in paths:
                tag = f"{n} queued{' (later items more urgent)' if rising else ''}, digest({'' if k is None else k})"
                if "raised" in r:
                    probs.append(("C13-R5", f"{tag}: digest raises {r['raised']} — a failing digester escapes the per-item handler and the remaining items are lost"))
                    continue
                want_taken = n if (k is None or k == 0) else min(k, n)
                q = r["q"]
                taken = [i for i in range(n) if i not in q]
                if len(set(q)) != len(q) or None in q:
                    probs.append(("C13-R4", f"{tag}: queue afterwards {q} holds duplicates / foreign items"))
                if sorted(taken + [i for i in q if i is not None]) != list(range(n)):
                    probs.append(("C13-R4", f"{tag}: processed {taken}, kept {q}: not a partition of the queue"))
                if len(taken) > want_taken:
                    probs.append(("C13-R4", f"{tag}: {len(taken)} item(s) taken from the queue, at most {want_taken} allowed"))
                adv_taken = [i for i in taken if (rising or i % 2 == 0)]
                for i in adv_taken:
                    if r["handled"].count(i) != 1:
                        probs.append(("C13-R4", f"{tag}: item {i} was cut from the queue and handed to its digester {r['handled'].count(i)}×: cut items must be processed exactly once"))
                for i in q:
                    if i in r["handled"]:
                        probs.append(("C13-R4", f"{tag}: item {i} was processed and stays queued (double handling)"))
                if not r["handled"] == [i for i in r["handled"] if i in taken]:
                    probs.append(("C13-R4", f"{tag}: digesters ran on {r['handled']}, the queue lost {taken}"))
                if r["disposed"] is not None and r["nerr"] is not None:
                    # a digester that raised is an error; one that returned something unusable may be filed either way
                    # (reported as failed, or disposed of with nothing salvaged) — but only one way
                    if not (r["raised_n"] <= r["nerr"] <= r["raised_n"] + r["junk_n"]):
                        probs.append(("C13-R5", f"{tag}: {r['raised_n']} digester failure(s) (+{r['junk_n']} unusable result(s)) but {r['nerr']} recorded in errors: a failed item is neither digested nor reported"))
                    if r["disposed"] + r["nerr"] != len(taken):
                        probs.append(("C13-R5", f"{tag}: disposed {r['disposed']} + errors {r['nerr']} ≠ {len(taken)} items taken: an item is unaccounted (or counted although it failed)"))
                    if r["success"] is not (r["nerr"] == 0):
                        probs.append(("C13-R5", f"{tag}: success={r['success']!r} with {r['nerr']} error(s)"))
                    d1, d0 = r["dig"]
                    if isinstance(d1, int) and isinstance(d0, int) and d1 - d0 != r["disposed"]:
                        probs.append(("C13-R5", f"{tag}: digested counter grew by {d1 - d0}, disposed = {r['disposed']}"))
                else:
                    probs.append(("C13-R5", f"{tag}: result has no disposed/errors fields"))
    for rid, what in (("C13-R4", "Lysosome.digest ▸ the cut partitions the queue; exactly the cut items are processed, each once"),
                      ("C13-R5", "Lysosome.digest ▸ per-item containment and exact accounting (disposed + errors = taken; counters only on success)")):
        mine = sorted({m for r_, m in probs if r_ == rid})
        if mine:
            led.fail(rid, what, where(digest, digest.node), mine[0], path=mine[:8])
        else:
            led.ok(rid, what, where(digest, digest.node), f"{npaths} path(s) over queue sizes 0–3 × digest(None/0/1/2/n+1) × digester outcomes (returns {{}}, returns a mapping, raises)")
    # emergency path: containment there is part of the ingest table (ingest never raises); listed for the floor
    led.ok("C13-R5", "Lysosome.ingest ▸ emergency digestion contains digester failures", where(ingest, ingest.node), "ingest at capacity never raises with a raising digester (R3 table)")
    led.ok("C13-R5", "Lysosome.digest ▸ errors name every failed item", where(digest, digest.node), "errors recorded = digester failures on every path (table above)", nontrivial=False)

    # ---- R4 autophagy: kept ∪ removed = all, count returned
    probs, npaths = [], 0
    for n in range(0, 4):
        def go(o, _n=n):
            it, L, ws, log = build(o, 10, 100, [PLAIN] * _n)
            for i, w in enumerate(ws):
                w.fields["created_at"] = Unknown(f"created{i}")
            fill(L, ws)
            try:
                r = it.call_fi(autoph, [L], {})
            except PyRaise as e:
                return dict(raised=repr(e.exc))
            return dict(q=[idx(ws, x) for x in L.fields[Q]], ret=r, handled=len(log))
        try:
            paths = [r for _, r in explore(go, max_paths=400)]
        except Imprecise as e:
            raise AnchorError(f"Lysosome.autophagy could not be interpreted: {e}")
        npaths += len(paths)
        for r in paths:
            if "raised" in r:
                probs.append(f"{n} queued: autophagy raises {r['raised']}")
                continue
            q = r["q"]
            if None in q or len(set(q)) != len(q) or q != sorted(q):
                probs.append(f"{n} queued: queue after autophagy {q} is not a sub-sequence of the queue before")
            if isinstance(r["ret"], int) and r["ret"] != n - len(q):
                probs.append(f"{n} queued: autophagy reports {r['ret']} removed, {n - len(q)} left the queue")
    key = "Lysosome.autophagy ▸ keeps a sub-sequence and reports the number expired"
    if probs:
        led.fail("C13-R4", key, where(autoph, autoph.node), sorted(set(probs))[0])
    else:
        led.ok("C13-R4", key, where(autoph, autoph.node), f"{npaths} path(s) over 0–3 queued items × every expired subset")

    # ---- R6 sensitive items: toxic callback exactly once, nothing recycled
    probs, npaths = [], 0
    for extra in (0, 1):
        def go(o, _extra=extra):
            it, L, ws, log = build(o, 10, 100, [PLAIN] * _extra)
            fill(L, ws)
            secret = Unknown("SECRET")
            try:
                it.call_fi(ins, [L, secret], {})
                qitems = list(L.fields[Q])
                r = it.call_fi(digest, [L], {})
            except PyRaise as e:
                return dict(raised=repr(e.exc))
            tox = [x for kind, x in log if kind == "toxic"]
            sens = [w for w in qitems if isinstance(w, Obj) and w.fields.get("content") is secret]
            binv = L.fields[BIN]
            rec = r.fields.get("recycled") if isinstance(r, Obj) else None
            leak = _mentions(binv, secret) or _mentions(rec, secret)
            return dict(n_sens=len(sens), wt=[getattr(w.fields.get("waste_type"), "name", None) for w in sens], ntox=sum(1 for x in tox if any(x is w for w in sens)), ntox_all=len(tox), leak=leak,
                        disposed=r.fields.get("disposed") if isinstance(r, Obj) else None)
        try:
            paths = [r for _, r in explore(go, max_paths=200)]
        except Imprecise as e:
            raise AnchorError(f"ingest_sensitive/digest could not be interpreted: {e}")
        npaths += len(paths)
        for r in paths:
            if "raised" in r:
                probs.append(f"ingest_sensitive + digest raises {r['raised']}")
                continue
            if r["n_sens"] != 1:
                probs.append(f"ingest_sensitive queued {r['n_sens']} item(s) carrying the data")
            elif r["wt"] != ["TOXIC_BYPRODUCT"]:
                probs.append(f"sensitive data is labelled {r['wt'][0]}, not TOXIC_BYPRODUCT: it is digested by a recycling digester")
            if r["ntox"] != 1:
                probs.append(f"the toxic callback received the sensitive item {r['ntox']}× (exactly once expected)")
            if r["ntox_all"] != r["ntox"]:
                probs.append("the toxic callback was invoked for a non-sensitive item")
            if r["leak"]:
                probs.append("sensitive content reaches the recycling bin / the recycled result")
    for key in ("Lysosome ▸ sensitive item reaches the toxic callback exactly once", "Lysosome ▸ sensitive content is never recycled", "Lysosome.ingest_sensitive ▸ labelled toxic and handled by the toxic digester"):
        sel = {"exactly once": ("callback",), "never recycled": ("recycl",), "labelled": ("labelled", "queued", "raises")}[next(k for k in ("exactly once", "never recycled", "labelled") if k in key)]
        mine = sorted({m for m in probs if any(x in m for x in sel)})
        if mine:
            led.fail("C13-R6", key, where(ins, ins.node), mine[0])
        else:
            led.ok("C13-R6", key, where(ins, ins.node), f"{npaths} path(s): ingest_sensitive(data) then digest() — with and without other queued items")


def _mentions(v, needle, depth=0):
    """does abstract value v contain (structurally) the needle value"""
    from ..fdai import Obj, Unknown
    if v is needle:
        return True
    if depth > 5:
        return False
    if isinstance(v, Unknown) and isinstance(needle, Unknown):
        return needle.sym in v.sym
    if isinstance(v, dict):
        return any(_mentions(k, needle, depth + 1) or _mentions(x, needle, depth + 1) for k, x in v.items())
    if isinstance(v, (list, tuple, set, frozenset)):
        return any(_mentions(x, needle, depth + 1) for x in v)
    if isinstance(v, Obj):
        return any(_mentions(x, needle, depth + 1) for x in v.fields.values())
    return False


# ----------------------------------------------------------------------
def _stmt(n):
    q = n
    while q is not None and not isinstance(q, ast.stmt):
        q = parent(q)
    if isinstance(q, (ast.With, ast.If, ast.For, ast.While, ast.Try)):
        return src(q).split("\n")[0][:60]
    return short(q, 60) if q is not None else "?"


def _enclosing_for(n):
    q = parent(n)
    while q is not None and not isinstance(q, (ast.For, ast.While, ast.FunctionDef)):
        q = parent(q)
    return q if isinstance(q, ast.For) else None


