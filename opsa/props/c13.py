"""C13 — waste handling never hangs, stays bounded and accounts for every item."""
from __future__ import annotations

import ast

from ..cfg import edge_facts
from ..loader import AnchorError, is_self_attr, parent, short, src, walk_no_nested
from ..locks import LockAnalysis, held_at, regions
from ..resolve import Resolver
from ..rules import attr_writes, calls_named, cfg_of, guard_facts, mentions_attr, where, in_cycle

FILES = ["operon_ai/organelles/lysosome.py", "operon_ai/healing/autophagy_daemon.py"]
Q = "_queue"


def run(p, led, tier):
    res = Resolver(p)
    lys = p.cls("Lysosome", "operon_ai/organelles/lysosome.py")
    la = LockAnalysis(p, res, lys)
    led.explanation = (
        "R1 lock-region analysis (re-acquisition of the non-re-entrant lysosome lock through resolved same-instance "
        "callees). R2 lockset of the queue. R3 the capacity test dominates the only growth site and its true edge "
        "passes a shrinking routine. R4 wherever the queue is cut, the processed part and the kept part are "
        "complementary slices. R5 per-item try/except around every digester call, errors recorded, counters only on "
        "the success edge. R6 the built-in toxic digester returns an empty mapping on all paths and calls the toxic "
        "callback at most once per invocation, and is the registered digester for the toxic type.")
    led.not_decided = ["counter exactness under bytecode-level races outside the lock", "autophagy's clock arithmetic", "user-supplied digesters for the toxic type"]
    led.assumptions = ["A3 digesters / on_toxic do not call back into the lysosome", "max_queue_size >= 2 (statement)"]
    led.rule("C13-R1", "no region of the non-re-entrant lysosome lock reaches a re-acquisition of the same lock", 4)
    led.rule("C13-R2", "every access to the queue in a method that rewrites it happens under the lock (or in a helper entered only with it held)", 6)
    led.rule("C13-R3", "the append in ingest is dominated by the capacity test whose true edge shrinks the queue; nothing else grows the queue", 2)
    led.rule("C13-R4", "where the queue is cut, processed prefix and kept suffix are complementary", 2)
    led.rule("C13-R5", "every digester call sits in a per-item try/except Exception; digest records the error; counters only on the success edge", 3)
    led.rule("C13-R6", "the toxic digester returns an empty mapping on every path, calls the toxic callback at most once, and is registered for the toxic type", 3)

    if "_lock" not in la.locks:
        raise AnchorError("Lysosome has no lock attribute")
    lock = "_lock"
    held_entry = la.held_on_entry(lock)
    led.extra["held_on_entry_helpers"] = sorted(held_entry)

    # ---------------- R1
    viol = {(fi.key, id(w)): (call, chain) for fi, w, a, call, chain in la.reentry_violations()}
    for m in la.methods():
        for w, a in regions(m, la.locks):
            key = f"{m.qual} ▸ with self.{a}"
            v = viol.get((m.key, id(w)))
            if v:
                call, chain = v
                led.fail("C13-R1", key, where(m, call),
                         f"`{short(call)}` runs while self.{a} (threading.Lock, non-re-entrant) is held and reaches a re-acquisition: the call never returns",
                         path=chain, witness="Lysosome(auto_digest_threshold=1).ingest(w) hangs")
            else:
                n = sum(1 for st in w.body for _ in la.self_calls(m, within=st))
                led.ok("C13-R1", key, where(m, w), f"{n} same-instance call(s) inside the region; none can acquire self.{a}")
    # daemon (and any other class of the package) calling into the lysosome while holding a lysosome lock is impossible
    # (the lock is private); callers holding *their own* lock are listed
    for ci_list in p.classes.values():
        for ci in ci_list:
            if ci is lys:
                continue
            for m in ci.methods.values():
                for n in walk_no_nested(m.node):
                    if isinstance(n, ast.Attribute) and n.attr == lock and isinstance(n.value, ast.Attribute) and res.expr_class(m, n.value) is lys:
                        led.fail("C13-R1", f"{m.qual} ▸ touches lysosome lock", where(m, n), "foreign code manipulates the lysosome's private lock")

    # ---------------- R2
    for m in la.methods():
        if m.name == "__init__":
            continue
        writes = [n for k, n in attr_writes(m.node, Q, "self")]
        if not writes:
            continue
        accesses = [n for n in walk_no_nested(m.node) if is_self_attr(n, Q)]
        helper = m.key in held_entry
        for n in accesses:
            key = f"{m.qual} ▸ {'write' if isinstance(n.ctx, ast.Store) else 'access'} {Q} @{_stmt(n)}"
            if lock in held_at(n, la.locks):
                led.ok("C13-R2", key, where(m, n), "inside `with self._lock`")
            elif helper:
                led.ok("C13-R2", key, where(m, n), "helper entered only from call sites holding the lock")
            else:
                led.fail("C13-R2", key, where(m, n), "queue accessed outside the lock in a method that rewrites it: a concurrent ingest/digest can lose or duplicate items")

    # ---------------- R3
    ingest = p.find_method(lys, "ingest")
    if ingest is None:
        raise AnchorError("Lysosome.ingest not found")
    cfg = cfg_of(ingest, led)
    grows = []
    for fi in p.all_funcs:
        for k, n in attr_writes(fi.node, Q, None):
            if k in ("mutcall:append", "mutcall:extend", "mutcall:insert", "augassign"):
                recv_ok = fi.cls in la.family
                if not recv_ok:
                    c = None
                    for x in ast.walk(n):
                        if isinstance(x, ast.Attribute) and x.attr == Q:
                            c = res.expr_class(fi, x.value)
                    if c not in la.family:
                        continue
                grows.append((fi, k, n))
    if not grows:
        raise AnchorError("nothing ever appends to the lysosome queue (anchor vanished)")
    for fi, k, n in grows:
        key = f"{fi.qual} ▸ {short(n, 50)}"
        if fi is not ingest and not (fi.cls in la.family and fi.key == ingest.key):
            led.fail("C13-R3", key, where(fi, n), "the queue grows outside ingest, bypassing the capacity test")
            continue
        node = cfg.node_of(n)
        cap_tests = []
        for t in cfg.nodes:
            if t.kind == "test" and isinstance(t.ast, ast.Compare) and "len(self._queue)" in src(t.ast.left) and mentions_attr(t.ast, "max_queue_size") \
                    and isinstance(t.ast.ops[0], (ast.GtE, ast.Eq)):
                cap_tests.append(t)
        dom = cfg.dominators()
        dominating = [t for t in cap_tests if t in dom.get(node, ())]
        if not dominating:
            led.fail("C13-R3", key, where(fi, n), "append not dominated by a `len(queue) >= max_queue_size` test: the queue can exceed its capacity",
                     witness="max_queue_size=2: third ingest leaves 3 queued items")
            continue
        t = dominating[0]
        # from the T edge every path to the append passes a call that shrinks the queue
        shrink_nodes = set()
        for c in walk_no_nested(ingest.node):
            if isinstance(c, ast.Call):
                for g in res.resolve_call(ingest, c):
                    if g.cls in la.family and _shrinks(g):
                        shrink_nodes.add(cfg.node_of(c))
        for k2, n2 in attr_writes(ingest.node, Q, "self"):
            if _is_shrinking_write(k2, n2):
                shrink_nodes.add(cfg.node_of(n2))
        seen = cfg.reach(start_edges=[(t, m_, l) for m_, l in t.succ if l == "T"], avoid=shrink_nodes)
        if node in seen:
            led.fail("C13-R3", key, where(fi, n), "at capacity the append is reachable without shrinking the queue", path=cfg.fmt_path(cfg.witness(seen, node)))
        else:
            led.ok("C13-R3", key, where(fi, n), f"dominated by `{short(t.ast)}`; its true edge reaches the append only through a routine that drops the oldest half")
    # the shrinking routine really halves
    em = p.find_method(lys, "_emergency_digest")
    if em is not None:
        ok_half = any(isinstance(n, ast.BinOp) and isinstance(n.op, ast.FloorDiv) and "len(self._queue)" in src(n.left) and isinstance(n.right, ast.Constant) and n.right.value in (2,)
                      for n in ast.walk(em.node))
        key = "Lysosome._emergency_digest ▸ drops len//2 (≥1 for len ≥ 2)"
        if ok_half:
            led.ok("C13-R3", key, where(em, em.node), "count is len(queue)//2, so at capacity ≥ 2 at least one slot is freed")
        else:
            led.fail("C13-R3", key, where(em, em.node), "emergency routine no longer frees len//2 items")

    # ---------------- R4 slice complementarity
    n_cut = 0
    for m in la.methods():
        mc = None
        for k, n in attr_writes(m.node, Q, "self"):
            if k != "assign" or not isinstance(n, ast.Assign):
                continue
            v = n.value
            if isinstance(v, ast.ListComp):
                continue    # autophagy filter: not a cut
            if m.name in ("__init__",):
                continue
            n_cut += 1
            key = f"{m.qual} ▸ {short(n, 70)}"
            verdict, why = _complementary(m, n)
            if verdict:
                led.ok("C13-R4", key, where(m, n), why)
            else:
                led.fail("C13-R4", key, where(m, n), why)
    if n_cut == 0:
        raise AnchorError("no queue cut found in Lysosome")

    # ---------------- R5 error discipline
    for mname in ("digest", "_emergency_digest"):
        m = p.find_method(lys, mname)
        if m is None:
            raise AnchorError(f"Lysosome.{mname} not found")
        mc = cfg_of(m, led)
        dcalls = [c for c in walk_no_nested(m.node) if isinstance(c, ast.Call) and isinstance(c.func, ast.Name) and _is_digester_var(m, c.func.id)]
        if not dcalls:
            raise AnchorError(f"Lysosome.{mname}: digester call not found")
        for c in dcalls:
            node = mc.node_of(c)
            key = f"{m.qual} ▸ {short(c)}"
            exc_t = [x for x, l in node.succ if l == "exc"]
            if mc.raise_exit in exc_t or not exc_t:
                led.fail("C13-R5", key + " ▸ contained", where(m, c), "a raising digester escapes the per-item handler: the call raises and the remaining items are lost")
                continue
            handler_ok = all(x.kind == "except" for x in exc_t)
            loop = _enclosing_for(c)
            if loop is None or not handler_ok:
                led.fail("C13-R5", key + " ▸ contained", where(m, c), "digester call is not inside a per-item try/except within the loop")
                continue
            # handler inside the loop (per item)
            h = exc_t[0].stmt
            if _enclosing_for(h) is not loop:
                led.fail("C13-R5", key + " ▸ contained", where(m, c), "the handler encloses the whole loop: one failing item aborts the batch")
                continue
            led.ok("C13-R5", key + " ▸ contained", where(m, c), "exception edge goes only to an `except Exception` inside the same loop iteration")
            head = mc.node_of(loop.iter)
            # counters not reachable from the exception edge within the iteration
            counters = [x for x in mc.nodes if x.kind == "stmt" and isinstance(x.ast, ast.AugAssign) and isinstance(x.ast.op, ast.Add)
                        and (src(x.ast.target) in ("self._total_digested", "disposed", "self._total_recycled"))]
            seen = mc.reach(start_edges=[(node, x, l) for x, l in node.succ if l == "exc"], cut=lambda a, b, l: b is head)
            hit = [x for x in counters if x in seen]
            if hit:
                led.fail("C13-R5", key + " ▸ counters", where(m, hit[0].ast), f"`{short(hit[0].ast)}` is reachable after the digester raised: a failed item is counted as digested")
            else:
                led.ok("C13-R5", key + " ▸ counters", where(m, c), f"{len(counters)} counter update(s); none reachable from the exception edge inside the iteration")
            if mname == "digest":
                rec = {x for x in mc.nodes if x.kind == "stmt" and isinstance(x.ast, ast.Expr) and isinstance(x.ast.value, ast.Call)
                       and isinstance(x.ast.value.func, ast.Attribute) and x.ast.value.func.attr == "append" and src(x.ast.value.func.value) == "errors"}
                seen2 = mc.reach(start_edges=[(node, x, l) for x, l in node.succ if l == "exc"], avoid=rec)
                if head in seen2 or mc.exit in seen2:
                    led.fail("C13-R5", key + " ▸ error recorded", where(m, c), "a failed item reaches the next iteration without being recorded in `errors`: it is neither digested nor reported")
                else:
                    led.ok("C13-R5", key + " ▸ error recorded", where(m, c), "every path from the exception edge passes `errors.append(...)`")
                # success path: both counters on every normal path to the loop head
                for cn in ("self._total_digested", "disposed"):
                    cs = {x for x in counters if src(x.ast.target) == cn}
                    s3 = mc.reach(start_edges=[(node, x, l) for x, l in node.succ if l != "exc"], avoid=cs,
                                  cut=lambda a, b, l: l == "exc")
                    if head in s3:
                        led.fail("C13-R5", key + f" ▸ {cn} on success", where(m, c), f"a successfully digested item can reach the next iteration without `{cn} += 1`")
                    else:
                        led.ok("C13-R5", key + f" ▸ {cn} on success", where(m, c), "every normal path to the next iteration passes the increment")

    # ---------------- R6 toxic
    tox = p.find_method(lys, "_digest_toxic")
    if tox is None:
        raise AnchorError("Lysosome._digest_toxic not found")
    tc = cfg_of(tox, led)
    rets = [n for n in walk_no_nested(tox.node) if isinstance(n, ast.Return)]
    bad = [r for r in rets if not (isinstance(r.value, ast.Dict) and not r.value.keys) and not (isinstance(r.value, ast.Call) and src(r.value) == "dict()")]
    key = "Lysosome._digest_toxic ▸ returns"
    # falling off the end returns None (falsy -> nothing recycled) which is fine too
    if bad or not rets:
        led.fail("C13-R6", key, where(tox, (bad or [tox.node])[0]), f"toxic digester returns `{short(bad[0].value) if bad else 'nothing'}`: sensitive content can reach the recycling bin")
    else:
        led.ok("C13-R6", key, where(tox, rets[0]), f"{len(rets)} return(s), each an empty mapping")
    cb = [c for c in walk_no_nested(tox.node) if isinstance(c, ast.Call) and is_self_attr(c.func, "on_toxic")]
    key = "Lysosome._digest_toxic ▸ callback once"
    if not cb:
        led.fail("C13-R6", key, where(tox, tox.node), "toxic callback is never invoked")
    else:
        multi = len(cb) > 1 and _two_on_a_path(tc, [tc.node_of(c) for c in cb])
        cyc = any(in_cycle(tc, tc.node_of(c)) for c in cb)
        # must be reached whenever on_toxic is set: the call is guarded only by a truthiness test of on_toxic
        facts = guard_facts(tc, tc.node_of(cb[0]))
        other = [f for f in facts if not (is_self_attr(f[0], "on_toxic") or (isinstance(f[0], ast.Compare) and "on_toxic" in src(f[0])))]
        if multi or cyc:
            led.fail("C13-R6", key, where(tox, cb[0]), "toxic callback can run more than once per item")
        elif other:
            led.fail("C13-R6", key, where(tox, cb[0]), f"toxic callback additionally guarded by `{short(other[0][0])}`: some sensitive items never reach it")
        else:
            led.ok("C13-R6", key, where(tox, cb[0]), "one call site, not in a loop, guarded only by `self.on_toxic` being set")
    # registration
    init = lys.methods.get("__init__")
    reg = None
    for n in walk_no_nested(init.node):
        if isinstance(n, (ast.Assign, ast.AnnAssign)):
            tgt = n.targets[0] if isinstance(n, ast.Assign) else n.target
            if is_self_attr(tgt, "_digesters") and isinstance(n.value, ast.Dict):
                for k, v in zip(n.value.keys, n.value.values):
                    if src(k).endswith("TOXIC_BYPRODUCT"):
                        reg = (n, v)
    key = "Lysosome.__init__ ▸ digester table ▸ TOXIC_BYPRODUCT"
    if reg and is_self_attr(reg[1], "_digest_toxic"):
        led.ok("C13-R6", key, where(init, reg[0]), "toxic type is mapped to the built-in toxic digester")
    else:
        led.fail("C13-R6", key, where(init, init.node), "the toxic waste type is not mapped to the toxic digester")
    # ingest_sensitive labels the item toxic
    ins = p.find_method(lys, "ingest_sensitive")
    if ins is not None:
        wc = [c for c in walk_no_nested(ins.node) if isinstance(c, ast.Call) and isinstance(c.func, ast.Name) and c.func.id == "Waste"]
        okk = any(k.arg == "waste_type" and src(k.value).endswith("TOXIC_BYPRODUCT") for c in wc for k in c.keywords)
        key = "Lysosome.ingest_sensitive ▸ waste type"
        if okk:
            led.ok("C13-R6", key, where(ins, wc[0]), "sensitive data is wrapped as TOXIC_BYPRODUCT", nontrivial=False)
        else:
            led.fail("C13-R6", key, where(ins, ins.node), "sensitive data is not labelled TOXIC_BYPRODUCT: it is digested by a recycling digester")


# ----------------------------------------------------------------------
def _stmt(n):
    q = n
    while q is not None and not isinstance(q, ast.stmt):
        q = parent(q)
    if isinstance(q, (ast.With, ast.If, ast.For, ast.While, ast.Try)):
        return src(q).split("\n")[0][:60]
    return short(q, 60) if q is not None else "?"


def _enclosing_for(n):
    q = parent(n)
    while q is not None and not isinstance(q, (ast.For, ast.While, ast.FunctionDef)):
        q = parent(q)
    return q if isinstance(q, ast.For) else None


def _is_shrinking_write(k, n):
    if k == "assign" and isinstance(n, ast.Assign) and isinstance(n.value, ast.Subscript) and isinstance(n.value.slice, ast.Slice) \
            and is_self_attr(n.value.value, Q) and n.value.slice.lower is not None:
        return True
    if k in ("subscript-del", "mutcall:clear", "mutcall:pop"):
        return True
    return False


def _shrinks(g):
    return any(_is_shrinking_write(k, n) for k, n in attr_writes(g.node, Q, "self"))


def _is_digester_var(m, name):
    for n in walk_no_nested(m.node):
        if isinstance(n, ast.Assign) and len(n.targets) == 1 and isinstance(n.targets[0], ast.Name) and n.targets[0].id == name:
            if "_digesters" in src(n.value):
                return True
    return False


def _two_on_a_path(cfg, nodes):
    for a in nodes:
        seen = cfg.reach(start_edges=cfg.out_edges(a))
        if any(b in seen for b in nodes if b is not a):
            return True
    return False


def _branches(e):
    """[(condition text or None, expr)] — splits a conditional expression"""
    if isinstance(e, ast.IfExp):
        return [(src(e.test), e.body), ("not " + src(e.test), e.orelse)]
    return [(None, e)]


def _complementary(m, assign):
    """kept = value assigned to self._queue; taken = what the function processes.
    Accepted idioms:  taken = Q[:A]  & kept = Q[A:]  |  taken = Q[:A] bound to T & kept = Q[len(T):]
                      taken = Q[:]   & kept = []"""
    kept = assign.value
    # locate the taken expression: a slice/copy of the queue that is iterated or bound to a variable that is iterated
    taken_exprs = []
    fn = m.node
    for n in walk_no_nested(fn):
        if isinstance(n, ast.Assign) and n is not assign and len(n.targets) == 1 and isinstance(n.targets[0], ast.Name):
            if any(is_self_attr(x, Q) for x in ast.walk(n.value)) and any(isinstance(x, ast.Subscript) for x in ast.walk(n.value)):
                taken_exprs.append((n.targets[0].id, n.value))
        if isinstance(n, ast.For) and any(is_self_attr(x, Q) for x in ast.walk(n.iter)) and isinstance(n.iter, ast.Subscript):
            taken_exprs.append((None, n.iter))
    if not taken_exprs:
        return False, "queue is cut but no processed part (slice of the queue) is found: cut items vanish unaccounted"
    var, taken = taken_exprs[0]
    # the taken part must be iterated
    iterated = any(isinstance(n, ast.For) and ((var and isinstance(n.iter, ast.Name) and n.iter.id == var) or n.iter is taken) for n in walk_no_nested(fn))
    if not iterated:
        return False, "processed part is never iterated"
    tb, kb = _branches(taken), _branches(kept)
    if len(tb) != len(kb) or [c for c, _ in tb] != [c for c, _ in kb]:
        return False, f"processed part `{short(taken)}` and kept part `{short(kept)}` are selected by different conditions"
    for (c, t), (_, k) in zip(tb, kb):
        okb, why = _pair(t, k, var)
        if not okb:
            return False, (f"under `{c}`: " if c else "") + why
    return True, f"processed `{short(taken)}` and kept `{short(kept)}` are complementary slices" + (f" (bound to `{var}`)" if var else "")


def _pair(t, k, var):
    if not (isinstance(t, ast.Subscript) and isinstance(t.slice, ast.Slice) and is_self_attr(t.value, Q)):
        return False, f"processed part `{short(t)}` is not a slice of the queue"
    lo, hi = t.slice.lower, t.slice.upper
    if lo is not None:
        return False, f"processed part `{short(t)}` does not start at the head of the queue"
    if hi is None:
        # full copy pairs with empty list
        if isinstance(k, ast.List) and not k.elts:
            return True, ""
        return False, f"whole queue processed but `{short(k)}` kept: items are processed and stay queued (double handling)"
    if not (isinstance(k, ast.Subscript) and isinstance(k.slice, ast.Slice) and is_self_attr(k.value, Q)):
        return False, f"kept part `{short(k)}` is not a slice of the queue although only a prefix is processed: unprocessed items are dropped"
    klo, khi = k.slice.lower, k.slice.upper
    if khi is not None or klo is None:
        return False, f"kept part `{short(k)}` is not a suffix"
    if src(klo) == src(hi):
        return True, ""
    if var and src(klo) == f"len({var})":
        return True, ""
    return False, f"prefix bound `{short(hi)}` and suffix start `{short(klo)}` differ: an item is dropped unprocessed or handled twice"
