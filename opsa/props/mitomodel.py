"""Shared model pieces for the Mitochondria checks (C01, C02): allow-list tables, however they are written."""
from __future__ import annotations

import ast

from ..fdai import ExtRef, Func, Imprecise, Interp, Oracle, PyRaise
from ..loader import AnchorError, dotted, src


class Entry:
    __slots__ = ("key_text", "key", "kind", "dotted", "node", "line", "value")

    def __init__(self, key_text, key, kind, dotted_, node, line, value=None):
        self.key_text, self.key, self.kind, self.dotted, self.node, self.line, self.value = key_text, key, kind, dotted_, node, line, value


def table_entries(p, ci, tname):
    """entries of the class-level table `tname`: a dict literal is read off the syntax tree; a computed table
    (built by a helper, a comprehension, dict(...), getattr(math, name) over name tuples, …) is evaluated by the
    abstract interpreter, which knows the module's own code and nothing else"""
    tab = ci.assigns.get(tname)
    if tab is None:
        raise AnchorError(f"{ci.name}.{tname}: no such class-level table")
    if isinstance(tab, ast.Dict) and all(k is not None for k in tab.keys):
        out = []
        for k, v in zip(tab.keys, tab.values):
            d = dotted(v)
            if isinstance(v, ast.Constant):
                kind = "const"
            elif isinstance(v, ast.Lambda):
                kind = "lambda"
            elif d:
                kind = "ext"
            else:
                kind = "other"
            kv = k.value if isinstance(k, ast.Constant) else (dotted(k) or src(k))
            out.append(Entry(src(k), kv, kind, d, v, v.lineno))
        return out
    it = Interp(p, Oracle())
    try:
        val = it._class_attr(ci, tname)
    except (Imprecise, PyRaise) as e:
        raise AnchorError(f"{ci.name}.{tname} is neither a dict literal nor statically evaluable: {e}")
    if not isinstance(val, dict):
        raise AnchorError(f"{ci.name}.{tname} does not evaluate to a dict ({type(val).__name__})")
    out = []
    line = tab.lineno
    for k, v in val.items():
        if isinstance(k, str):
            kt, kv = repr(k), k
        elif isinstance(k, ExtRef):
            kt, kv = k.name, k.name
        else:
            kt, kv = repr(k), k
        if isinstance(v, ExtRef):
            out.append(Entry(kt, kv, "ext", v.name, None, line, v))
        elif isinstance(v, Func):
            if isinstance(v.node, ast.Lambda):
                out.append(Entry(kt, kv, "lambda", None, v.node, v.node.lineno, v))
            else:
                out.append(Entry(kt, kv, "ext", v.node.name, v.node, v.node.lineno, v))
        elif isinstance(v, (int, float, str, bool, complex)) or v is None:
            out.append(Entry(kt, kv, "const", None, None, line, v))
        else:
            out.append(Entry(kt, kv, "other", None, None, line, v))
    return out
