"""C17 — surveillance acts only on two signals and never softens a critical threat."""
from __future__ import annotations

import ast

from ..fdai import Interp, Obj, PyRaise, Unknown, explore, Imprecise, EnumVal, Func, cmp_outcome
from ..loader import AnchorError, short, src, walk_no_nested
from ..rules import where

SV = "operon_ai/surveillance/"
FILES = [SV + f for f in ("tcell.py", "treg.py", "thymus.py", "immune_system.py", "display.py", "memory.py", "types.py")]
RANK = {"IGNORE": 0, "MONITOR": 1, "ALERT": 1.5, "ISOLATE": 2, "SHUTDOWN": 3}



def _reached(d):
    """decision on `count >= threshold` (canonical sym `(count < threshold)`, negated): the test expression held"""
    return d[1] is True and (">=" in d[0] or "is_anergic" in d[0] or ">" in d[0])


def _holds(d):
    return d[1] is True


def nm(v):
    return getattr(v, "name", None) or repr(v)


def run(p, led, tier):
    from .c10 import _shared_memos
    from ..resolve import Resolver as _Res
    _shared_memos(p, led, _Res(p), "C17-R6", FILES, "a retrained or second baseline of the same agent is answered with the verdict of the old one",
                  "train baseline A, check fingerprint p (violations); retrain on p itself: the new profile still reports the old violations from the shared memo")
    tcell = p.cls("TCell", SV + "tcell.py")
    treg = p.cls("RegulatoryTCell", SV + "treg.py")
    isys = p.cls("ImmuneSystem", SV + "immune_system.py")
    prof = p.cls("BaselineProfile", SV + "thymus.py")
    pept = p.cls("MHCPeptide", SV + "types.py")
    trec = p.cls("ToleranceRecord", SV + "treg.py")
    rule_cls = p.cls("SuppressionRule", SV + "treg.py")
    sig_cls = p.cls("ThreatSignature", SV + "memory.py")
    resp_cls = p.cls("ImmuneResponse", SV + "tcell.py")
    TL = p.cls("ThreatLevel", SV + "types.py")
    RA = p.cls("ResponseAction", SV + "types.py")
    if set(n for n, _ in RA.enum_members()) != set(RANK):
        raise AnchorError(f"ResponseAction members changed: {[n for n, _ in RA.enum_members()]}")
    for c, m in ((tcell, "inspect"), (treg, "evaluate"), (isys, "inspect"), (prof, "check")):
        if p.find_method(c, m) is None:
            raise AnchorError(f"{c.name}.{m} not found")
    led.explanation = (
        "Finite-domain abstract interpretation of TCell.inspect, RegulatoryTCell.evaluate and ImmuneSystem.inspect "
        "(the repo's source; only the baseline check and the fingerprint generator are replaced by stubs that yield "
        "0, 1 or 3 violations; counters, thresholds, canary accuracy and rule conditions are Unknown and both outcomes "
        "of every test on them are explored). The complete response table is extracted and compared with the "
        "statement: no-violation ⇒ NONE/IGNORE whatever flags or memories exist; CONFIRMED/CRITICAL ⇒ violation ∧ a "
        "second signal on that path; anergic ⇒ NONE/IGNORE; SHUTDOWN only with CRITICAL; Treg leaves CRITICAL "
        "untouched and lowers any other response the T cell can produce by at most one rank.")
    led.exhaustive = True
    led.not_decided = ["self-tolerance for training windows whose snapshots differ from each other (train_agent trains from one snapshot repeated; that case is decided, R5)"]
    led.assumptions = ["the baseline check is the oracle of 'current behaviour violates the trained baseline' (its arithmetic is not analysed)",
                       "suppression-rule conditions are arbitrary predicates (A3)"]
    led.rule("C17-R1", "T-cell response table: SELF ⇒ NONE/IGNORE; CONFIRMED/CRITICAL ⇒ violation ∧ second signal; SHUTDOWN only with CRITICAL", 6)
    led.rule("C17-R2", "an anergic watcher answers NONE/IGNORE before anything else", 1)
    led.rule("C17-R3", "every response of the integrated inspect on in-baseline behaviour is NONE/IGNORE, and every threat-bearing response lies on a path with a violated baseline, a responsive watcher and a second signal", 12)
    led.rule("C17-R4", "Treg: CRITICAL is returned unsuppressed and unchanged; any other producible response is lowered by at most one rank", 6)
    led.rule("C17-R5", "immediately after successful training from a window's fingerprint, that fingerprint violates nothing (self-tolerance), for all values of its statistics", 2)

    def member(it, ci, name):
        return it.enum_member(ci, name)

    def mk_peptide(it, canary):
        return Obj(pept, dict(agent_id="a1", timestamp=Unknown("ts"), output_length_mean=Unknown("olm"), output_length_std=Unknown("ols"),
                              response_time_mean=Unknown("rtm"), response_time_std=Unknown("rts"), vocabulary_hash="vh", structure_hash="sh",
                              confidence_mean=Unknown("cm"), confidence_std=Unknown("cs"), error_rate=Unknown("er"), error_types=(),
                              canary_accuracy=(None if canary is None else Unknown("canary_accuracy"))))

    def mk_tcell(it, nviol, manual):
        profile = Obj(prof, dict(agent_id="a1", canary_accuracy_min=Unknown("canary_accuracy_min")))
        it.stubs["BaselineProfile.check"] = lambda interp, args, kwargs: [f"v{i} out of range" for i in range(nviol)]
        tc = it.instantiate(tcell, [], dict(profile=profile, repeated_anomaly_threshold=Unknown("repeated_anomaly_threshold", kind="int"), anergy_threshold=Unknown("anergy_threshold", kind="int")))
        tc.fields["anomaly_count"] = Unknown("anomaly_count")
        tc.fields["anergy_count"] = Unknown("anergy_count")
        tc.fields["manual_flag"] = manual
        return tc

    def second_signal(decisions, manual, memory):
        s = []
        if manual:
            s.append("manual flag")
        if any(cmp_outcome(d, "canary_accuracy", "canary_accuracy_min") in ("lt", "le") for d in decisions):
            s.append("canary failed")
        if any(cmp_outcome(d, "anomaly_count", "repeated_anomaly_threshold") in ("ge", "gt") for d in decisions):
            s.append("repeated anomaly")
        if memory:
            s.append("remembered threat")
        return s

    def anergic(decisions):
        return any(cmp_outcome(d, "anergy_count", "anergy_threshold") in ("ge", "gt") for d in decisions)

    # ---------------- R1 / R2: TCell.inspect
    insp = p.find_method(tcell, "inspect")
    produced = set()      # (threat, action) pairs the T cell can produce
    for nviol in (0, 1, 3):
        for manual in (None, "flagged"):
            for canary in (None, "present"):
                def go(o):
                    it = Interp(p, o)
                    tc = mk_tcell(it, nviol, manual)
                    it.decisions.clear()
                    r = it.call_fi(insp, [tc, mk_peptide(it, canary)], {})
                    return dict(t=nm(r.fields["threat_level"]), a=nm(r.fields["action"]), s1=nm(r.fields["signal1"]), s2=nm(r.fields["signal2"]),
                                anergic_flag=r.fields.get("is_anergic"), decisions=list(it.decisions), streak=tc.fields.get("anomaly_count"))
                try:
                    paths = explore(go, max_paths=400)
                except (Imprecise, PyRaise) as e:
                    raise AnchorError(f"TCell.inspect could not be interpreted: {e!r}")
                key = f"TCell.inspect ▸ violations={nviol} manual={'set' if manual else 'none'} canary={'measured' if canary else 'none'}"
                probs = []
                for _, r in paths:
                    produced.add((r["t"], r["a"]))
                    an = anergic(r["decisions"])
                    sig2 = second_signal(r["decisions"], manual, False)
                    if an:
                        if (r["t"], r["a"]) != ("NONE", "IGNORE"):
                            probs.append(f"anergic watcher answered {r['t']}/{r['a']}")
                        continue
                    if nviol == 0 and (r["t"], r["a"]) != ("NONE", "IGNORE"):
                        probs.append(f"in-baseline behaviour reported {r['t']}/{r['a']} (signal2={r['s2']})")
                    if nviol == 0 and r["streak"] != 0:
                        probs.append(f"an in-baseline inspection leaves the anomaly streak at {r['streak']!r}: a later isolated anomaly is counted as 'repeated' and confirmed on one signal")
                    if r["t"] in ("CONFIRMED", "CRITICAL") and (nviol == 0 or not sig2):
                        probs.append(f"{r['t']} without {'a baseline violation' if nviol == 0 else 'any second signal'}")
                    if nviol > 0 and (r["s1"] != "NON_SELF"):
                        probs.append(f"violations present but signal1={r['s1']}")
                    if nviol > 0 and not sig2 and (r["t"], r["a"]) != ("SUSPICIOUS", "MONITOR"):
                        probs.append(f"violation without second signal answered {r['t']}/{r['a']}")
                    if nviol > 0 and sig2 and r["t"] not in ("CONFIRMED", "CRITICAL"):
                        probs.append(f"two signals ({sig2}) answered only {r['t']}")
                    if r["a"] == "SHUTDOWN" and r["t"] != "CRITICAL":
                        probs.append(f"SHUTDOWN with threat {r['t']}")
                    if r["t"] == "CRITICAL" and r["a"] != "SHUTDOWN":
                        probs.append(f"CRITICAL answered with {r['a']}")
                if probs:
                    led.fail("C17-R1", key, where(insp, insp.node), "; ".join(sorted(set(probs))))
                else:
                    led.ok("C17-R1", key, where(insp, insp.node), f"{len(paths)} path(s); responses {sorted(set((r['t'], r['a']) for _, r in paths))}")
    # R2: anergy dominates — explored above on every scenario; one explicit obligation with the counts
    def go_anergy(o):
        it = Interp(p, o)
        tc = mk_tcell(it, 3, "flagged")
        tc.fields["anergy_count"] = 5
        tc.fields["anergy_threshold"] = 5
        before = (tc.fields["anomaly_count"], nm(tc.fields["state"].fields.get("signal1")))
        it.trace_calls = {"BaselineProfile.check"}
        r = it.call_fi(insp, [tc, mk_peptide(it, "present")], {})
        return dict(t=nm(r.fields["threat_level"]), a=nm(r.fields["action"]), checked=[e for e in it.events if e[0] == "call"],
                    changed=(tc.fields["anomaly_count"], nm(tc.fields["state"].fields.get("signal1"))) != before)
    paths = explore(go_anergy, max_paths=50)
    bad = [r for _, r in paths if (r["t"], r["a"]) != ("NONE", "IGNORE") or r["changed"]]
    key = "TCell.inspect ▸ anergic (count == threshold), 3 violations, manual flag, canary"
    if bad:
        led.fail("C17-R2", key, where(insp, insp.node), f"desensitised watcher still answers {bad[0]['t']}/{bad[0]['a']} or updates its streak")
    else:
        led.ok("C17-R2", key, where(insp, insp.node), f"{len(paths)} path(s): NONE/IGNORE, no state updated")
    led.extra["tcell_producible_responses"] = sorted(produced)

    # ---------------- R4: Treg.evaluate over every producible (threat, action) pair
    ev = p.find_method(treg, "evaluate")
    for (t, a) in sorted(produced):
        def go(o):
            it = Interp(p, o)
            it.max_unknown_len = 1
            rule = Obj(rule_cls, dict(name="r", condition=Unknown("rule_condition"), max_severity=Unknown("max_sev"), duration=None))
            it.stubs["SuppressionRule.can_suppress"] = lambda interp, args, kwargs: Unknown("can_suppress")
            tr = it.instantiate(treg, [], dict(rules=[rule], stability_threshold=Unknown("stability_threshold")))
            rec = it.instantiate(trec, [], dict(agent_id="a1"))
            # any tolerance record: every field other than the agent's id is arbitrary (counters, timestamps, registered
            # patterns …), and the response carries arbitrary violations
            for fld in list(rec.fields):
                if fld != "agent_id":
                    rec.fields[fld] = Unknown(fld)
            resp = Obj(resp_cls, dict(agent_id="a1", threat_level=member(it, TL, t), action=member(it, RA, a), signal1=Unknown("s1"), signal2=Unknown("s2"), violations=Unknown("violations"), is_anergic=False))
            try:
                r = it.call_fi(ev, [tr, resp, rec], {})
            except PyRaise as e:
                if "rule_condition" in repr(e.exc):
                    return None          # a raising user predicate: outside the statement
                raise
            return dict(sup=r.fields["suppressed"], orig=nm(r.fields["original_action"]), mod=nm(r.fields["modified_action"]))
        try:
            paths = explore(go, max_paths=6000)
        except (Imprecise, PyRaise) as e:
            raise AnchorError(f"RegulatoryTCell.evaluate could not be interpreted: {e!r}")
        key = f"RegulatoryTCell.evaluate ▸ response {t}/{a}"
        probs = []
        for _, r in paths:
            if r is None:
                continue
            if r["mod"] not in RANK:
                probs.append(f"modified action {r['mod']} is not a ResponseAction")
                continue
            if t == "CRITICAL":
                if r["sup"] is not False or r["mod"] != a:
                    probs.append(f"CRITICAL response changed: suppressed={r['sup']} action {a}→{r['mod']}")
            else:
                drop = RANK[a] - RANK[r["mod"]]
                if drop > 1 or drop < 0:
                    probs.append(f"action {a}→{r['mod']} is {'a raise' if drop < 0 else f'{drop} ranks down'}")
                if r["sup"] is False and r["mod"] != a:
                    probs.append(f"action changed {a}→{r['mod']} while reporting suppressed=False")
        if probs:
            led.fail("C17-R4", key, where(ev, ev.node), "; ".join(sorted(set(probs))))
        else:
            led.ok("C17-R4", key, where(ev, ev.node), f"{len(paths)} path(s); outcomes {sorted(set((r['sup'], r['mod']) for _, r in paths if r), key=str)}")
    # downgrade table itself: every member lowered by ≤ 1 rank, all members are keys
    dg = p.find_method(treg, "_downgrade_action")
    if dg is not None:
        def go_d(o, a):
            it = Interp(p, o)
            tr = it.instantiate(treg, [], {})
            return nm(it.call_fi(dg, [tr, member(it, RA, a)], {}))
        for a in RANK:
            paths = explore(lambda o: go_d(o, a))
            outs = {r for _, r in paths}
            key = f"RegulatoryTCell._downgrade_action ▸ {a}"
            bad = [x for x in outs if x not in RANK or not (0 <= RANK[a] - RANK[x] <= 1)]
            if bad:
                led.fail("C17-R4", key, where(dg, dg.node), f"{a} is downgraded to {bad[0]}: more than one step (or upward)")
            else:
                led.ok("C17-R4", key, where(dg, dg.node), f"{a} → {sorted(outs)}")

    # ---------------- R5: self-tolerance, by affine reasoning over symbolic statistics
    from ..fdai import LinInterp, Lin, entails
    thy = p.cls("Thymus", SV + "thymus.py")
    train = p.find_method(thy, "train")
    chkm = p.find_method(prof, "check")
    if train is None:
        raise AnchorError("Thymus.train not found")
    for with_canary, hashes in [(c_, h_) for c_ in (False, True) for h_ in (("vh", "sh"), ("", ""), (None, None))]:
        def go_t(o):
            it = LinInterp(p, o, real=True)

            def mean(interp, args, kwargs):
                vals = list(args[0])
                if vals and all(v is vals[0] or v == vals[0] for v in vals):
                    return vals[0]
                return Unknown("mean(" + ", ".join(map(repr, vals[:3])) + ")")

            def stdev(interp, args, kwargs):
                vals = list(args[0])
                if vals and all(v is vals[0] or v == vals[0] for v in vals):
                    return 0
                return Unknown("stdev(…)")
            it.ext_stubs["statistics.mean"] = mean
            it.ext_stubs["statistics.stdev"] = stdev
            S = {k: Lin.sym(k) for k in ("len_mean", "len_std", "rt_mean", "rt_std", "conf_mean", "conf_std", "error_rate", "canary")}
            # what is known of a window that training accepts: deviations are non-negative, a mean of lengths is
            # non-negative, the rates the display computes lie in [0,1].  Response times and confidences are whatever the
            # caller recorded (nothing validates them): their means are unconstrained
            for k in ("len_mean", "len_std", "rt_std", "conf_std", "error_rate", "canary"):
                it.assume(S[k])
            for k in ("error_rate", "canary"):
                it.assume(Lin({}, 1).add(S[k], -1))
            pep = Obj(pept, dict(agent_id="a1", timestamp=Unknown("ts"), output_length_mean=S["len_mean"], output_length_std=S["len_std"], response_time_mean=S["rt_mean"],
                                 response_time_std=S["rt_std"], vocabulary_hash=(Unknown("vocabulary_hash") if hashes[0] is None else hashes[0]),
                                 structure_hash=(Unknown("structure_hash") if hashes[1] is None else hashes[1]), confidence_mean=S["conf_mean"], confidence_std=S["conf_std"],
                                 error_rate=S["error_rate"], error_types=(), canary_accuracy=(S["canary"] if with_canary else None)))
            T = it.instantiate(thy, [], {})
            n = T.fields.get("min_training_samples", 10)
            n = n if isinstance(n, int) else 10
            try:
                out = it.call_fi(train, [T, "a1", [pep] * n], {})
            except PyRaise as e:
                return dict(raised=repr(e.exc))
            profile, result = out
            if nm(result) != "POSITIVE" or profile is None:
                return dict(result=nm(result))
            v = it.call_fi(chkm, [profile, pep], {})
            return dict(result="POSITIVE", violations=[x if isinstance(x, str) else repr(x) for x in v], n=len(v))
        try:
            paths = [r for _, r in explore(go_t, max_paths=5000)]
        except Imprecise as e:
            raise AnchorError(f"Thymus.train / BaselineProfile.check could not be interpreted: {e}")
        key = f"Thymus.train → BaselineProfile.check ▸ same fingerprint, canary {'measured' if with_canary else 'absent'}, hashes {'arbitrary' if hashes[0] is None else ('empty' if hashes[0] == '' else 'ordinary')}"
        pos = [r for r in paths if r.get("result") == "POSITIVE"]
        bad = [r for r in pos if r["n"] > 0]
        raised = [r for r in paths if "raised" in r]
        if raised:
            led.fail("C17-R5", key, where(train, train.node), f"training raises {raised[0]['raised']}")
        elif not pos:
            led.fail("C17-R5", key, where(train, train.node), f"no path trains successfully ({sorted(set(r.get('result') for r in paths))})")
        elif bad:
            led.fail("C17-R5", key, where(chkm, chkm.node),
                     f"{len(bad)} of {len(pos)} successful-training paths: the fingerprint the profile was trained from violates it ({bad[0]['n']} violation(s))",
                     witness="train on a window whose canary pass-rate is 40 %: training is POSITIVE, inspecting the same window is CRITICAL/SHUTDOWN")
        else:
            led.ok("C17-R5", key, where(chkm, chkm.node), f"{len(pos)} successful-training path(s) over symbolic statistics (deviations ≥ 0, length mean ≥ 0, rates in [0,1]; response-time and confidence means unconstrained): check() returns no violation")

    # ---------------- R3: integrated inspect
    sinsp = p.find_method(isys, "inspect")
    mem_cases = {"empty": None, "remembered CONFIRMED/ISOLATE": ("CONFIRMED", "ISOLATE"), "remembered CRITICAL/SHUTDOWN": ("CRITICAL", "SHUTDOWN")}
    for nviol in (0, 1, 3):
        for manual in (None, "flagged"):
            for mname, mem in mem_cases.items():
                def go(o):
                    it = Interp(p, o)
                    tc = mk_tcell(it, nviol, manual)
                    sysobj = it.instantiate(isys, [], {})
                    disp = Obj(p.cls("MHCDisplay", SV + "display.py"), {})
                    pep = mk_peptide(it, "present")
                    it.stubs["MHCDisplay.generate_peptide"] = lambda interp, args, kwargs: pep
                    sysobj.fields["displays"]["a1"] = disp
                    sysobj.fields["tcells"]["a1"] = tc
                    tr = sysobj.fields["treg"]
                    rec = it.instantiate(trec, [], dict(agent_id="a1"))
                    rec.fields["clean_inspections"] = Unknown("clean_inspections")
                    tr.fields["records"]["a1"] = rec
                    tr.fields["stability_threshold"] = Unknown("stability_threshold")
                    rule = Obj(rule_cls, dict(name="r", condition=Unknown("rule_condition"), max_severity=member(it, TL, "CONFIRMED"), duration=None))
                    tr.fields["rules"] = [rule]
                    if mem:
                        sig = it.instantiate(sig_cls, [], dict(agent_id="a1", vocabulary_hash="vh", structure_hash="sh", violation_types=("v0",),
                                                               threat_level=member(it, TL, mem[0]), effective_response=member(it, RA, mem[1])))
                        sysobj.fields["memory"].fields["signatures"].append(sig)
                    it.decisions.clear()
                    try:
                        r = it.call_fi(sinsp, [sysobj, "a1"], {})
                    except PyRaise as e:
                        if "rule_condition" in repr(e.exc):
                            return None
                        raise
                    return dict(t=nm(r.fields["threat_level"]), a=nm(r.fields["action"]), decisions=list(it.decisions))
                try:
                    paths = explore(go, max_paths=2000)
                except (Imprecise, PyRaise) as e:
                    raise AnchorError(f"ImmuneSystem.inspect could not be interpreted: {e!r}")
                key = f"ImmuneSystem.inspect ▸ violations={nviol} manual={'set' if manual else 'none'} memory={mname}"
                probs = []
                paths = [(l, r) for l, r in paths if r is not None]
                for _, r in paths:
                    an = anergic(r["decisions"])
                    sig2 = second_signal(r["decisions"], manual, bool(mem))
                    if nviol == 0 and (r["t"], r["a"]) != ("NONE", "IGNORE"):
                        probs.append(f"behaviour inside the baseline reported {r['t']}/{r['a']}")
                    if r["t"] in ("CONFIRMED", "CRITICAL"):
                        if nviol == 0:
                            pass   # already reported above
                        elif not sig2:
                            probs.append(f"{r['t']} without a second signal")
                        # a desensitised watcher stays silent: only decidable when the anergy test was evaluated on the path
                    if an and (r["t"], r["a"]) != ("NONE", "IGNORE"):
                        probs.append(f"desensitised watcher answered {r['t']}/{r['a']}")
                    if r["a"] == "SHUTDOWN" and r["t"] != "CRITICAL":
                        probs.append(f"SHUTDOWN with threat {r['t']}")
                if probs:
                    led.fail("C17-R3", key, where(sinsp, sinsp.node), "; ".join(sorted(set(probs))),
                             witness="agent with a remembered CRITICAL signature, now back inside its baseline (same vocabulary/structure hashes): inspect() → CRITICAL/SHUTDOWN" if mem and nviol == 0 else None)
                else:
                    led.ok("C17-R3", key, where(sinsp, sinsp.node), f"{len(paths)} path(s); responses {sorted(set((r['t'], r['a']) for _, r in paths))}")
    # the anergy test must be evaluated on every path of the integrated inspect that returns a threat (memory path included)
    def go_an(o, mem):
        it = Interp(p, o)
        tc = mk_tcell(it, 3, "flagged")
        tc.fields["anergy_count"] = 7
        tc.fields["anergy_threshold"] = 5
        sysobj = it.instantiate(isys, [], {})
        pep = mk_peptide(it, "present")
        it.stubs["MHCDisplay.generate_peptide"] = lambda interp, args, kwargs: pep
        sysobj.fields["displays"]["a1"] = Obj(p.cls("MHCDisplay", SV + "display.py"), {})
        sysobj.fields["tcells"]["a1"] = tc
        if mem:
            sig = it.instantiate(sig_cls, [], dict(agent_id="a1", vocabulary_hash="vh", structure_hash="sh", violation_types=("v0",),
                                                   threat_level=member(it, TL, "CRITICAL"), effective_response=member(it, RA, "SHUTDOWN")))
            sysobj.fields["memory"].fields["signatures"].append(sig)
        r = it.call_fi(sinsp, [sysobj, "a1"], {})
        return (nm(r.fields["threat_level"]), nm(r.fields["action"]))
    for mem in (False, True):
        paths = explore(lambda o: go_an(o, mem), max_paths=200)
        outs = {r for _, r in paths}
        key = f"ImmuneSystem.inspect ▸ desensitised watcher ▸ memory={'remembered CRITICAL' if mem else 'empty'}"
        if outs != {("NONE", "IGNORE")}:
            led.fail("C17-R3", key, where(sinsp, sinsp.node), f"a desensitised watcher (anergy count above threshold) is not silent: {sorted(outs)}",
                     witness="five false alarms, then a fingerprint matching a remembered threat: inspect() → CRITICAL/SHUTDOWN")
        else:
            led.ok("C17-R3", key, where(sinsp, sinsp.node), f"{len(paths)} path(s): NONE/IGNORE")

    # ---------------- R4b the tolerance filter is applied once per threat: a history of two inspections of the same
    # anomalous behaviour under an applicable tolerance rule never ends more than one rank below the T cell's response
    led.rule("C17-R4", "Treg: CRITICAL is returned unsuppressed and unchanged; any other producible response is lowered by at most one rank", 6)

    def go_twice(o):
        it = Interp(p, o)
        tc = mk_tcell(it, 1, "flagged")
        tc.fields["anergy_count"] = 0
        tc.fields["anergy_threshold"] = 5
        sysobj = it.instantiate(isys, [], {})
        pep = mk_peptide(it, "present")
        it.stubs["MHCDisplay.generate_peptide"] = lambda interp, args, kwargs: pep
        sysobj.fields["displays"]["a1"] = Obj(p.cls("MHCDisplay", SV + "display.py"), {})
        sysobj.fields["tcells"]["a1"] = tc
        tr = sysobj.fields["treg"]
        # one rule that always applies (e.g. "agent was recently updated")
        from ..fdai import stub as _stub

        @_stub
        def applies(interp, args, kwargs):
            return interp.o.choose(2, "tolerance rule applies / does not apply") == 0
        always = Obj(rule_cls, dict(name="always", condition=applies, max_severity=member(it, TL, "CONFIRMED"), duration=None))
        tr.fields["rules"] = [always]
        it.call_fi(p.find_method(treg, "register_agent"), [tr, "a1"], {})
        outs = []
        for _ in range(2):
            r = it.call_fi(sinsp, [sysobj, "a1"], {})
            outs.append((nm(r.fields["threat_level"]), nm(r.fields["action"])))
        return outs
    try:
        paths = explore(go_twice, max_paths=400)
    except Imprecise as e:
        raise AnchorError(f"two-inspection history could not be interpreted: {e}")
    key = "ImmuneSystem.inspect ▸ same anomalous behaviour inspected twice under an applicable tolerance rule"
    bad2 = []
    for _, outs in paths:
        (t1, a1), (t2, a2) = outs
        if t1 == "CONFIRMED" and t2 in ("CONFIRMED", "CRITICAL"):
            # recommended action of a CONFIRMED threat is ISOLATE; one rank below is MONITOR
            if RANK.get(a2, 0) < RANK["MONITOR"]:
                bad2.append(f"first inspection {t1}/{a1}, second {t2}/{a2}: the remembered threat was softened again (two ranks below ISOLATE)")
    if bad2:
        led.fail("C17-R4", key, where(sinsp, sinsp.node), sorted(set(bad2))[0],
                 witness="a CONFIRMED threat under a matching tolerance rule: first inspect → MONITOR (stored), second inspect answered from memory → IGNORE")
    else:
        led.ok("C17-R4", key, where(sinsp, sinsp.node), f"{len(paths)} path(s): the second response is never more than one rank below the recommended action")

    # ---------------- R6 nothing on the inspection path answers from a memo whose key can stay equal while its inputs change
    led.rule("C17-R6", "no method of the surveillance classes returns a stored result under a validity key that does not determine what the computation reads", 1)
    from ..resolve import Resolver
    from ..rules import memo_findings
    res_ = Resolver(p)
    nm_ = 0
    for fi in p.all_funcs:
        if fi.module.rel.startswith(SV) and fi.cls is not None:
            for node, text in memo_findings(p, res_, fi):
                nm_ += 1
                led.fail("C17-R6", f"{fi.qual} ▸ memoised return", where(fi, node), text,
                         witness="fill the observation window with anomalous behaviour, then return to normal: the fingerprint never changes again and the agent stays CONFIRMED")
    led.ok("C17-R6", "surveillance ▸ memoised returns", SV, f"{sum(1 for f in p.all_funcs if f.module.rel.startswith(SV))} function(s) scanned; {nm_} stale-memo site(s)")
