"""C09 — lifecycle: legal transitions only, absorbing end states, clamps, refusals, no hang."""
from __future__ import annotations

import ast

from ..fdai import Interp, PyRaise, SkipPath, Unknown, explore, freeze, Imprecise, cmp_outcome
from ..loader import AnchorError, is_self_attr, short, src, walk_no_nested
from ..locks import LockAnalysis, regions
from ..resolve import Resolver
from ..rules import accessor_field, attr_writes, dict_key_field, where

FILES = ["operon_ai/state/telomere.py"]

# oracle A.3 (from the statement, not from the code)
PHASES = ["NASCENT", "ACTIVE", "SENESCENT", "APOPTOTIC", "TERMINATED"]


def legal(method, a, b):
    if a == b:
        return True
    if method == "reset":
        return b == "NASCENT"          # re-initialisation (assumption recorded)
    if a == "TERMINATED":
        return False                   # absorbing
    if b == "TERMINATED":
        return True
    if b == "APOPTOTIC":
        return True
    if (a, b) == ("NASCENT", "ACTIVE"):
        return True
    if (a, b) == ("ACTIVE", "SENESCENT"):
        return True
    if (a, b) == ("SENESCENT", "ACTIVE"):
        return method == "renew"
    return False


def run(p, led, tier):
    res = Resolver(p)
    tel = p.cls("Telomere", "operon_ai/state/telomere.py")
    phase = p.cls("LifecyclePhase", "operon_ai/state/telomere.py")
    if [n for n, _ in phase.enum_members()] != PHASES and set(n for n, _ in phase.enum_members()) != set(PHASES):
        raise AnchorError(f"LifecyclePhase members changed: {[n for n, _ in phase.enum_members()]}")
    led.explanation = (
        "R1: lock-region analysis — closure of resolved same-instance callees of every region of the non-re-entrant "
        "lifecycle lock must not re-acquire it. R2–R4, R6: finite-domain abstract interpretation of every public "
        "method from each of the 5 phases with all numeric/clock state and arguments Unknown (every Unknown branch "
        "explored both ways): the complete set of phase writes per (method, start phase) is extracted and compared "
        "with the statement's automaton; tick from a terminal phase must write nothing and return False; tick's "
        "result must equal 'phase is ACTIVE afterwards' on every path; renew must write nothing when disallowed or "
        "terminated; a path on which an error/time limit test held must end SENESCENT. R5: every write of the "
        "remaining length has a clamped shape.")
    led.not_decided = ["numeric Hayflick count (follows from R5 + unit cost, not computed)", "behaviour at exact >=/> boundaries of limits"]
    led.assumptions = ["`reset` is re-initialisation (any→NASCENT allowed)", "A3 callbacks do not re-enter the lifecycle", "A4 renew amount and tick cost are non-negative"]
    led.rule("C09-R1", "no region of the non-re-entrant lifecycle lock reaches a re-acquisition of the same lock", 8)
    led.rule("C09-R2", "every phase write of every public method from every start phase is an edge of the statement's automaton", 40)
    led.rule("C09-R3", "tick from APOPTOTIC/TERMINATED writes nothing and returns False", 2)
    led.rule("C09-R4", "tick returns True exactly when the phase is ACTIVE afterwards, on every path", 3)
    led.rule("C09-R5", "every write of the remaining length is max(0,·), min(max_operations,·) or = max_operations", 3)
    led.rule("C09-R6", "renew is refused (no write, False) when disallowed or TERMINATED; a path on which an error or time limit test held ends SENESCENT", 4)

    # private fields, identified through the public accessors that expose them
    PH = accessor_field(p, tel, "get_phase")
    LEN = dict_key_field(p, tel, "get_statistics", "telomere_length")
    ERR = dict_key_field(p, tel, "get_statistics", "error_count")
    OPS = dict_key_field(p, tel, "get_statistics", "operations_count")
    REN = dict_key_field(p, tel, "get_statistics", "renewal_count")
    REASON = dict_key_field(p, tel, "get_statistics", "senescence_reason")

    def _cfg(**over):
        """an arbitrary *valid* configuration: typed unknowns (limits are integers, durations reals, the renewal switch a bool)"""
        c = {"max_operations": Unknown("max_operations", kind="int"), "error_threshold": Unknown("error_threshold", kind="int"),
             "allow_renewal": Unknown("allow_renewal", kind="bool"), "silent": True,
             "max_lifetime_hours": Unknown("max_lifetime_hours", kind="real"), "idle_timeout_minutes": Unknown("idle_timeout_minutes", kind="real"),
             "on_phase_change": None, "on_senescence": None}
        c.update(over)
        return c

    def _new(it, cfg):
        """construct the lifecycle; a constructor that rejects the chosen configuration ends the path (the tables quantify over
        the configurations the class accepts)"""
        try:
            return it.instantiate(tel, [], cfg)
        except PyRaise as e:
            raise SkipPath(f"constructor rejects the configuration: {e.exc!r}")

    def _written_with_clock(mname):
        """private fields that the public method `mname` sets to the current time on some path from NASCENT / ACTIVE
        (decided by interpretation: the clock is a symbolic value named 'clock…')"""
        m = p.find_method(tel, mname)
        if m is None:
            return set()
        out = set()
        for start_ in ("NASCENT", "ACTIVE"):
            def go(o, _s=start_):
                it = Interp(p, o)
                obj = _new(it, _cfg(allow_renewal=True))
                obj.fields[PH] = it.enum_member(phase, _s)
                it.events.clear()
                it.watch_fields = {("Telomere", "*")}
                try:
                    it.call_fi(m, [obj] + [Unknown(a) for a in m.params() if a != "self"], {})
                except PyRaise:
                    pass
                return {ev[2] for ev in it.events if ev[0] == "write" and isinstance(ev[4], Unknown) and "clock" in ev[4].sym and ev[2].startswith("_")}
            try:
                for _, fs in explore(go, max_paths=200):
                    out |= fs
            except Imprecise:
                pass
        return out
    by_start, by_beat = _written_with_clock("start"), _written_with_clock("heartbeat")
    st_only = sorted(by_start - by_beat)
    beat = sorted(by_beat & by_start) or sorted(by_beat)
    STARTED = st_only[0] if len(st_only) == 1 else None
    LASTACT = beat[0] if len(beat) == 1 else None
    for nm_, v_ in (("get_phase()", PH), ("get_statistics()['telomere_length']", LEN), ("get_statistics()['error_count']", ERR), ("get_statistics()['senescence_reason']", REASON),
                    ("the start clock (set by start(), not by heartbeat())", STARTED), ("the activity clock (set by heartbeat())", LASTACT)):
        if v_ is None:
            raise AnchorError(f"Telomere: the field behind {nm_} could not be identified")
    led.extra["fields"] = dict(phase=PH, remaining=LEN, errors=ERR, operations=OPS, renewals=REN, reason=REASON, started=STARTED, last_activity=LASTACT)

    # ---------------- R1
    la = LockAnalysis(p, res, tel)
    if not la.locks:
        raise AnchorError("Telomere has no lock attribute")
    viol = {(fi.key, id(w)): (fi, w, a, call, chain) for fi, w, a, call, chain in la.reentry_violations()}
    for m in la.methods():
        for w, a in regions(m, la.locks):
            key = f"{m.qual} ▸ with self.{a}"
            v = viol.get((m.key, id(w)))
            if v:
                fi, w_, a_, call, chain = v
                led.fail("C09-R1", key, where(m, call),
                         f"`{short(call)}` is executed while self.{a} (threading.Lock, non-re-entrant) is held and re-acquires it: the call never returns",
                         path=chain, witness="Telomere().tick() on a never-started lifecycle hangs")
            else:
                n = sum(1 for st in w.body for _ in la.self_calls(m, within=st))
                led.ok("C09-R1", key, where(m, w), f"{n} same-instance call(s) inside the region; none can acquire self.{a} ({la.locks[a]})")

    # ---------------- R1b no process-wide lock around user callbacks: an observer of one lifecycle may drive another one
    # (start a successor, terminate a sibling); with a module-level non-re-entrant lock held while observers run, the inner
    # notification waits for the outer one for ever
    mod_locks = {}
    for st_ in tel.module.tree.body:
        if isinstance(st_, ast.Assign) and isinstance(st_.value, ast.Call) and (src(st_.value.func).endswith("Lock") and "RLock" not in src(st_.value.func)):
            for t_ in st_.targets:
                if isinstance(t_, ast.Name):
                    mod_locks[t_.id] = st_
    n_mod = 0
    for f_ in [f for f in p.all_funcs if f.module is tel.module]:
        for w_ in walk_no_nested(f_.node):
            if isinstance(w_, ast.With) and any(isinstance(i_.context_expr, ast.Name) and i_.context_expr.id in mod_locks for i_ in w_.items):
                params_ = set(f_.params())
                for c_ in [c for st2 in w_.body for c in ast.walk(st2) if isinstance(c, ast.Call)]:
                    fn_ = c_.func
                    is_cb = (isinstance(fn_, ast.Name) and fn_.id in params_) or (is_self_attr(fn_) and fn_.attr.startswith("on_"))
                    if is_cb:
                        n_mod += 1
                        led.fail("C09-R1", f"{f_.qual} ▸ `{short(c_, 50)}` under a module-level lock", where(f_, c_),
                                 "a user callback runs while a process-wide non-re-entrant lock is held: an observer that drives another lifecycle (whose own observers are notified the same way) never returns",
                                 witness="worker.on_senescence starts a successor Telomere that has an on_phase_change: worker.tick() hangs")
    if mod_locks and not n_mod:
        led.ok("C09-R1", "telomere ▸ module-level locks", tel.module.rel, f"{len(mod_locks)} module-level lock(s); none is held around a user callback", nontrivial=False)

    # ---------------- fdai tables
    public = [m for m in tel.methods.values() if not m.name.startswith("_")]
    if len(public) < 10:
        raise AnchorError(f"Telomere public surface shrank to {len(public)} methods")
    total_paths = 0

    def make(o, start, overrides=None):
        it = Interp(p, o)
        obj = _new(it, _cfg(**(overrides or {})))
        obj.fields[PH] = it.enum_member(phase, start)
        # state invariant (verified inductively below, rule R2): a senescence reason is recorded only in
        # SENESCENT / APOPTOTIC / TERMINATED; there it may be anything
        if start in ("SENESCENT", "APOPTOTIC", "TERMINATED") and REASON in obj.fields:
            obj.fields[REASON] = Unknown(REASON)
        for f in (LEN, ERR, OPS, STARTED, LASTACT, REN):
            if f is not None and f in obj.fields:
                obj.fields[f] = Unknown(f)
        it.events.clear()
        it.decisions.clear()
        it.watch_fields = {("Telomere", "*")}
        return it, obj

    def run_method(o, m, start, overrides=None):
        it, obj = make(o, start, overrides)
        # the lifecycle's state: every field, append-only logs compared by their old length (an event recorded about a
        # refusal is not a change of the lifecycle; rewriting or truncating the log is)
        before_lists = {k: len(v) for k, v in obj.fields.items() if isinstance(v, list)}
        before = freeze({k: (v[:] if isinstance(v, list) else v) for k, v in obj.fields.items()})
        params = [a for a in m.params() if a != "self"]
        try:
            r = it.call_fi(m, [obj] + [Unknown(a) for a in params], {})
            raised = None
        except PyRaise as e:
            r, raised = None, repr(e.exc)
        writes = [ev for ev in it.events if ev[0] == "write"]
        reason = obj.fields.get(REASON)
        return dict(reason_none=reason is None, ret=r, raised=raised, writes=writes, final=obj.fields[PH].name if hasattr(obj.fields[PH], "name") else repr(obj.fields[PH]),
                    changed=freeze({k: (v[:before_lists.get(k, len(v))] if isinstance(v, list) else v) for k, v in obj.fields.items()}) != before, decisions=list(it.decisions))

    table = {}
    for m in sorted(public, key=lambda x: x.name):
        for start in PHASES:
            try:
                paths = explore(lambda o: run_method(o, m, start))
            except Imprecise as e:
                raise AnchorError(f"abstract interpretation of {m.qual} from {start} is imprecise: {e}")
            total_paths += len(paths)
            table[(m.name, start)] = paths
            # the same method with observers that return or raise (A3): whatever they do, every phase write must still be an
            # edge of the automaton (an observer's exception may not undo or veto a transition)
            try:
                lpaths = explore(lambda o: run_method(o, m, start, {"on_phase_change": Unknown("on_phase_change"), "on_senescence": Unknown("on_senescence")}))
            except Imprecise as e:
                raise AnchorError(f"abstract interpretation of {m.qual} from {start} with observers is imprecise: {e}")
            total_paths += len(lpaths)
            edges = set()
            for _, r in list(paths) + list(lpaths):
                for ev in r["writes"]:
                    if ev[2] == PH:
                        a = ev[3].name if hasattr(ev[3], "name") else repr(ev[3])
                        b = ev[4].name if hasattr(ev[4], "name") else repr(ev[4])
                        edges.add((a, b))
            bad = sorted(e for e in edges if not legal(m.name, *e))
            key = f"Telomere.{m.name} ▸ from {start}"
            # becoming ACTIVE for the first time is *starting*: the clocks the time limits are measured from must be set on that path
            unstarted = []
            for _, r in paths:
                went_active = any(ev[2] == PH and getattr(ev[3], "name", None) == "NASCENT" and getattr(ev[4], "name", None) == "ACTIVE" for ev in r["writes"])
                if went_active and not any(ev[2] == STARTED and ev[4] is not None for ev in r["writes"]):
                    unstarted.append(r)
            if unstarted:
                led.fail("C09-R2", key + " ▸ NASCENT→ACTIVE starts the clocks", where(m, m.node),
                         f"{len(unstarted)} path(s) move a never-started lifecycle to ACTIVE without setting `{STARTED}`: the lifetime / idle limits are never enforced for it",
                         witness="Telomere(max_lifetime_hours=1).renew() before start(): ACTIVE with no start time; check_timeouts() never forces senescence")
            inv_broken = [r for _, r in paths if r["final"] in ("NASCENT", "ACTIVE") and not r["reason_none"] and not r["raised"]]
            if inv_broken:
                led.fail("C09-R2", key + " ▸ state invariant", where(m, m.node),
                         f"{len(inv_broken)} path(s) end in {inv_broken[0]['final']} with a senescence reason still recorded: the start-state invariant used by this analysis is not inductive")
            if bad:
                led.fail("C09-R2", key, where(m, m.node),
                         f"illegal transition(s) {[f'{a}→{b}' for a, b in bad]} reachable ({len(paths)} paths explored)",
                         witness="Telomere(error_threshold=1).record_error() before start() leaves the phase SENESCENT" if m.name == "record_error" else None)
            else:
                led.ok("C09-R2", key, where(m, m.node), f"{len(paths)} path(s); phase writes {sorted(f'{a}→{b}' for a, b in edges) or 'none'} ⊆ automaton",
                       nontrivial=bool(edges) or len(paths) > 1)
    led.extra["paths_explored"] = total_paths
    led.exhaustive = True

    # ---------------- R3 / R4 tick
    tick = p.find_method(tel, "tick")
    if tick is None:
        raise AnchorError("Telomere.tick not found")
    for start in ("APOPTOTIC", "TERMINATED"):
        paths = table[("tick", start)]
        key = f"Telomere.tick ▸ from {start}"
        # a call rejected for its arguments (an exception before anything is recorded) is not a tick either; a terminal
        # lifecycle that answers *every* tick with an exception does not "return"
        bad = [r for _, r in paths if r["changed"] or (not r["raised"] and r["ret"] is not False)]
        if not bad and all(r["raised"] for _, r in paths):
            bad = [r for _, r in paths]
        if bad:
            led.fail("C09-R3", key, where(tick, tick.node), f"a terminal lifecycle still ticks: {len(bad)}/{len(paths)} path(s) change state or do not return False; writes e.g. {[(w[2]) for w in bad[0]['writes']][:4]}")
        else:
            led.ok("C09-R3", key, where(tick, tick.node), f"{len(paths)} path(s): object snapshot unchanged, result False")
    for start in ("NASCENT", "ACTIVE", "SENESCENT"):
        paths = table[("tick", start)]
        key = f"Telomere.tick ▸ verdict from {start}"
        bad = [r for _, r in paths if not r["raised"] and (r["ret"] is True) != (r["final"] == "ACTIVE")]
        unk = [r for _, r in paths if not r["raised"] and not isinstance(r["ret"], bool)]
        if bad or unk:
            r0 = (bad or unk)[0]
            led.fail("C09-R4", key, where(tick, tick.node), f"tick returned {r0['ret']!r} with final phase {r0['final']} on {len(bad) + len(unk)}/{len(paths)} path(s)")
        else:
            led.ok("C09-R4", key, where(tick, tick.node), f"{len(paths)} path(s): result == (final phase is ACTIVE)")

    # ---------------- R5 clamps (semantic: every value written to the remaining length is provably in [0, max_operations])
    from ..fdai import Lin, LinInterp, entails
    writers = [m for m in tel.methods.values() if m.name != "__init__" and list(attr_writes(m.node, LEN, "self"))]
    init = tel.methods["__init__"]
    for k, n in attr_writes(init.node, LEN, "self"):
        v = n.value if isinstance(n, (ast.Assign, ast.AnnAssign)) else None
        key = f"{init.qual} ▸ {short(n, 60)}"
        if v is not None and isinstance(v, (ast.Name, ast.Attribute)) and "max_operations" in src(v):
            led.ok("C09-R5", key, where(init, n), "= max_operations")
        else:
            led.fail("C09-R5", key, where(init, n), "initial remaining length is not the configured maximum")
    for m in writers:
        params = [a for a in m.params() if a != "self"]
        probs, npaths, nwrites = [], 0, 0
        for start in PHASES:
            def go(o, _m=m, _start=start):
                it = LinInterp(p, o)
                mx, rem = Lin.sym("max_operations"), Lin.sym("remaining")
                obj = _new(it, _cfg(max_operations=mx))            # the configured maximum is the symbol the writes are compared with
                obj.fields[LEN] = rem
                obj.fields[PH] = it.enum_member(phase, _start)
                if _start in ("SENESCENT", "APOPTOTIC", "TERMINATED") and REASON in obj.fields:
                    obj.fields[REASON] = Unknown(REASON)
                for f in (ERR, OPS, STARTED, LASTACT, REN):
                    if f is not None and f in obj.fields:
                        obj.fields[f] = Unknown(f)
                it.assume(rem)
                it.assume(mx.add(rem, -1))
                args = []
                for a in params:
                    sym = Lin.sym(a)
                    it.assume(sym)          # A4: amounts and costs are non-negative integers
                    args.append(sym)
                it.events.clear()
                it.watch_fields = {("Telomere", LEN)}
                try:
                    it.call_fi(_m, [obj] + args, {})
                except PyRaise:
                    pass
                out = []
                for ev in it.events:
                    if ev[0] == "write" and ev[2] == LEN:
                        old, new_ = ev[3], ev[4]
                        nl = Lin.of(new_) if not isinstance(new_, Lin) else new_
                        ol = Lin.of(old) if not isinstance(old, Lin) else old
                        if nl is None:
                            out.append(("opaque", repr(new_)))
                            continue
                        lo = entails(it.facts, nl)
                        hi = entails(it.facts, mx.add(nl, -1))
                        dec = ol is not None and entails(it.facts, ol.add(nl, -1))
                        out.append(("w", repr(nl), lo, hi, dec))
                return out
            try:
                paths = explore(go, max_paths=4000)
            except Imprecise as e:
                raise AnchorError(f"affine interpretation of {m.qual} from {start} is imprecise: {e}")
            npaths += len(paths)
            for _, ws in paths:
                for w in ws:
                    nwrites += 1
                    if w[0] == "opaque":
                        probs.append(f"from {start}: writes an opaque value {w[1]}")
                    else:
                        if not w[2]:
                            probs.append(f"from {start}: writes {w[1]}, not provably ≥ 0")
                        if not w[3]:
                            probs.append(f"from {start}: writes {w[1]}, not provably ≤ max_operations")
                        if m.name == "tick" and not w[4]:
                            probs.append(f"from {start}: tick writes {w[1]}, which can exceed the previous remaining length")
        key = f"{m.qual} ▸ writes of the remaining length"
        if probs:
            led.fail("C09-R5", key, where(m, m.node), "; ".join(sorted(set(probs))[:3]))
        elif nwrites == 0:
            led.fail("C09-R5", key, where(m, m.node), "the method's length writes were never reached by the interpretation")
        else:
            led.ok("C09-R5", key, where(m, m.node), f"{nwrites} write(s) over {npaths} path(s) from all 5 phases: 0 ≤ value ≤ max_operations" + (" and value ≤ previous" if m.name == "tick" else "") + " (affine entailment)")

    # ---------------- R6 refusals and forced senescence
    renew = p.find_method(tel, "renew")
    if renew is None:
        raise AnchorError("Telomere.renew not found")
    for start in PHASES:
        paths = explore(lambda o: run_method(o, renew, start, {"allow_renewal": False}))
        bad = [r for _, r in paths if r["changed"] or (not r["raised"] and r["ret"] is not False)] or ([r for _, r in paths] if all(r["raised"] for _, r in paths) else [])
        key = f"Telomere.renew ▸ disallowed ▸ from {start}"
        if bad:
            led.fail("C09-R6", key, where(renew, renew.node), f"with allow_renewal=False renew still changes state or reports success on {len(bad)}/{len(paths)} path(s)")
        else:
            led.ok("C09-R6", key, where(renew, renew.node), f"{len(paths)} path(s): nothing written, False returned")
    paths = table[("renew", "TERMINATED")]
    bad = [r for _, r in paths if r["changed"] or (not r["raised"] and r["ret"] is not False)] or ([r for _, r in paths] if all(r["raised"] for _, r in paths) else [])
    key = "Telomere.renew ▸ from TERMINATED"
    if bad:
        led.fail("C09-R6", key, where(renew, renew.node), f"a terminated lifecycle is renewed on {len(bad)}/{len(paths)} path(s)")
    else:
        led.ok("C09-R6", key, where(renew, renew.node), f"{len(paths)} path(s): nothing written, False returned")
    # a limit changed on a running lifecycle through the public attribute the constructor stored it in is the limit from
    # then on (nothing is snapshotted at construction)
    init_ = tel.methods["__init__"]
    pub = {}
    for n_ in walk_no_nested(init_.node):
        if isinstance(n_, ast.Assign) and len(n_.targets) == 1 and is_self_attr(n_.targets[0]) and not n_.targets[0].attr.startswith("_"):
            for cfgname in ("max_lifetime_hours", "idle_timeout_minutes"):
                if any(isinstance(x, ast.Name) and x.id == cfgname for x in ast.walk(n_.value)):
                    pub[cfgname] = n_.targets[0].attr
    chk = p.find_method(tel, "check_timeouts")
    for cfgname, attr in sorted(pub.items()):
        key = f"Telomere.check_timeouts ▸ `{attr}` reassigned on a running lifecycle is the limit that is enforced"
        def go_l(o, _attr=attr):
            it, obj = make(o, "ACTIVE")
            try:
                it.set_attr(obj, _attr, Unknown(_attr + "′"))
            except PyRaise:
                raise SkipPath("the setter rejects the new limit")
            it.decisions.clear()
            try:
                it.call_fi(chk, [obj], {})
            except PyRaise:
                pass
            return [d[2] for d in it.decisions if isinstance(d[2], str)]
        try:
            lp = [r for _, r in explore(go_l, max_paths=400)]
        except Imprecise as e:
            raise AnchorError(f"check_timeouts after a limit change could not be interpreted: {e}")
        new_seen = any((attr + "′") in d for r in lp for d in r)
        old_seen = any(cfgname in d and (attr + "′") not in d for r in lp for d in r)
        if lp and not new_seen:
            led.fail("C09-R6", key, where(chk, chk.node), f"after `lifecycle.{attr} = …` no path of check_timeouts looks at the new value" + (f" (the value given to the constructor, `{cfgname}`, is still compared)" if old_seen else "") + ": the time limit no longer forces senescence",
                     witness=f"t.{attr} = timedelta(hours=1) on a running agent, clock +2 h: check_timeouts() is True, the agent stays ACTIVE")
        elif lp:
            led.ok("C09-R6", key, where(chk, chk.node), f"{len(lp)} path(s): the reassigned value is the one compared")
    limits = [("record_error", (ERR, "error_threshold"), "error limit"), ("check_timeouts", (STARTED, "max_lifetime_hours"), "lifetime limit"),
              ("check_timeouts", (LASTACT, "idle_timeout_minutes"), "idle limit")]
    for mname, (a_n, b_n), what in limits:
        needle = b_n
        paths = table[(mname, "ACTIVE")]
        hit = [r for _, r in paths if any(cmp_outcome(d, a_n, b_n) in ("ge", "gt") for d in r["decisions"])]
        key = f"Telomere.{mname} ▸ {what} reached ▸ from ACTIVE"
        m = p.find_method(tel, mname)
        if not hit:
            led.fail("C09-R6", key, where(m, m.node), f"no path tests the {what} (`{needle}` comparison vanished)")
            continue
        bad = [r for r in hit if r["final"] != "SENESCENT"]
        # the quantity compared with a time limit is the whole elapsed time: a timedelta's `.seconds` / `.microseconds`
        # component alone drops the days (and wraps), so the limit stops firing after 24 h
        import re as _re
        trunc = [d[2] for r in hit for d in r["decisions"] if cmp_outcome(d, a_n, b_n) and _re.search(r"(?<!total_)\.(seconds|microseconds)\b(?!\()", d[2]) and ".days" not in d[2]]
        if trunc and "timeouts" in mname:
            led.fail("C09-R6", key, where(m, m.node), f"the {what} is compared with a component of the elapsed time, not the elapsed time: `{trunc[0][:160]}` ignores whole days",
                     witness="max_lifetime_hours=1, clock advanced by 1 day 10 minutes: still ACTIVE and ticking")
        elif bad:
            led.fail("C09-R6", key, where(m, m.node), f"{len(bad)}/{len(hit)} path(s) on which the {what} test held end in phase {bad[0]['final']}, not SENESCENT")
        else:
            led.ok("C09-R6", key, where(m, m.node), f"{len(hit)} path(s) on which the limit test held all end SENESCENT")


