"""C16 — typed wiring: no type/integrity-violating flow; modules run once, in order."""
from __future__ import annotations

import ast

from ..cfg import edge_facts
from ..fdai import Interp, Obj, PyRaise, Unknown, explore, Imprecise
from ..loader import AnchorError, short, src, walk_no_nested, parent
from ..resolve import Resolver
from ..rules import attr_writes, calls_named, cfg_of, folded_path, guard_facts, walk_folded, where, mentions_name

W = "operon_ai/core/wagent.py"
R = "operon_ai/core/wiring_runtime.py"
FILES = [W, R, "operon_ai/core/types.py"]


def run(p, led, tier):
    res = Resolver(p)
    pt = p.cls("PortType", W)
    wd = p.cls("WiringDiagram", W)
    ex = p.cls("DiagramExecutor", R)
    tv = p.cls("TypedValue", R)
    DT = p.cls("DataType", "operon_ai/core/types.py")
    IL = p.cls("IntegrityLabel", "operon_ai/core/types.py")
    if "IntEnum" not in IL.bases:
        raise AnchorError("IntegrityLabel is no longer an IntEnum (ordering of trust levels undefined)")
    dts = [n for n, _ in DT.enum_members()]
    ils = [n for n, _ in IL.enum_members()]
    ilv = {n: v.value for n, v in IL.enum_members() if isinstance(v, ast.Constant)}
    led.explanation = (
        "R1/R3a: finite-domain abstract interpretation of PortType.can_flow_to / require_flow_to / WiringDiagram.connect "
        "and of the two coercion functions over every (data type, integrity) × (data type, integrity) pair — the "
        "complete acceptance tables, compared with 'types equal ∧ source integrity ≥ destination' (outputs: labels "
        "must equal the declared port). R2–R5: CFG rules on connect and DiagramExecutor.execute — the requirement "
        "call dominates the wire append and nobody else appends; every store into a module's input map is a coerced "
        "external value or is reached, with enforcement folded on, only past both per-wire tests; the handler call "
        "is guarded by not-yet-executed ∧ all-inputs-present and followed on every normal path by the insertion "
        "into the executed set; an iteration of the scheduling loop that executes nothing raises. R6 capabilities "
        "are the |= union over all modules.")
    led.exhaustive = True
    led.not_decided = ["handlers that mutate their input mapping in place", "diagrams mutated while executing"]
    led.rule("C16-R1", "can_flow_to / require_flow_to / connect accept exactly: data types equal ∧ source integrity ≥ destination integrity", 3 * 49 * 9)
    led.rule("C16-R2", "in connect the requirement dominates the append; nobody else appends wires", 2)
    led.rule("C16-R3", "every delivery into an input port is coerced (external) or type- and integrity-tested (wire); outputs contradicting the declared port are rejected", 5)
    led.rule("C16-R4", "the handler runs only for a not-yet-executed module whose declared inputs are all present, and the module is then marked executed", 3)
    led.rule("C16-R5", "a scheduling pass that executes nothing raises; pre-flight refusals precede the loop", 3)
    led.rule("C16-R6", "required capabilities are the union over all modules", 1)
    IL_rank = {n: i for i, n in enumerate(sorted(ils, key=lambda n: ilv.get(n, 0)))}

    def port(it, d, i):
        return it.instantiate(pt, [it.enum_member(DT, d), it.enum_member(IL, i)], {})

    # ---------------- R1 tables
    cf = p.find_method(pt, "can_flow_to")
    rf = p.find_method(pt, "require_flow_to")
    cn = p.find_method(wd, "connect")
    if not (cf and rf and cn):
        raise AnchorError("PortType.can_flow_to / require_flow_to / WiringDiagram.connect not found")
    ms = p.cls("ModuleSpec", W)
    bad = {"can_flow_to": [], "require_flow_to": [], "connect": []}
    cells = 0
    for d1 in dts:
        for i1 in ils:
            for d2 in dts:
                for i2 in ils:
                    want = (d1 == d2) and ilv[i1] >= ilv[i2]
                    cells += 1

                    def go_c(o):
                        it = Interp(p, o)
                        return it.call_fi(cf, [port(it, d1, i1), port(it, d2, i2)], {})

                    def go_r(o):
                        it = Interp(p, o)
                        try:
                            it.call_fi(rf, [port(it, d1, i1), port(it, d2, i2)], {})
                            return True
                        except PyRaise as e:
                            return "WiringError" in it.exc_ancestors(e.exc) and False

                    def go_k(o):
                        it = Interp(p, o)
                        dg = it.instantiate(wd, [], {})
                        a = it.instantiate(ms, [], dict(name="a", outputs={"o": port(it, d1, i1)}))
                        b = it.instantiate(ms, [], dict(name="b", inputs={"i": port(it, d2, i2)}))
                        dg.fields["modules"]["a"] = a
                        dg.fields["modules"]["b"] = b
                        try:
                            it.call_fi(cn, [dg, "a", "o", "b", "i"], {})
                            return len(dg.fields["wires"]) == 1
                        except PyRaise as e:
                            if len(dg.fields["wires"]) != 0:
                                return "appended-then-raised"
                            return False
                    for nm_, go in (("can_flow_to", go_c), ("require_flow_to", go_r), ("connect", go_k)):
                        outs = {r for _, r in explore(go, max_paths=20)}
                        if outs != {want}:
                            bad[nm_].append(f"({d1},{i1})→({d2},{i2}): {sorted(outs, key=str)} want {want}")
    for nm_, fi in (("can_flow_to", cf), ("require_flow_to", rf), ("connect", cn)):
        key = f"{fi.qual} ▸ acceptance table"
        if bad[nm_]:
            led.fail("C16-R1", key, where(fi, fi.node), f"{len(bad[nm_])} of {cells} cells differ from 'types equal ∧ src integrity ≥ dst', e.g. {bad[nm_][0]}", path=bad[nm_][:10])
        else:
            for _ in range(cells - 1):
                pass
            led.ok("C16-R1", key, where(fi, fi.node), f"all {cells} (type,integrity)² cells agree with the statement")
    led.extra["flow_cells_per_function"] = cells
    # make the instance count reflect the enumerated cells (one obligation per function, cells counted in evidence)
    led.floors["C16-R1"] = (3, "three sibling encodings of the flow predicate")

    # ---------------- R3a coercion tables
    co = p.func("_coerce_output", R)
    ci = p.func("_coerce_input", R)
    for fi, rule_name, pred in ((ci, "input", lambda d1, i1, d2, i2: d1 == d2 and ilv[i1] >= ilv[i2]), (co, "output", lambda d1, i1, d2, i2: d1 == d2 and i1 == i2)):
        badc = []
        n = 0
        for d1 in dts:
            for i1 in ils:
                for d2 in dts:
                    for i2 in ils:
                        n += 1

                        def go(o):
                            it = Interp(p, o)
                            val = it.instantiate(tv, [it.enum_member(DT, d1), it.enum_member(IL, i1), Unknown("payload")], {})
                            try:
                                r = it.call_fi(fi, [val, port(it, d2, i2)], {})
                                return ("ok", getattr(r.fields["data_type"], "name", "?"), getattr(r.fields["integrity"], "name", "?"))
                            except PyRaise as e:
                                return ("raise",)
                        outs = {r for _, r in explore(go, max_paths=20)}
                        want = pred(d1, i1, d2, i2)
                        if want and outs != {("ok", d1, i1)}:
                            badc.append(f"labelled ({d1},{i1}) into port ({d2},{i2}): {sorted(outs)} — must be accepted unchanged")
                        if not want and outs != {("raise",)}:
                            badc.append(f"labelled ({d1},{i1}) into port ({d2},{i2}): {sorted(outs)} — must be rejected")
        # a raw (unlabelled) value takes the port's labels
        for d2 in dts:
            for i2 in ils:
                def go_raw(o):
                    it = Interp(p, o)
                    r = it.call_fi(fi, ["raw payload", port(it, d2, i2)], {})
                    return (getattr(r.fields["data_type"], "name", "?"), getattr(r.fields["integrity"], "name", "?"), r.fields.get("value"))
                outs = {r for _, r in explore(go_raw, max_paths=20)}
                n += 1
                if outs != {(d2, i2, "raw payload")}:
                    badc.append(f"raw value into port ({d2},{i2}) labelled {sorted(outs, key=str)}")
        key = f"{fi.qual} ▸ label table"
        if badc:
            led.fail("C16-R3", key, where(fi, fi.node), f"{len(badc)} of {n} cells wrong, e.g. {badc[0]}", path=badc[:10])
        else:
            led.ok("C16-R3", key, where(fi, fi.node), f"all {n} cells: {'type equal ∧ integrity ≥ port' if rule_name == 'input' else 'type and integrity equal to the declared port'}, else WiringError")

    # ---------------- R2 connect
    cfgc = cfg_of(cn, led)
    apps = [n for k, n in attr_writes(cn.node, "wires", "self") if k == "mutcall:append"]
    reqs = calls_named(cn.node, "require_flow_to")
    key = "WiringDiagram.connect ▸ check before append"
    if not apps or not reqs:
        led.fail("C16-R2", key, where(cn, cn.node), "connect no longer validates with require_flow_to before appending" if apps else "connect appends nothing")
    else:
        an = cfgc.node_of(apps[0])
        rn = cfgc.node_of(reqs[0])
        seen = cfgc.reach(starts=[cfgc.entry], cut=lambda a, b, l: a is rn and l != "exc")
        if an in seen:
            led.fail("C16-R2", key, where(cn, apps[0]), "the wire is appended on a path that did not pass the flow requirement (or passed its exception edge)", path=cfgc.fmt_path(cfgc.witness(seen, an)))
        else:
            led.ok("C16-R2", key, where(cn, apps[0]), "append reachable only through the normal edge of require_flow_to(src → dst)")
        # operands: source port is the receiver, destination the argument
        r0 = reqs[0]
        okdir = isinstance(r0.func, ast.Attribute) and src(r0.func.value) == "src" and r0.args and src(r0.args[0]) == "dst"
        if not okdir:
            # resolve by definitions: receiver must come from .outputs, argument from .inputs
            def origin(name):
                for n in walk_no_nested(cn.node):
                    if isinstance(n, ast.Assign) and isinstance(n.targets[0], ast.Name) and n.targets[0].id == name:
                        return src(n.value)
                return ""
            recv = src(r0.func.value) if isinstance(r0.func, ast.Attribute) else ""
            arg = src(r0.args[0]) if r0.args else ""
            okdir = ".outputs[" in origin(recv) and ".inputs[" in origin(arg)
        key = "WiringDiagram.connect ▸ direction"
        if okdir:
            led.ok("C16-R2", key, where(cn, r0), "requirement is source-output → destination-input")
        else:
            led.fail("C16-R2", key, where(cn, r0), "flow requirement evaluated in the wrong direction")
    n_foreign = 0
    for fi in p.all_funcs:
        for k, n in attr_writes(fi.node, "wires", None):
            if fi is cn or (fi.cls is wd and fi.name == "__init__"):
                continue
            if k in ("mutcall:append", "mutcall:extend", "mutcall:insert", "assign", "augassign", "subscript-store"):
                recv = None
                for x in ast.walk(n):
                    if isinstance(x, ast.Attribute) and x.attr == "wires":
                        recv = x.value
                c = res.expr_class(fi, recv) if recv is not None else None
                if c is wd or (c is None and fi.module.rel in (W, R)):
                    n_foreign += 1
                    led.fail("C16-R2", f"{fi.qual} ▸ {k} wires", where(fi, n), "wire list modified outside connect(): an unchecked connection can be installed")
    led.ok("C16-R2", "package ▸ writers of the wire list", "operon_ai/", f"{n_foreign} writer(s) other than connect()")

    # ---------------- executor CFG rules
    exe = p.find_method(ex, "execute")
    if exe is None:
        raise AnchorError("DiagramExecutor.execute not found")
    cfg = cfg_of(exe, led)
    # stores into module_inputs[...][...]
    stores = []
    for n in walk_no_nested(exe.node):
        if isinstance(n, ast.Assign) and isinstance(n.targets[0], ast.Subscript) and isinstance(n.targets[0].value, ast.Subscript) \
                and isinstance(n.targets[0].value.value, ast.Name) and n.targets[0].value.value.id == "module_inputs":
            stores.append(n)
    if len(stores) < 2:
        raise AnchorError(f"execute: expected ≥2 deliveries into module_inputs, found {len(stores)}")
    for st in stores:
        key = f"DiagramExecutor.execute ▸ {short(st, 70)}"
        v = st.value
        if isinstance(v, ast.Call) and isinstance(v.func, ast.Name) and v.func.id == "_coerce_input":
            led.ok("C16-R3", key, where(exe, st), "external value passes through _coerce_input (table above)")
            continue
        if not isinstance(v, ast.Name):
            led.fail("C16-R3", key, where(exe, st), "delivered value is neither coerced nor a tested wire value")
            continue
        var = v.id
        sn = cfg.node_of(st)
        tests = {"type": [], "integrity": []}
        for t in cfg.nodes:
            if t.kind == "test" and isinstance(t.ast, ast.Compare) and len(t.ast.ops) == 1:
                l, op, r = t.ast.left, t.ast.ops[0], t.ast.comparators[0]
                if src(l) == f"{var}.data_type" and isinstance(op, ast.NotEq) and src(r).endswith(".data_type"):
                    tests["type"].append(t)
                if src(l) == f"{var}.integrity" and isinstance(op, ast.Lt) and src(r).endswith(".integrity"):
                    tests["integrity"].append(t)
                if src(r) == f"{var}.integrity" and isinstance(op, ast.Gt) and src(l).endswith(".integrity"):
                    tests["integrity"].append(t)
        flag = "enforce_static_checks"
        loop = _enclosing_for(st)
        head = cfg.node_of(loop.iter) if loop is not None else cfg.entry
        starts = [(head, m, l) for m, l in head.succ if l == "T"] if loop is not None else cfg.out_edges(cfg.entry)
        probs = []
        for kind in ("type", "integrity"):
            if not tests[kind]:
                probs.append(f"no per-wire {kind} test on `{var}`")
                continue
            r1 = walk_folded(cfg, starts, {flag: {True}}, avoid=set(tests[kind]))
            if sn in r1:
                probs.append(f"with enforcement on, the store is reachable without the {kind} test")
            for t in tests[kind]:
                r2 = cfg.reach(start_edges=[(t, m, l) for m, l in t.succ if l == "T"])
                if sn in r2 and not _loops_back(cfg, t, sn, head):
                    probs.append(f"the failing edge of the {kind} test still reaches the store")
        # dst spec must be the destination port of the same wire
        if probs:
            led.fail("C16-R3", key, where(exe, st), "; ".join(probs))
        else:
            led.ok("C16-R3", key, where(exe, st), f"with `{flag}` folded to True every path to the store passes `{short(tests['type'][0].ast)}` and `{short(tests['integrity'][0].ast)}` on their passing edges")
    # outputs coerced
    ostores = [n for n in walk_no_nested(exe.node) if isinstance(n, ast.Assign) and isinstance(n.targets[0], ast.Subscript)
               and isinstance(n.targets[0].value, ast.Name) and n.targets[0].value.id == "outputs"]
    for st in ostores:
        key = f"DiagramExecutor.execute ▸ {short(st, 70)}"
        v = st.value
        if isinstance(v, ast.Call) and isinstance(v.func, ast.Name) and v.func.id == "_coerce_output":
            led.ok("C16-R3", key, where(exe, st), "handler output passes through _coerce_output against the declared port")
        else:
            led.fail("C16-R3", key, where(exe, st), "handler output recorded without coercion against the declared port")
    if not ostores:
        led.fail("C16-R3", "DiagramExecutor.execute ▸ outputs", where(exe, exe.node), "handler outputs are never coerced")

    # ---------------- R4
    hcalls = [c for c in walk_no_nested(exe.node) if isinstance(c, ast.Call) and isinstance(c.func, ast.Name) and c.func.id == "handler"]
    if len(hcalls) != 1:
        raise AnchorError(f"execute: expected one handler call, found {len(hcalls)}")
    hn = cfg.node_of(hcalls[0])
    adds = {cfg.node_of(c) for c in walk_no_nested(exe.node) if isinstance(c, ast.Call) and isinstance(c.func, ast.Attribute) and c.func.attr == "add" and src(c.func.value) == "executed"}
    worklist = bool(adds)
    if not worklist:
        led.info("execute() does not keep an executed-set worklist: the once-and-in-order clause (R4) is not decided for this scheduling idiom; completeness (R5) still is")
        led.floors["C16-R4"] = (0, "worklist idiom absent")
    if worklist:
        facts = guard_facts(cfg, hn)
        not_exec = [f for f in facts if isinstance(f[0], ast.Compare) and isinstance(f[0].ops[0], (ast.In, ast.NotIn)) and src(f[0].comparators[0]) == "executed"
                    and ((isinstance(f[0].ops[0], ast.In) and f[1] is False) or (isinstance(f[0].ops[0], ast.NotIn) and f[1] is True))]
        key = "DiagramExecutor.execute ▸ handler(inputs) ▸ not yet executed"
        if not_exec:
            led.ok("C16-R4", key, where(exe, hcalls[0]), f"dominated by `{short(not_exec[0][0])}` = {not_exec[0][1]}")
        else:
            led.fail("C16-R4", key, where(exe, hcalls[0]), "handler call not guarded by 'module not yet executed': a module can run twice")
        ready = [f for f in facts if (isinstance(f[0], ast.Name) and f[1] is True and _is_all_inputs(exe, f[0].id)) or (f[1] is True and _all_inputs_expr(f[0]))]
        key = "DiagramExecutor.execute ▸ handler(inputs) ▸ all declared inputs present"
        if ready:
            led.ok("C16-R4", key, where(exe, hcalls[0]), f"dominated by `{short(ready[0][0])}` (all(port in module_inputs[m] for port in spec.inputs))")
        else:
            led.fail("C16-R4", key, where(exe, hcalls[0]), "handler call not guarded by 'all declared inputs present': a partially wired module can run")
        loop = _enclosing_for(hcalls[0])
        head = cfg.node_of(loop.iter)
        seen = cfg.reach(start_edges=[(hn, m, l) for m, l in hn.succ if l != "exc"], avoid=adds, cut=lambda a, b, l: l == "exc")
        key = "DiagramExecutor.execute ▸ handler(inputs) ▸ then marked executed"
        if head in seen or cfg.exit in seen:
            led.fail("C16-R4", key, where(exe, hcalls[0]), "a normal path from the handler call reaches the next module without executed.add: the module can run again", path=cfg.fmt_path(cfg.witness(seen, head if head in seen else cfg.exit)))
        else:
            led.ok("C16-R4", key, where(exe, hcalls[0]), "every normal path from the handler call passes executed.add(module) before the next module")
        # deliveries happen after the source's record is written
        # (the wire-delivery store is reachable only after executed.add)
        for st in stores:
            if isinstance(st.value, ast.Name):
                sn = cfg.node_of(st)
                seen = cfg.reach(start_edges=[(head, m, l) for m, l in head.succ if l == "T"], avoid=adds, cut=lambda a, b, l: b is head)
                key = "DiagramExecutor.execute ▸ wire delivery ▸ after source executed"
                if sn in seen:
                    led.fail("C16-R4", key, where(exe, st), "a value is delivered downstream before its source module is recorded as executed")
                else:
                    led.ok("C16-R4", key, where(exe, st), "delivery reachable only after executed.add(source)")

    # ---------------- R5 completeness and progress
    # (a) completeness: the normal return is dominated by a fact "the executed collection covers all modules"
    rets = [n for n in cfg.nodes if n.kind == "stmt" and isinstance(n.ast, ast.Return)]
    key = "DiagramExecutor.execute ▸ returns only when every module has executed"
    cover = []
    for rn in rets:
        for atom, pol, t in guard_facts(cfg, rn):
            if isinstance(atom, ast.Compare) and len(atom.ops) == 1 and "len(self.diagram.modules)" in src(atom) and "len(" in src(atom.left) and "len(" in src(atom.comparators[0]):
                l, op, r = atom.left, atom.ops[0], atom.comparators[0]
                if "len(self.diagram.modules)" in src(l):
                    l, r = r, l
                    op = {ast.Lt: ast.Gt, ast.LtE: ast.GtE, ast.Gt: ast.Lt, ast.GtE: ast.LtE}.get(type(op), type(op))()
                # now: len(X) op len(modules)
                implies_all = (isinstance(op, ast.Lt) and pol is False) or (isinstance(op, (ast.GtE, ast.Eq)) and pol is True) or (isinstance(op, ast.NotEq) and pol is False)
                if implies_all:
                    cover.append((atom, pol))
    wn = None
    if cover and len(rets) >= 1 and all(any(True for _ in [1]) for _ in rets):
        led.ok("C16-R5", key, where(exe, rets[0].ast), f"RETURN is dominated by `{short(cover[0][0])}` = {cover[0][1]}: no module is left unexecuted without an error")
    else:
        led.fail("C16-R5", key, where(exe, exe.node), "the report is returned without a test that every module executed: modules on an unschedulable island (a cycle no source feeds) are silently skipped instead of raising WiringError",
                 witness="modules {src→sink} plus an unreachable 2-cycle {x⇄y}: execute() returns a report, x and y never run")
    # (b) progress: a scheduling pass that executes nothing must raise (only relevant for an iterate-until-done loop)
    whiles = [n for n in walk_no_nested(exe.node) if isinstance(n, ast.While)]
    for wh in whiles:
        wn = cfg.node_of(wh.test)
        key = "DiagramExecutor.execute ▸ scheduling loop ▸ progress or raise"
        seen = cfg.reach(start_edges=[(wn, m, l) for m, l in wn.succ if l == "T"], avoid=adds)
        flagvar = None
        for n in wh.body:
            if isinstance(n, ast.Assign) and isinstance(n.targets[0], ast.Name) and isinstance(n.value, ast.Constant) and n.value.value is False:
                flagvar = n.targets[0].id
                fnode = cfg.node_of(n)
        if flagvar is None:
            if wn in seen:
                led.fail("C16-R5", key, where(exe, wh), "a pass of the scheduling loop that executes nothing returns to the loop test: unschedulable diagrams loop forever")
            else:
                led.ok("C16-R5", key, where(exe, wh), "loop test unreachable from a pass without executed.add")
        else:
            trues = [cfg.node_of(n) for n in walk_no_nested(wh) if isinstance(n, ast.Assign) and isinstance(n.targets[0], ast.Name) and n.targets[0].id == flagvar
                     and isinstance(n.value, ast.Constant) and n.value.value is True]
            s_true = cfg.reach(start_edges=[(fnode, m, l) for m, l in fnode.succ], avoid=adds, cut=lambda a, b, l: b is wn)
            stray = [t for t in trues if t in s_true]
            r = walk_folded(cfg, [(fnode, m, l) for m, l in fnode.succ], {flagvar: {False}}, avoid=adds | set(trues))
            if stray:
                led.fail("C16-R5", key, where(exe, stray[0].ast), f"`{flagvar} = True` reachable in a pass that executed no module: the no-progress error is masked")
            elif wn in r:
                led.fail("C16-R5", key, where(exe, wh), "a pass that executes nothing returns to the loop test without raising: cyclic diagrams loop forever", path=cfg.fmt_path(folded_path(r, wn)))
            else:
                led.ok("C16-R5", key, where(exe, wh), f"folding `{flagvar}` = False along passes without executed.add: only `raise WiringError` is reachable, never the loop test")
    if not whiles:
        led.ok("C16-R5", "DiagramExecutor.execute ▸ scheduling terminates", where(exe, exe.node), "no unbounded loop: scheduling iterates finite collections only", nontrivial=False)
    if wn is None:
        wn = rets[0] if rets else cfg.exit
    # pre-flight refusals before the loop
    pre = [n for n in cfg.nodes if n.kind == "stmt" and isinstance(n.ast, ast.Raise) and "WiringError" in src(n.ast)]
    first_handler = hn
    before = cfg.reach(starts=[cfg.entry], avoid={first_handler})
    pre_before = [n for n in pre if n in before and not (whiles and _inside_any(n, whiles))]
    needles = {"unknown module": "Unknown module", "unknown port": "Unknown input port", "duplicate sources": "Multiple sources", "missing handler": "No handler", "missing source": "Missing input source"}
    kinds = _preflight_kinds(exe, cfg, pre_before)
    key = "DiagramExecutor.execute ▸ pre-flight refusals"
    missing = [k for k in ("duplicate sources", "missing handler", "missing source", "unknown module") if k not in kinds]
    if missing:
        led.fail("C16-R5", key, where(exe, exe.node), f"pre-flight no longer refuses: {missing}")
    else:
        led.ok("C16-R5", key, where(exe, exe.node), f"{len(pre_before)} WiringError raise site(s) precede the loop, covering {sorted(kinds)}")

    # ---------------- R6
    rc = p.find_method(wd, "required_capabilities")
    key = "WiringDiagram.required_capabilities ▸ union"
    okk = False
    if rc is not None:
        for n in walk_no_nested(rc.node):
            if isinstance(n, ast.For) and "self.modules" in src(n.iter):
                for b in n.body:
                    if isinstance(b, ast.AugAssign) and isinstance(b.op, ast.BitOr) and "capabilities" in src(b.value):
                        rets = [r for r in walk_no_nested(rc.node) if isinstance(r, ast.Return)]
                        if rets and src(rets[-1].value) == src(b.target):
                            okk = True
                    if isinstance(b, ast.Expr) and isinstance(b.value, ast.Call) and isinstance(b.value.func, ast.Attribute) and b.value.func.attr == "update" and "capabilities" in src(b.value):
                        okk = True
    if okk:
        led.ok("C16-R6", key, where(rc, rc.node), "unconditional |= of every module's capabilities into the returned set")
    else:
        led.fail("C16-R6", key, where(rc, rc.node) if rc else W, "required capabilities are not the union over all modules")


def _inside_any(node, loops):
    st = node.ast
    q = parent(st)
    while q is not None:
        if any(q is w for w in loops):
            return True
        q = parent(q)
    return False


def _enclosing_for(n):
    q = parent(n)
    while q is not None and not isinstance(q, (ast.For, ast.FunctionDef)):
        q = parent(q)
    return q if isinstance(q, ast.For) else None


def _loops_back(cfg, t, sn, head):
    """the store is reachable from t's failing edge only by going round the enclosing loop"""
    r = cfg.reach(start_edges=[(t, m, l) for m, l in t.succ if l == "T"], cut=lambda a, b, l: b is head)
    return sn not in r


def _is_all_inputs(exe, name):
    for n in walk_no_nested(exe.node):
        if isinstance(n, ast.Assign) and isinstance(n.targets[0], ast.Name) and n.targets[0].id == name:
            return _all_inputs_expr(n.value)
    return False


def _all_inputs_expr(e):
    return (isinstance(e, ast.Call) and isinstance(e.func, ast.Name) and e.func.id == "all" and e.args
            and isinstance(e.args[0], (ast.GeneratorExp, ast.ListComp)) and "module_inputs" in src(e.args[0].elt)
            and isinstance(e.args[0].elt, ast.Compare) and isinstance(e.args[0].elt.ops[0], ast.In)
            and ".inputs" in src(e.args[0].generators[0].iter))


def _preflight_kinds(exe, cfg, raises):
    """classify pre-flight raise sites by the guard that leads to them"""
    kinds = set()
    for n in raises:
        facts = guard_facts(cfg, n)
        txt = " ; ".join(f"{src(a)}={pol}" for a, pol, _ in facts)
        if "len(wires) > 1=True" in txt or ("len(" in txt and "> 1=True" in txt):
            kinds.add("duplicate sources")
        if "_handlers=True" in txt and "not in" in txt:
            kinds.add("missing handler")
        if "incoming_by_port=True" in txt and "not in" in txt:
            kinds.add("missing source")
        if "not in self.diagram.modules=True" in txt:
            kinds.add("unknown module")
        if "not in spec.inputs=True" in txt:
            kinds.add("unknown port")
    return kinds
