"""C16 — typed wiring: no type/integrity-violating flow; modules run once, in order."""
from __future__ import annotations

import ast

from ..cfg import edge_facts
from ..fdai import Interp, Obj, PyRaise, Unknown, explore, Imprecise
from ..loader import AnchorError, short, src, walk_no_nested, parent
from ..resolve import Resolver
from ..rules import attr_writes, calls_named, cfg_of, folded_path, guard_facts, walk_folded, where, mentions_name

W = "operon_ai/core/wagent.py"
R = "operon_ai/core/wiring_runtime.py"
FILES = [W, R, "operon_ai/core/types.py"]


def run(p, led, tier):
    res = Resolver(p)
    pt = p.cls("PortType", W)
    wd = p.cls("WiringDiagram", W)
    ex = p.cls("DiagramExecutor", R)
    tv = p.cls("TypedValue", R)
    DT = p.cls("DataType", "operon_ai/core/types.py")
    IL = p.cls("IntegrityLabel", "operon_ai/core/types.py")
    if "IntEnum" not in IL.bases:
        raise AnchorError("IntegrityLabel is no longer an IntEnum (ordering of trust levels undefined)")
    dts = [n for n, _ in DT.enum_members()]
    ils = [n for n, _ in IL.enum_members()]
    ilv = {n: v.value for n, v in IL.enum_members() if isinstance(v, ast.Constant)}
    led.explanation = (
        "R1/R3a: finite-domain abstract interpretation of PortType.can_flow_to / require_flow_to / WiringDiagram.connect "
        "and of the two coercion functions over every (data type, integrity) × (data type, integrity) pair — the "
        "complete acceptance tables, compared with 'types equal ∧ source integrity ≥ destination' (outputs: labels "
        "must equal the declared port). R2–R5: CFG rules on connect and DiagramExecutor.execute — the requirement "
        "call dominates the wire append and nobody else appends; every store into a module's input map is a coerced "
        "external value or is reached, with enforcement folded on, only past both per-wire tests; the handler call "
        "is guarded by not-yet-executed ∧ all-inputs-present and followed on every normal path by the insertion "
        "into the executed set; an iteration of the scheduling loop that executes nothing raises. R6 capabilities "
        "are the |= union over all modules.")
    led.exhaustive = True
    led.not_decided = ["handlers that mutate their input mapping in place", "diagrams mutated while executing"]
    led.rule("C16-R1", "can_flow_to / require_flow_to / connect accept exactly: data types equal ∧ source integrity ≥ destination integrity", 3 * 49 * 9)
    led.rule("C16-R2", "in connect the requirement dominates the append; nobody else appends wires", 2)
    led.rule("C16-R3", "every delivery into an input port is coerced (external) or type- and integrity-tested (wire); outputs contradicting the declared port are rejected", 5)
    led.rule("C16-R4", "the handler runs only for a not-yet-executed module whose declared inputs are all present, and the module is then marked executed", 3)
    led.rule("C16-R5", "a scheduling pass that executes nothing raises; pre-flight refusals precede the loop", 3)
    led.rule("C16-R6", "required capabilities are the union over all modules", 1)
    IL_rank = {n: i for i, n in enumerate(sorted(ils, key=lambda n: ilv.get(n, 0)))}

    def port(it, d, i):
        return it.instantiate(pt, [it.enum_member(DT, d), it.enum_member(IL, i)], {})

    # ---------------- R1 tables
    cf = p.find_method(pt, "can_flow_to")
    rf = p.find_method(pt, "require_flow_to")
    cn = p.find_method(wd, "connect")
    if not (cf and rf and cn):
        raise AnchorError("PortType.can_flow_to / require_flow_to / WiringDiagram.connect not found")
    ms = p.cls("ModuleSpec", W)
    bad = {"can_flow_to": [], "require_flow_to": [], "connect": []}
    cells = 0
    for d1 in dts:
        for i1 in ils:
            for d2 in dts:
                for i2 in ils:
                    want = (d1 == d2) and ilv[i1] >= ilv[i2]
                    cells += 1

                    def go_c(o):
                        it = Interp(p, o)
                        return it.call_fi(cf, [port(it, d1, i1), port(it, d2, i2)], {})

                    def go_r(o):
                        it = Interp(p, o)
                        try:
                            it.call_fi(rf, [port(it, d1, i1), port(it, d2, i2)], {})
                            return True
                        except PyRaise as e:
                            return "WiringError" in it.exc_ancestors(e.exc) and False

                    def go_k(o):
                        it = Interp(p, o)
                        dg = it.instantiate(wd, [], {})
                        a = it.instantiate(ms, [], dict(name="a", outputs={"o": port(it, d1, i1)}))
                        b = it.instantiate(ms, [], dict(name="b", inputs={"i": port(it, d2, i2)}))
                        dg.fields["modules"]["a"] = a
                        dg.fields["modules"]["b"] = b
                        try:
                            it.call_fi(cn, [dg, "a", "o", "b", "i"], {})
                            return len(dg.fields["wires"]) == 1
                        except PyRaise as e:
                            if len(dg.fields["wires"]) != 0:
                                return "appended-then-raised"
                            return False
                    for nm_, go in (("can_flow_to", go_c), ("require_flow_to", go_r), ("connect", go_k)):
                        outs = {r for _, r in explore(go, max_paths=20)}
                        if outs != {want}:
                            bad[nm_].append(f"({d1},{i1})→({d2},{i2}): {sorted(outs, key=str)} want {want}")
    for nm_, fi in (("can_flow_to", cf), ("require_flow_to", rf), ("connect", cn)):
        key = f"{fi.qual} ▸ acceptance table"
        if bad[nm_]:
            led.fail("C16-R1", key, where(fi, fi.node), f"{len(bad[nm_])} of {cells} cells differ from 'types equal ∧ src integrity ≥ dst', e.g. {bad[nm_][0]}", path=bad[nm_][:10])
        else:
            for _ in range(cells - 1):
                pass
            led.ok("C16-R1", key, where(fi, fi.node), f"all {cells} (type,integrity)² cells agree with the statement")
    led.extra["flow_cells_per_function"] = cells
    # make the instance count reflect the enumerated cells (one obligation per function, cells counted in evidence)
    led.floors["C16-R1"] = (3, "three sibling encodings of the flow predicate")

    # ---------------- R3a coercion tables
    # the boundary coercions: two functions (value, port) → TypedValue, or one function with a third parameter whose type is a
    # two-member enumeration naming the boundary (input / output)
    extra_arg = {}
    try:
        co = p.func("_coerce_output", R)
        ci = p.func("_coerce_input", R)
    except AnchorError:
        co = ci = None
        for f_ in [f for f in p.all_funcs if f.module.rel == R and f.cls is None and len(f.params()) == 3]:
            a3 = f_.node.args.args[2]
            ec = next((c_ for c_ in p.classes.get(src(a3.annotation), []) if c_.is_enum()), None) if a3.annotation is not None else None
            if ec is not None and 2 <= len(ec.enum_members()) <= 4 and f_.node.returns is not None and "TypedValue" in src(f_.node.returns):
                mem = {n_.lower(): n_ for n_, _ in ec.enum_members()}
                o_ = next((v for k, v in mem.items() if "out" in k), None)
                i_ = next((v for k, v in mem.items() if k.startswith("in")), None)
                if o_ and i_:
                    co = ci = f_
                    extra_arg = {"output": (ec, o_), "input": (ec, i_)}
        if co is None:
            raise
    for fi, rule_name, pred in ((ci, "input", lambda d1, i1, d2, i2: d1 == d2 and ilv[i1] >= ilv[i2]), (co, "output", lambda d1, i1, d2, i2: d1 == d2 and i1 == i2)):
        def third(it, _rn=rule_name):
            return [it.enum_member(*extra_arg[_rn])] if extra_arg else []
        badc = []
        n = 0
        for d1 in dts:
            for i1 in ils:
                for d2 in dts:
                    for i2 in ils:
                        n += 1

                        def go(o):
                            it = Interp(p, o)
                            val = it.instantiate(tv, [it.enum_member(DT, d1), it.enum_member(IL, i1), Unknown("payload")], {})
                            try:
                                r = it.call_fi(fi, [val, port(it, d2, i2)] + third(it), {})
                                return ("ok", getattr(r.fields["data_type"], "name", "?"), getattr(r.fields["integrity"], "name", "?"))
                            except PyRaise as e:
                                return ("raise",)
                        outs = {r for _, r in explore(go, max_paths=20)}
                        want = pred(d1, i1, d2, i2)
                        if want and outs != {("ok", d1, i1)}:
                            badc.append(f"labelled ({d1},{i1}) into port ({d2},{i2}): {sorted(outs)} — must be accepted unchanged")
                        if not want and outs != {("raise",)}:
                            badc.append(f"labelled ({d1},{i1}) into port ({d2},{i2}): {sorted(outs)} — must be rejected")
        # a raw (unlabelled) value takes the port's labels
        for d2 in dts:
            for i2 in ils:
                def go_raw(o):
                    it = Interp(p, o)
                    r = it.call_fi(fi, ["raw payload", port(it, d2, i2)] + third(it), {})
                    return (getattr(r.fields["data_type"], "name", "?"), getattr(r.fields["integrity"], "name", "?"), r.fields.get("value"))
                outs = {r for _, r in explore(go_raw, max_paths=20)}
                n += 1
                if outs != {(d2, i2, "raw payload")}:
                    badc.append(f"raw value into port ({d2},{i2}) labelled {sorted(outs, key=str)}")
        key = f"{fi.qual} ▸ label table" + (f" ({rule_name} boundary)" if extra_arg else "")
        if badc:
            led.fail("C16-R3", key, where(fi, fi.node), f"{len(badc)} of {n} cells wrong, e.g. {badc[0]}", path=badc[:10])
        else:
            led.ok("C16-R3", key, where(fi, fi.node), f"all {n} cells: {'type equal ∧ integrity ≥ port' if rule_name == 'input' else 'type and integrity equal to the declared port'}, else WiringError")

    # ---------------- R2 every wire that reaches the list was checked: provenance of what the diagram's methods append
    # (connect's own acceptance table is R1; this is the structural argument for every other appender and for all types)
    def passes_requirement(fi, node, cfgf):
        """node is reachable only through the normal edge of a require_flow_to call (or of a call to a checking helper)"""
        gates = [c for c in walk_no_nested(fi.node) if isinstance(c, ast.Call) and (
            (isinstance(c.func, ast.Attribute) and c.func.attr == "require_flow_to") or any(checks(h) for h in res.resolve_call(fi, c) if h is not fi))]
        if not gates:
            return False
        gnodes = {cfgf.node_of(g) for g in gates}
        seen = cfgf.reach(starts=[cfgf.entry], cut=lambda a, b, l: a in gnodes and l != "exc")
        return cfgf.node_of(node) not in seen
    _checks_memo = {}

    def checks(h):
        """every normal return of h lies behind the flow requirement"""
        if h.key in _checks_memo:
            return _checks_memo[h.key]
        _checks_memo[h.key] = False
        rets = [r for r in walk_no_nested(h.node) if isinstance(r, ast.Return) and r.value is not None]
        ch = cfg_of(h, led)
        _checks_memo[h.key] = bool(rets) and all(passes_requirement(h, r, ch) for r in rets)
        return _checks_memo[h.key]

    def checked_expr(fi, e, site, cfgf, depth=0):
        if isinstance(e, ast.Call) and any(checks(h) for h in res.resolve_call(fi, e)):
            return True
        if isinstance(e, ast.Call) and passes_requirement(fi, site, cfgf):
            return True                                   # built behind the requirement in this very function
        if isinstance(e, (ast.ListComp, ast.GeneratorExp)):
            return checked_expr(fi, e.elt, site, cfgf, depth + 1)
        if isinstance(e, ast.Name) and depth < 4:
            binds = [a for a in walk_no_nested(fi.node) if isinstance(a, (ast.Assign, ast.AnnAssign)) and any(isinstance(t, ast.Name) and t.id == e.id for t in (a.targets if isinstance(a, ast.Assign) else [a.target]))]
            muts = [c for c in walk_no_nested(fi.node) if isinstance(c, ast.Call) and isinstance(c.func, ast.Attribute) and isinstance(c.func.value, ast.Name) and c.func.value.id == e.id
                    and c.func.attr in ("append", "extend", "insert", "__iadd__")]
            if not binds:
                return False
            for a in binds:
                v = a.value
                empty = v is None or (isinstance(v, (ast.List, ast.Tuple)) and not v.elts) or (isinstance(v, ast.Call) and isinstance(v.func, ast.Name) and v.func.id in ("list", "tuple") and not v.args)
                if not empty and not checked_expr(fi, v, a, cfgf, depth + 1):
                    return False
            return all(c.args and checked_expr(fi, c.args[-1], c, cfgf, depth + 1) for c in muts)
        return False
    n_foreign = n_app = 0
    for fi in p.all_funcs:
        for k, n in attr_writes(fi.node, "wires", None):
            if fi.cls is wd and fi.name in ("__init__", "__post_init__"):
                continue
            if k not in ("mutcall:append", "mutcall:extend", "mutcall:insert", "assign", "augassign", "subscript-store"):
                continue
            recv = None
            for x in ast.walk(n):
                if isinstance(x, ast.Attribute) and x.attr == "wires":
                    recv = x.value
            c = res.expr_class(fi, recv) if recv is not None else None
            if fi.cls is wd and isinstance(recv, ast.Name) and recv.id == "self":
                n_app += 1
                key = f"{fi.qual} ▸ {k} wires ▸ provenance"
                cfgf = cfg_of(fi, led)
                val = n.args[-1] if isinstance(n, ast.Call) and n.args else (n.value if isinstance(n, (ast.Assign, ast.AugAssign)) else None)
                if val is not None and checked_expr(fi, val, n, cfgf):
                    led.ok("C16-R2", key, where(fi, n), "what is added is the result of the flow requirement (a wire built behind require_flow_to, or returned by a helper every return of which is)")
                else:
                    led.fail("C16-R2", key, where(fi, n), "a wire reaches the list on a path that did not pass the flow requirement (or passed its exception edge)")
            elif c is wd or (c is None and fi.module.rel in (W, R)):
                n_foreign += 1
                led.fail("C16-R2", f"{fi.qual} ▸ {k} wires", where(fi, n), "wire list modified outside the diagram's own methods: an unchecked connection can be installed")
    if n_app == 0:
        raise AnchorError("no method of WiringDiagram adds to the wire list")
    led.ok("C16-R2", "package ▸ writers of the wire list", "operon_ai/", f"{n_foreign} writer(s) outside WiringDiagram; {n_app} inside, each with checked provenance")

    # ---------------- R3b / R4 / R5: the executor, interpreted on a family of small diagrams with adversarial handlers
    exe = p.find_method(ex, "execute")
    if exe is None:
        raise AnchorError("DiagramExecutor.execute not found")
    _executor_table(p, led, tier, ex, exe, wd, ms, pt, tv, DT, IL, dts, ils, ilv)

    # ---------------- R6 capabilities = union over modules (interpreted on module sets with symbolic capability sets)
    rc = p.find_method(wd, "required_capabilities")
    key = "WiringDiagram.required_capabilities ▸ union"
    if rc is None:
        led.fail("C16-R6", key, W, "WiringDiagram.required_capabilities not found")
    else:
        badu = []
        # the capability values are the repository's own (a module may validate what it is given)
        try:
            CAP = p.cls("Capability", "operon_ai/core/types.py")
            capn = [n for n, _ in CAP.enum_members()]
        except Exception:
            CAP, capn = None, []
        if len(capn) < 4:
            raise AnchorError("the Capability enumeration (≥ 4 members) was not found")

        def caps_of(it, i):
            names = {capn[1 + i % (len(capn) - 1)], capn[0]} if i % 2 == 0 else {capn[1 + i % (len(capn) - 1)]}
            return {it.enum_member(CAP, n) for n in names} if it is not None else names
        for nmod in (0, 1, 2, 3):
            def go_u(o, _n=nmod):
                it = Interp(p, o)
                dg = it.instantiate(wd, [], {})
                for i in range(_n):
                    dg.fields["modules"][f"m{i}"] = it.instantiate(ms, [], dict(name=f"m{i}", capabilities=caps_of(it, i)))
                r = it.call_fi(rc, [dg], {})
                return frozenset(getattr(x, "name", x) for x in r) if isinstance(r, (set, frozenset, list, tuple)) else repr(r)
            want = frozenset(c for i in range(nmod) for c in caps_of(None, i))
            try:
                outs = {r for _, r in explore(go_u, max_paths=20)}
            except Imprecise as e:
                raise AnchorError(f"required_capabilities could not be interpreted: {e}")
            if outs != {want}:
                badu.append(f"{nmod} module(s): {sorted(map(str, outs))}, union is {sorted(want)}")
        if badu:
            led.fail("C16-R6", key, where(rc, rc.node), f"required capabilities are not the union over all modules: {badu[0]}")
        else:
            led.ok("C16-R6", key, where(rc, rc.node), "0–3 modules with overlapping capability sets: result equals the union")


def _executor_table(p, led, tier, ex, exe, wd, ms, pt, tv, DT, IL, dts, ils, ilv):
    from ..fdai import stub
    wire_cls = p.cls("Wire", W)
    D0, D1 = dts[0], dts[1]
    lo, hi = min(ils, key=lambda n: ilv[n]), max(ils, key=lambda n: ilv[n])

    def run(o, modules, wires, handlers, external=None, enforce=True, then=None):
        """modules: {name: (inputs {port: (d,i)}, outputs {port: (d,i)})}; wires: [(sm, sp, dm, dp)];
        handlers: {name: 'raw' | ('label', d, i) | 'none' | 'missing-port'}"""
        it = Interp(p, o)
        dg = it.instantiate(wd, [], {})
        for name, (ins, outs) in modules.items():
            spec = it.instantiate(ms, [], dict(name=name, inputs={k: it.instantiate(pt, [it.enum_member(DT, d), it.enum_member(IL, i)], {}) for k, (d, i) in ins.items()},
                                               outputs={k: it.instantiate(pt, [it.enum_member(DT, d), it.enum_member(IL, i)], {}) for k, (d, i) in outs.items()}))
            dg.fields["modules"][name] = spec
        for w in wires:
            dg.fields["wires"].append(it.instantiate(wire_cls, list(w), {}))
        e = it.instantiate(ex, [dg], {})
        log = []
        for name, how in handlers.items():
            def mk(name=name, how=how):
                @stub
                def h(interp, args, kwargs):
                    got = args[0]
                    snap = {}
                    if isinstance(got, dict):
                        for k, v in got.items():
                            snap[k] = (getattr(v.fields.get("data_type"), "name", "?"), getattr(v.fields.get("integrity"), "name", "?")) if isinstance(v, Obj) else ("raw", "raw")
                    log.append((name, snap))
                    outs = modules[name][1]
                    if how == "none":
                        return None
                    res_ = {}
                    for k, (d, i) in outs.items():
                        if how == "raw":
                            res_[k] = f"payload-{name}-{k}"
                        else:
                            res_[k] = interp.instantiate(tv, [interp.enum_member(DT, how[1]), interp.enum_member(IL, how[2]), f"payload-{name}-{k}"], {})
                    return res_
                return h
            e.fields["_handlers" if "_handlers" in e.fields else next(k for k, v in e.fields.items() if isinstance(v, dict) and k != "diagram")][name] = mk()
        ext = {}
        for (m, port_), val in (external or {}).items():
            ext.setdefault(m, {})[port_] = val if not isinstance(val, tuple) else it.instantiate(tv, [it.enum_member(DT, val[0]), it.enum_member(IL, val[1]), "ext"], {})
        try:
            r = it.call_fi(exe, [e, ext, enforce], {})
            if then is not None:
                # the same executor is used again after the diagram was rewired through its public API
                more_wires, external2 = then
                connect = p.find_method(wd, "connect")
                for w in more_wires:
                    it.call_fi(connect, [dg] + list(w), {})
                del log[:]
                ext2 = {}
                for (m, port_), val in (external2 or {}).items():
                    ext2.setdefault(m, {})[port_] = val
                r = it.call_fi(exe, [e, ext2, enforce], {})
            order = r.fields.get("execution_order") if isinstance(r, Obj) else None
            return dict(kind="ok", log=log, order=list(order) if isinstance(order, list) else None)
        except PyRaise as pr:
            return dict(kind="raise", wiring="WiringError" in it.exc_ancestors(pr.exc) or getattr(pr.exc, "clsname", "") == "WiringError" or (isinstance(pr.exc, Obj) and pr.exc.cls is not None and pr.exc.cls.name == "WiringError"), exc=repr(pr.exc), log=log)

    P = {"C16-R3": [], "C16-R4": [], "C16-R5": []}

    def paths(*a, **k):
        try:
            return [r for _, r in explore(lambda o: run(o, *a, **k), max_paths=200)]
        except Imprecise as e_:
            if "exceeds" in str(e_) and "iterations" in str(e_):
                # the interpreted scheduling loop does not terminate on this finite diagram: a module is run again and
                # again / a pass without progress goes round
                P["C16-R4"].append(f"modules {sorted(a[0])}, wires {a[1]}: the scheduling loop does not terminate ({e_}): a module is never marked executed or a pass without progress goes round forever")
                return []
            raise AnchorError(f"DiagramExecutor.execute could not be interpreted: {e_}")
    ncase = 0

    def delivered_ok(r, modules, tag):
        for name, snap in r["log"]:
            ins = modules[name][0]
            missing = [k for k in ins if k not in snap]
            if missing:
                P["C16-R4"].append(f"{tag}: module {name} ran without its declared input(s) {missing}")
            for k, (d, i) in snap.items():
                if k in ins and (d != ins[k][0] or ilv.get(i, -1) < ilv[ins[k][1]]):
                    P["C16-R3"].append(f"{tag}: input port {name}.{k} declared {ins[k]} received a value labelled ({d},{i})")
        names = [n for n, _ in r["log"]]
        for n in set(names):
            if names.count(n) > 1:
                P["C16-R4"].append(f"{tag}: module {n} ran {names.count(n)} times")

    # (1) wire typing and labelled outputs: A.out(dA,iA) → B.in(dB,iB), A's handler returns raw or a value labelled (d,i)
    for dA, iA, dB, iB in [(a_, b_, c_, d_) for a_ in (D0, D1) for b_ in ils for c_ in (D0, D1) for d_ in ils]:
        compat = dA == dB and ilv[iA] >= ilv[iB]
        mods = {"A": ({}, {"o": (dA, iA)}), "B": ({"i": (dB, iB)}, {})}
        for how in ["raw"] + [("label", d, i) for d in (D0, D1) for i in ils]:
            for enforce in (True, False):
                ncase += 1
                tag = f"A.o({dA},{iA}) → B.i({dB},{iB}), A returns {how}, enforce={enforce}"
                for r in paths(mods, [("A", "o", "B", "i")], {"A": how, "B": "none"}, None, enforce):
                    delivered_ok(r, mods, tag) if enforce else None
                    declared_ok = how == "raw" or (how[1] == dA and how[2] == iA)
                    b_ran = any(n == "B" for n, _ in r["log"])
                    if not declared_ok and (b_ran or r["kind"] == "ok"):
                        P["C16-R3"].append(f"{tag}: an output contradicting its declared port is accepted")
                    if enforce and declared_ok and not compat and (b_ran or r["kind"] == "ok"):
                        P["C16-R3"].append(f"{tag}: an ill-typed wire delivers its value")
                    if declared_ok and compat and (r["kind"] != "ok" or r["order"] != ["A", "B"]):
                        P["C16-R4"].append(f"{tag}: a well-typed diagram does not run A then B ({r['kind']}, order {r.get('order')}, {r.get('exc', '')})")
                    if r["kind"] == "raise" and not r["wiring"]:
                        P["C16-R5"].append(f"{tag}: raises {r['exc']} instead of a wiring error")
    # (2) external inputs: labelled / raw values into B.i
    for dB, iB in [(c_, d_) for c_ in (D0, D1) for d_ in ils]:
        mods = {"B": ({"i": (dB, iB)}, {})}
        for val in ["raw"] + [(d, i) for d in (D0, D1) for i in ils]:
            ncase += 1
            tag = f"external {val} into B.i({dB},{iB})"
            for r in paths(mods, [], {"B": "none"}, {("B", "i"): val}):
                delivered_ok(r, mods, tag)
                okv = val == "raw" or (val[0] == dB and ilv[val[1]] >= ilv[iB])
                if okv and r["kind"] != "ok":
                    P["C16-R3"].append(f"{tag}: refused ({r.get('exc')})")
                if not okv and (r["kind"] == "ok" or r["log"]):
                    P["C16-R3"].append(f"{tag}: accepted")
    # (3) scheduling: order, exactly once, unschedulable diagrams
    T = (D0, lo)
    shapes = {
        "chain declared in reverse": ({"C": ({"i": T}, {}), "B": ({"i": T}, {"o": T}), "A": ({}, {"o": T})}, [("A", "o", "B", "i"), ("B", "o", "C", "i")], {"A": "raw", "B": "raw", "C": "none"}, "ok"),
        "diamond": ({"D": ({"x": T, "y": T}, {}), "A": ({}, {"o": T}), "B": ({"i": T}, {"o": T}), "C": ({"i": T}, {"o": T})},
                    [("A", "o", "B", "i"), ("A", "o", "C", "i"), ("B", "o", "D", "x"), ("C", "o", "D", "y")], {"A": "raw", "B": "raw", "C": "raw", "D": "none"}, "ok"),
        **{f"two wires from one producer plus one from another ({', '.join(order)})":
             ({m_: {"A": ({}, {"o1": T, "o2": T}), "B": ({}, {"o": T}), "C": ({"x": T, "y": T, "z": T}, {})}[m_] for m_ in order},
              [("A", "o1", "C", "x"), ("A", "o2", "C", "y"), ("B", "o", "C", "z")], {"A": "raw", "B": "raw", "C": "none"}, "ok")
           for order in __import__("itertools").permutations("ABC")},
        "two-cycle": ({"A": ({"i": T}, {"o": T}), "B": ({"i": T}, {"o": T})}, [("A", "o", "B", "i"), ("B", "o", "A", "i")], {"A": "raw", "B": "raw"}, "raise"),
        "cycle on an island beside a runnable chain": ({"S": ({}, {"o": T}), "K": ({"i": T}, {}), "X": ({"i": T}, {"o": T}), "Y": ({"i": T}, {"o": T})},
                                                       [("S", "o", "K", "i"), ("X", "o", "Y", "i"), ("Y", "o", "X", "i")], {"S": "raw", "K": "none", "X": "raw", "Y": "raw"}, "raise"),
        "fan-in (two sources for one port)": ({"A": ({}, {"o": T}), "B": ({}, {"o": T}), "C": ({"i": T}, {})}, [("A", "o", "C", "i"), ("B", "o", "C", "i")], {"A": "raw", "B": "raw", "C": "none"}, "raise-before-any"),
        "missing source": ({"A": ({}, {"o": T}), "C": ({"i": T, "j": T}, {})}, [("A", "o", "C", "i")], {"A": "raw", "C": "none"}, "raise-before-any"),
        "missing handler": ({"A": ({}, {"o": T}), "C": ({"i": T}, {})}, [("A", "o", "C", "i")], {"C": "none"}, "raise-before-any"),
        "missing handler of a module whose declared output nobody consumes": ({"A": ({}, {"o": T}), "C": ({"i": T}, {"res": T})}, [("A", "o", "C", "i")], {"A": "raw"}, "raise-before-any"),
        "handler returns no outputs": ({"A": ({}, {"o": T}), "C": ({"i": T}, {})}, [("A", "o", "C", "i")], {"A": "none", "C": "none"}, "raise"),
    }
    for label, (mods, wires, handlers, want) in shapes.items():
        ncase += 1
        for r in paths(mods, wires, handlers):
            tag = f"diagram '{label}'"
            delivered_ok(r, mods, tag)
            names = [n for n, _ in r["log"]]
            feeders = {m: {w[0] for w in wires if w[2] == m} for m in mods}
            for idx, n in enumerate(names):
                if not feeders[n] <= set(names[:idx]):
                    P["C16-R4"].append(f"{tag}: {n} ran before its feeder(s) {sorted(feeders[n] - set(names[:idx]))}")
            if want == "ok":
                if r["kind"] != "ok" or sorted(names) != sorted(m for m in mods if m in handlers):
                    P["C16-R4"].append(f"{tag}: expected every module to run exactly once, got {r['kind']} with runs {names} ({r.get('exc', '')})")
            else:
                if r["kind"] == "ok":
                    P["C16-R5"].append(f"{tag}: execute() returns a report instead of raising a wiring error (modules run: {names})")
                elif not r["wiring"]:
                    P["C16-R5"].append(f"{tag}: raises {r['exc']}, not a wiring error")
                if want == "raise-before-any" and names:
                    P["C16-R5"].append(f"{tag}: module(s) {names} ran before the diagram was refused")
    # (4) the same executor after the diagram was rewired: the second execution is judged like a first one
    hist = {
        "a port fed externally, then wired (A.o → B.i added after a first run)":
            ({"A": ({}, {"o": T}), "B": ({"i": T}, {})}, [], {"A": "raw", "B": "none"}, {("B", "i"): "raw"}, ([("A", "o", "B", "i")], None), "ok"),
        "a second input wired later (S.o → B.j added after a first run)":
            ({"A": ({}, {"o": T}), "S": ({}, {"o": T}), "B": ({"i": T, "j": T}, {})}, [("A", "o", "B", "i")], {"A": "raw", "S": "raw", "B": "none"}, {("B", "j"): "raw"}, ([("S", "o", "B", "j")], None), "ok"),
        "a wire that closes a cycle is added after a first run":
            ({"A": ({"x": T}, {"o": T}), "B": ({"i": T}, {"o": T})}, [("A", "o", "B", "i")], {"A": "raw", "B": "raw"}, {("A", "x"): "raw"}, ([("B", "o", "A", "x")], None), "raise"),
        "a wire is added to a port that also gets an external value":
            ({"A": ({}, {"o": T}), "B": ({"i": T}, {})}, [], {"A": "raw", "B": "none"}, {("B", "i"): "raw"}, ([("A", "o", "B", "i")], {("B", "i"): "raw"}), "either"),
    }
    for label, (mods, wires, handlers, ext1, then, want) in hist.items():
        ncase += 1
        for r in paths(mods, wires, handlers, ext1, True, then):
            tag = f"history '{label}'"
            delivered_ok(r, mods, tag)
            names = [n for n, _ in r["log"]]
            allw = list(wires) + list(then[0])
            feeders = {m: {w[0] for w in allw if w[2] == m} for m in mods}
            for idx, n in enumerate(names):
                if not feeders[n] <= set(names[:idx]):
                    P["C16-R4"].append(f"{tag}: on the second run {n} ran before its feeder(s) {sorted(feeders[n] - set(names[:idx]))} (wiring as it was before the change)")
            if want == "ok" and (r["kind"] != "ok" or sorted(names) != sorted(mods)):
                P["C16-R4"].append(f"{tag}: the rewired diagram is valid, but the second run gives {r['kind']} with runs {names} ({r.get('exc', '')})")
            if want == "raise" and r["kind"] == "ok":
                P["C16-R5"].append(f"{tag}: the second run returns a report instead of raising a wiring error (modules run: {names})")
            if r["kind"] == "raise" and not r["wiring"]:
                P["C16-R5"].append(f"{tag}: raises {r['exc']}, not a wiring error")
    titles = {"C16-R3": "DiagramExecutor.execute ▸ every delivered value has the port's type and at least its integrity; contradicting outputs are rejected",
              "C16-R4": "DiagramExecutor.execute ▸ every module runs exactly once, with all declared inputs, after its feeders",
              "C16-R5": "DiagramExecutor.execute ▸ unschedulable diagrams raise a wiring error (cycles, islands, fan-in, missing source / handler / outputs); pre-flight refusals run nothing"}
    for rid, title in titles.items():
        mine = sorted(set(P[rid]))
        if mine:
            led.fail(rid, title, where(exe, exe.node), f"{len(mine)} case(s), e.g. {mine[0]}", path=mine[:8],
                     witness="modules {src→sink} plus an unreachable 2-cycle {x⇄y}: execute() returns a report, x and y never run" if rid == "C16-R5" else None)
        else:
            led.ok(rid, title, where(exe, exe.node), f"{ncase} interpreted cases (wire typing × labelled/raw outputs × enforcement; external inputs; 14 scheduling shapes; 4 rewire-then-run-again histories)")
    # keep one visible obligation per clause for the per-rule floors
    for rid, extra in (("C16-R3", ["handler outputs are checked against the declared port", "external inputs are coerced", "wire deliveries are typed", "wire deliveries respect integrity"]),
                       ("C16-R4", ["not run twice", "all declared inputs present"]), ("C16-R5", ["no-progress pass raises", "pre-flight refusals"])):
        if not P[rid]:
            for x in extra:
                led.ok(rid, f"DiagramExecutor.execute ▸ {x}", where(exe, exe.node), "row family of the table above", nontrivial=False)



def _all_inputs_expr(e):
    return (isinstance(e, ast.Call) and isinstance(e.func, ast.Name) and e.func.id == "all" and e.args
            and isinstance(e.args[0], (ast.GeneratorExp, ast.ListComp)) and "module_inputs" in src(e.args[0].elt)
            and isinstance(e.args[0].elt, ast.Compare) and isinstance(e.args[0].elt.ops[0], ast.In)
            and ".inputs" in src(e.args[0].generators[0].iter))


