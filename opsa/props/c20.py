"""C20 — immutable configuration: values change only through authorised, logged mutations."""
from __future__ import annotations

import ast

from ..fdai import Interp, Obj, PyRaise, SkipPath, Unknown, explore, Imprecise, freeze, ExcVal
from ..loader import AnchorError, short, src, walk_no_nested
from ..rules import where, package_attr_writes, attr_writes

G = "operon_ai/state/genome.py"
FILES = [G]


def nm(v):
    return getattr(v, "name", None) or repr(v)


def run(p, led, tier):
    genome = p.cls("Genome", G)
    gene = p.cls("Gene", G)
    gtype = p.cls("GeneType", G)
    elevel = p.cls("ExpressionLevel", G)
    for m in ("add_gene", "mutate", "rollback_mutation", "set_expression", "silence_gene", "activate_gene", "replicate", "express", "get_hash"):
        if p.find_method(genome, m) is None:
            raise AnchorError(f"Genome.{m} not found")
    led.explanation = (
        "Finite-domain abstract interpretation of Genome's operations (values, reasons and the approval callback's "
        "answer are Unknown; allow_mutations and the presence of a callback are enumerated): the gene table may "
        "differ after an operation only on a path where mutations were enabled or the callback's answer was taken "
        "as truthy; every refusing path must have appended an unapproved record; replicate must leave the parent's "
        "snapshot unchanged and alter the child only through the gated mutate; rollback must go through mutate with "
        "the original value of the latest approved record; the complete expression table (5 levels × 5 types × "
        "named-in-context) is extracted and compared with the statement's filter. Structural: Gene is frozen; "
        "nobody outside Genome writes the gene table; the hash reads the gene table only.")
    led.level = "proof"
    led.exhaustive = True
    led.not_decided = ["an approval callback that raises (the exception propagates; the statement does not cover it)", "random replication mutations (they go through the same gated mutate — covered — but their values are not analysed)"]
    led.assumptions = ["A1 no reflection on Gene/Genome from inside the package", "hashlib/json are deterministic"]
    led.rule("C20-R1", "the gene table changes only on a path where mutations are enabled or the approval callback approved; no foreign writer; Gene stays frozen", 10)
    led.rule("C20-R2", "every refused mutation of an existing gene is logged as unapproved", 2)
    led.rule("C20-R3", "the configuration hash depends on the gene table only", 1)
    led.rule("C20-R4", "replicate leaves the parent untouched; the child differs only through its own gated mutate", 4)
    led.rule("C20-R5", "expression table = statement's filter (not SILENCED ∧ not DORMANT ∧ (not CONDITIONAL ∨ named in context))", 50)
    led.rule("C20-R6", "rollback goes through the gated mutate with the original value of the latest approved record of that gene", 2)

    # private fields by role: the mapping that holds a gene after construction / add_gene, the list that grows on a
    # refused mutation, the mapping that changes when a gene is silenced
    def _discover():
        from ..fdai import Oracle
        it = Interp(p, Oracle())
        g1 = it.instantiate(gene, [], dict(name="g1", value=1, gene_type=it.enum_member(gtype, "STRUCTURAL"), default_expression=it.enum_member(elevel, "NORMAL")))
        obj = it.instantiate(genome, [], dict(genes=[g1], allow_mutations=False, on_mutation=None, silent=True))
        genes_f = [k for k, v in obj.fields.items() if isinstance(v, dict) and any(x is g1 for x in v.values())]
        before = {k: (len(v) if isinstance(v, (list, dict)) else None) for k, v in obj.fields.items()}
        it.call_fi(p.find_method(genome, "mutate"), [obj, "g1", 2, "why"], {})
        log_f = [k for k, v in obj.fields.items() if isinstance(v, list) and before.get(k) is not None and len(v) == before[k] + 1]
        snap = {k: freeze(v) for k, v in obj.fields.items() if isinstance(v, dict) and k not in genes_f}
        sil = p.find_method(genome, "silence_gene")
        expr_f = []
        if sil is not None:
            it.call_fi(sil, [obj, "g1"], {})
            expr_f = [k for k, v in obj.fields.items() if isinstance(v, dict) and k in snap and freeze(v) != snap[k]]
        if len(genes_f) != 1 or len(log_f) != 1 or len(expr_f) != 1:
            raise AnchorError(f"Genome: could not identify the gene table / mutation log / expression table by behaviour (candidates {genes_f} / {log_f} / {expr_f})")
        return genes_f[0], log_f[0], expr_f[0]
    GENES, MLOG, EXPR = _discover()
    led.extra["fields"] = dict(genes=GENES, mutation_log=MLOG, expression=EXPR)

    def mk(o, allow, cb, genes=(("g1", "STRUCTURAL", "NORMAL"),), trace=()):
        it = Interp(p, o)
        it.trace_calls = set(trace)
        glist = []
        for (n, t, lv) in genes:
            glist.append(it.instantiate(gene, [], dict(name=n, value=Unknown(f"value_{n}"), gene_type=it.enum_member(gtype, t), default_expression=it.enum_member(elevel, lv))))
        callback = None
        if cb == "callback":
            callback = Unknown("on_mutation")
        try:
            obj = it.instantiate(genome, [], dict(genes=glist, allow_mutations=allow, on_mutation=callback, silent=True))
        except PyRaise as e:
            raise SkipPath(f"the constructor rejects this configuration: {e.exc!r}")     # e.g. a callback that is not callable
        it.events.clear()
        it.decisions.clear()
        return it, obj

    def genes_snap(obj):
        return freeze(obj.fields[GENES])

    def approved_on_path(it):
        # the truthiness taken for the *value returned by* the approval callback (not the test that a callback is configured)
        return any(d[2].startswith("ret(on_mutation)") and d[3] is True for d in it.decisions)

    # ---------------- R1/R2: mutate & add_gene & expression ops
    CALLBACK_RAISED = []      # per path on which the approval callback raised: did the gene table change?

    def op_runner(opname, args_fn):
        def go(o, allow, cb):
            it, obj = mk(o, allow, cb)
            before = genes_snap(obj)
            h0 = None
            nlog0 = len(obj.fields[MLOG])
            m = p.find_method(genome, opname)
            try:
                r = it.call_fi(m, [obj] + args_fn(it), {})
            except PyRaise as e:
                if "on_mutation" in repr(e.exc):
                    # the approval callback raised instead of answering: nothing was approved, so nothing may have changed
                    CALLBACK_RAISED.append(genes_snap(obj) != before)
                    return None
                raise
            log = obj.fields[MLOG]
            return dict(ret=r, changed=genes_snap(obj) != before, approved=approved_on_path(it), newlog=[(x.fields.get("approved")) for x in log[nlog0:]],
                        decisions=list(it.decisions))
        return go

    ops = {
        "mutate(existing)": ("mutate", lambda it: ["g1", Unknown("new_value"), Unknown("reason")]),
        "mutate(unknown name)": ("mutate", lambda it: ["nope", Unknown("new_value"), Unknown("reason")]),
        "add_gene(existing name)": ("add_gene", lambda it: [it.instantiate(gene, [], dict(name="g1", value=Unknown("other_value")))]),
        "set_expression": ("set_expression", lambda it: ["g1", it.enum_member(elevel, "HIGH"), "why"]),
        "silence_gene": ("silence_gene", lambda it: ["g1", "why"]),
        "activate_gene": ("activate_gene", lambda it: ["g1", "why"]),
        "rollback_mutation(no history)": ("rollback_mutation", lambda it: ["g1"]),
    }
    for label, (opname, args_fn) in ops.items():
        go = op_runner(opname, args_fn)
        m = p.find_method(genome, opname)
        for allow in (False, True):
            for cb in ("none", "callback"):
                try:
                    paths = [(l, r) for l, r in explore(lambda o: go(o, allow, cb), max_paths=300) if r is not None]
                except Imprecise as e:
                    raise AnchorError(f"Genome.{opname} could not be interpreted: {e}")
                key = f"Genome.{label} ▸ allow_mutations={allow} callback={cb}"
                probs = []
                for _, r in paths:
                    authorised = allow or (cb == "callback" and r["approved"])
                    if r["changed"] and not authorised:
                        probs.append("gene table changed without mutations enabled or an approval")
                    if opname in ("set_expression", "silence_gene", "activate_gene") and r["changed"]:
                        probs.append("changing expression altered the gene table")
                    if opname == "mutate" and label.startswith("mutate(existing)"):
                        if r["ret"] is False or (r["ret"] is not True and not r["changed"]):
                            if len(r["newlog"]) != 1 or (r["newlog"][0] is True):
                                probs.append(f"refused mutation not logged as unapproved (new log entries: {r['newlog']})")
                        if r["ret"] is True and not r["changed"]:
                            pass
                        if authorised and allow and not r["changed"] and r["ret"] is True:
                            pass
                if probs:
                    led.fail("C20-R1" if not any("logged" in x for x in probs) else "C20-R2", key, where(m, m.node), "; ".join(sorted(set(probs))))
                else:
                    led.ok("C20-R1", key, where(m, m.node), f"{len(paths)} path(s); table changed on {sum(1 for _, r in paths if r['changed'])} of them, each authorised")
    key = "Genome ▸ an approval callback that raises approves nothing (the gene table is unchanged when its exception propagates)"
    if any(CALLBACK_RAISED):
        led.fail("C20-R1", key, where(p.find_method(genome, "mutate"), p.find_method(genome, "mutate").node),
                 f"{sum(CALLBACK_RAISED)} of {len(CALLBACK_RAISED)} path(s) on which the callback raises leave a changed gene table behind",
                 witness="on_mutation raises while deciding about model → 'rogue-model': the exception propagates and the genome now holds 'rogue-model'")
    elif CALLBACK_RAISED:
        led.ok("C20-R1", key, where(p.find_method(genome, "mutate"), p.find_method(genome, "mutate").node), f"{len(CALLBACK_RAISED)} raising path(s): table unchanged on each")
    # R2 explicit: refused mutate logs
    mut = p.find_method(genome, "mutate")
    go = op_runner("mutate", ops["mutate(existing)"][1])
    for cb in ("none", "callback"):
        paths = [(l, r) for l, r in explore(lambda o: go(o, False, cb)) if r is not None]
        refused = [r for _, r in paths if r["ret"] is False]
        key = f"Genome.mutate ▸ refusal logged ▸ callback={cb}"
        bad = [r for r in refused if len(r["newlog"]) != 1 or r["newlog"][0] is True]
        if not refused:
            led.fail("C20-R2", key, where(mut, mut.node), "no refusing path exists with mutations disabled")
        elif bad:
            led.fail("C20-R2", key, where(mut, mut.node), f"{len(bad)}/{len(refused)} refusing path(s) append {bad[0]['newlog']} to the mutation log instead of one unapproved record")
        else:
            led.ok("C20-R2", key, where(mut, mut.node), f"{len(refused)} refusing path(s), each appends exactly one unapproved record")

    # every request is judged afresh: in a history of two mutations the second one may change the table only if the
    # callback was consulted *during that call* and approved (an approval is for one specific change)
    for second in ("same new value", "other new value", "a value approved two steps ago"):
        def go2(o):
            it, obj = mk(o, False, "callback")
            m = p.find_method(genome, "mutate")
            try:
                it.call_fi(m, [obj, "g1", Unknown("new_value"), Unknown("reason1")], {})
                if second == "a value approved two steps ago":
                    it.call_fi(m, [obj, "g1", Unknown("interim_value"), Unknown("reason1b")], {})
                mark_e, mark_d = len(it.events), len(it.decisions)
                before = genes_snap(obj)
                r = it.call_fi(m, [obj, "g1", Unknown("new_value2") if second == "other new value" else Unknown("new_value"), Unknown("reason2")], {})
            except PyRaise as e:
                if "on_mutation" in repr(e.exc):
                    return None
                raise
            asked = [e for e in it.events[mark_e:] if e[0] == "extcall" and "on_mutation" in str(e[1])]
            approved = any(d[2].startswith("ret(on_mutation)") and d[3] is True for d in it.decisions[mark_d:])
            return dict(changed=genes_snap(obj) != before, asked=len(asked), approved=approved, ret=r)
        paths = [(l, r) for l, r in explore(go2, max_paths=400) if r is not None]
        key = f"Genome.mutate ▸ later request ({second}) judged afresh"
        bad = [r for _, r in paths if r["changed"] and not (r["asked"] >= 1 and r["approved"])]
        if bad:
            led.fail("C20-R1", key, where(mut, mut.node), f"{len(bad)}/{len(paths)} path(s): the second mutation changed the gene table without the callback approving it in that call (asked {bad[0]['asked']}×)",
                     witness="approve free→pro, approve pro→enterprise, then rollback (enterprise→pro) is applied without asking the callback")
        else:
            led.ok("C20-R1", key, where(mut, mut.node), f"{len(paths)} path(s): a change in the second call always follows an approval given in that call")

    # structural: frozen, foreign writers
    fr = gene.dataclass_kwargs().get("frozen")
    key = "Gene ▸ @dataclass(frozen=True)"
    if isinstance(fr, ast.Constant) and fr.value is True:
        led.ok("C20-R1", key, where(mut, gene.node), "gene objects cannot be altered in place", nontrivial=False)
    else:
        led.fail("C20-R1", key, f"{G}:{gene.node.lineno}", "Gene is no longer frozen: a stored value can be changed in place, bypassing the gate")
    nfw = 0
    from ..resolve import Resolver
    res_ = Resolver(p)
    gated_entry = [m for m in (p.find_method(genome, n) for n in ("__init__", "add_gene", "mutate")) if m is not None]
    gated = {g.key for m in gated_entry for g in res_.reachable_from(m)} | {m.key for m in gated_entry}
    # … but nothing that is *also* reachable from another public method without passing through the gated three
    for fi, kind, node in package_attr_writes(p, GENES, None):
        if fi.key in gated and (fi.cls is genome or fi.module.rel == G):
            outside = False
            for m in genome.methods.values():
                if m.name.startswith("_") or m in gated_entry:
                    continue
                seen, todo = {m.key}, [m]
                while todo and not outside:
                    g_ = todo.pop()
                    for h, _c in res_.callees(g_):
                        if h.key in seen or h.key in {x.key for x in gated_entry}:
                            continue
                        if h.key == fi.key:
                            outside = True
                            break
                        seen.add(h.key)
                        todo.append(h)
            if not outside:
                continue
        nfw += 1
        led.fail("C20-R1", f"{fi.qual} ▸ {kind} {GENES}", where(fi, node), "gene table written outside __init__/add_gene/mutate (ungated writer)")
    led.ok("C20-R1", "package ▸ writers of the gene table", "operon_ai/", f"{len(p.all_funcs)} functions scanned; {nfw} writer(s) outside Genome.__init__/add_gene/mutate")
    for cls_, fld in ((gene, "value"),):
        for fi, kind, node in package_attr_writes(p, "value", None):
            tgt = None
            for x in ast.walk(node):
                if isinstance(x, ast.Attribute) and x.attr == "value" and isinstance(x.ctx, ast.Store):
                    tgt = x.value
            if tgt is not None and fi.cls is genome:
                led.fail("C20-R1", f"{fi.qual} ▸ {short(node)}", where(fi, node), "a gene's value is assigned in place")
        # object.__setattr__ bypass
        for fi in p.all_funcs:
            if fi.module.rel != G:
                continue
            for n in walk_no_nested(fi.node):
                if isinstance(n, ast.Call) and src(n.func) in ("object.__setattr__", "setattr"):
                    led.fail("C20-R1", f"{fi.qual} ▸ {short(n)}", where(fi, n), "reflection write in the genome module (can defeat frozen genes)")

    # ---------------- R3 hash
    gh = p.find_method(genome, "get_hash")

    def hv(x):
        return x.sym if isinstance(x, Unknown) else x

    def go_hash(o, hist):
        it, obj = mk(o, hist != "refused mutate", "none", genes=(("g1", "STRUCTURAL", "NORMAL"), ("g2", "REGULATORY", "HIGH")))
        it.field_reads = set()
        h1 = hv(it.call_fi(gh, [obj], {}))
        first_reads = {f for c, f in it.field_reads if c == "Genome"}
        changed = False
        try:
            if hist in ("authorised mutate", "refused mutate"):
                before = genes_snap(obj)
                it.call_fi(p.find_method(genome, "mutate"), [obj, "g1", Unknown("new_value")], {})
                changed = genes_snap(obj) != before
            elif hist == "expression change":
                it.call_fi(p.find_method(genome, "silence_gene"), [obj, "g2"], {})
            elif hist == "gene added":
                before = genes_snap(obj)
                it.call_fi(p.find_method(genome, "add_gene"), [obj, it.instantiate(gene, [], dict(name="g3", value=Unknown("value_g3"), gene_type=it.enum_member(gtype, "STRUCTURAL")))], {})
                changed = genes_snap(obj) != before
        except PyRaise:
            pass
        h2 = hv(it.call_fi(gh, [obj], {}))
        # the same gene table in a genome that has no past
        fresh = it.instantiate(genome, [], dict(genes=list(obj.fields[GENES].values()) if isinstance(obj.fields[GENES], dict) else list(obj.fields[GENES]), allow_mutations=False, on_mutation=None, silent=True))
        h_ref = hv(it.call_fi(gh, [fresh], {}))
        return dict(h1=h1, h2=h2, ref=h_ref, changed=changed, reads=first_reads)
    probs3, n3, reads = [], 0, set()
    for hist in ("asked twice", "authorised mutate", "refused mutate", "expression change", "gene added"):
        try:
            outs3 = [r for _, r in explore(lambda o, _h=hist: go_hash(o, _h), max_paths=100)]
        except Imprecise as e:
            raise AnchorError(f"Genome.get_hash could not be interpreted ({hist}): {e}")
        for r in outs3:
            n3 += 1
            reads |= r["reads"]
            if r["h2"] != r["ref"]:
                probs3.append(f"{hist}: the hash afterwards differs from the hash of a fresh genome holding the same gene table (an answer remembered from before, or something other than the gene table, goes into it)")
            if r["changed"] and r["h2"] == r["h1"]:
                probs3.append(f"{hist}: the gene table changed but the hash did not")
            if not r["changed"] and r["h2"] != r["h1"]:
                probs3.append(f"{hist}: the hash changed although no stored value did")
    key = "Genome.get_hash ▸ inputs"
    if probs3:
        led.fail("C20-R3", key, where(gh, gh.node), sorted(set(probs3))[0], path=sorted(set(probs3))[:5])
    else:
        led.ok("C20-R3", key, where(gh, gh.node), f"{n3} path(s) over 5 histories: the hash equals that of a fresh genome with the same gene table, changes when a stored value changes and only then (fields read on a first call: {sorted(reads)})")

    # ---------------- R4 replicate
    rep = p.find_method(genome, "replicate")
    for allow in (False, True):
        for cb in ("none", "callback"):
            def go_r(o):
                it, obj = mk(o, allow, cb, genes=(("g1", "STRUCTURAL", "NORMAL"), ("g2", "CONDITIONAL", "LOW")), trace=("Genome.mutate",))
                obj.fields["mutation_rate"] = 0.0

                def observable(g_):
                    # the genome's configuration and records: the discovered tables plus every public attribute (private
                    # scratch fields such as a memo of the hash are not part of what "alters the parent" is about)
                    return freeze({k: v for k, v in g_.fields.items() if k in (GENES, MLOG, EXPR) or not k.startswith("_")})
                before = observable(obj)
                try:
                    child = it.call_fi(rep, [obj, {"g1": Unknown("child_value")}, Unknown("inherit_expression")], {})
                except PyRaise as e:
                    if "on_mutation" in repr(e.exc):
                        return None
                    if observable(obj) != before:
                        return dict(parent_changed=True, alias=[], diff=[], same=False, approved=False, mutate_calls=0)
                    return None          # the (arbitrary) arguments were rejected and the parent is untouched: nothing to judge
                same_obj = child is obj
                pg, cg = obj.fields[GENES], child.fields[GENES]
                diff = sorted(k for k in set(pg) | set(cg) if freeze(pg.get(k)) != freeze(cg.get(k)))
                shared_table = cg is pg
                parent_changed = observable(obj) != before
                # afterwards each genome is regulated on its own: nothing done to the child's expression may show in the
                # parent, and the other way round (no state object shared between the two)
                alias = []
                if not same_obj:
                    for who, target, other, gname in (("child", child, obj, "g2"), ("parent", obj, child, "g1")):
                        for mname in ("silence_gene", "activate_gene"):
                            mm = p.find_method(genome, mname)
                            if mm is None:
                                continue
                            snap_other = observable(other)
                            try:
                                it.call_fi(mm, [target, gname], {})
                            except PyRaise:
                                continue
                            if observable(other) != snap_other:
                                alias.append(f"{mname}({gname!r}) on the {who} changes the {'parent' if who == 'child' else 'child'}")
                return dict(parent_changed=parent_changed, alias=alias, diff=diff, same=same_obj or shared_table,
                            approved=approved_on_path(it), mutate_calls=sum(1 for e in it.events if e == ("call", "Genome.mutate")))
            paths = [(l, r) for l, r in explore(go_r, max_paths=400) if r is not None]
            key = f"Genome.replicate ▸ allow_mutations={allow} callback={cb}"
            probs = []
            for _, r in paths:
                if r["parent_changed"]:
                    probs.append("replication altered the parent")
                if r["same"]:
                    probs.append("child shares the parent's gene table (a later child mutation changes the parent)")
                for a_ in r["alias"]:
                    probs.append(f"after replication {a_}: the two genomes share a mutable expression record")
                authorised = allow or (cb == "callback" and r["approved"])
                if r["diff"] and not authorised:
                    probs.append(f"child differs from parent in {r['diff']} without authorisation")
                if r["diff"] and r["diff"] != ["g1"]:
                    probs.append(f"child differs in {r['diff']}, not only in the requested gene")
                if r["diff"] and r["mutate_calls"] < 1:
                    probs.append("child altered without going through mutate")
            if probs:
                led.fail("C20-R4", key, where(rep, rep.node), "; ".join(sorted(set(probs))))
            else:
                led.ok("C20-R4", key, where(rep, rep.node), f"{len(paths)} path(s): parent snapshot unchanged; child differs only in the authorised gene")

    # ---------------- R5 expression table
    ex = p.find_method(genome, "express")
    for t, _ in gtype.enum_members():
        for lv, _ in elevel.enum_members():
            for inctx in (False, True):
                def go_e(o):
                    it, obj = mk(o, False, "none", genes=(("g1", t, "NORMAL"),))
                    obj.fields[EXPR]["g1"].fields["level"] = it.enum_member(elevel, lv)
                    ctx = {"g1": 1} if inctx else {}
                    cfgd = it.call_fi(ex, [obj, ctx], {})
                    return "g1" in cfgd
                paths = explore(go_e, max_paths=20)
                outs = {r for _, r in paths}
                want = lv != "SILENCED" and t != "DORMANT" and (t != "CONDITIONAL" or inctx)
                key = f"Genome.express ▸ type={t} level={lv} in_context={inctx}"
                if outs == {want}:
                    led.ok("C20-R5", key, where(ex, ex.node), f"expressed={want}", nontrivial=True)
                else:
                    led.fail("C20-R5", key, where(ex, ex.node), f"expressed={sorted(outs)} but the statement requires {want}")
    # no-context call (None) behaves like empty context
    def go_e0(o):
        it, obj = mk(o, False, "none", genes=(("g1", "CONDITIONAL", "NORMAL"), ("g2", "STRUCTURAL", "NORMAL")))
        cfgd = it.call_fi(ex, [obj], {})
        return sorted(cfgd)
    outs = {tuple(r) for _, r in explore(go_e0)}
    key = "Genome.express ▸ no context"
    if outs == {("g2",)}:
        led.ok("C20-R5", key, where(ex, ex.node), "conditional gene withheld, structural gene expressed")
    else:
        led.fail("C20-R5", key, where(ex, ex.node), f"express() without context yields {sorted(outs)}")

    # ---------------- R6 rollback
    rb = p.find_method(genome, "rollback_mutation")
    mcls = p.cls("Mutation", G)
    for allow, PREV in [(a_, v_) for a_ in (False, True) for v_ in ("v1", None, 0, "", False)]:
        def go_rb(o):
            it, obj = mk(o, allow, "none", trace=("Genome.mutate",))
            log = obj.fields[MLOG]
            log.append(it.instantiate(mcls, [], dict(gene_name="g1", original_value="v0", new_value=PREV, approved=True)))
            log.append(it.instantiate(mcls, [], dict(gene_name="g1", original_value=PREV, new_value="v2", approved=True)))
            log.append(it.instantiate(mcls, [], dict(gene_name="g1", original_value="v2", new_value="v3", approved=False)))
            log.append(it.instantiate(mcls, [], dict(gene_name="other", original_value="x", new_value="y", approved=True)))
            seen = []
            real = p.find_method(genome, "mutate")

            def spy(interp, args, kwargs):
                seen.append((args[1], args[2] if len(args) > 2 else kwargs.get("new_value")))
                del interp.stubs["Genome.mutate"]
                try:
                    return interp.call_fi(real, args, kwargs)
                finally:
                    interp.stubs["Genome.mutate"] = spy
            it.stubs["Genome.mutate"] = spy
            before = genes_snap(obj)
            r = it.call_fi(rb, [obj, "g1"], {})
            return dict(ret=r, seen=seen, changed=genes_snap(obj) != before, value=obj.fields[GENES]["g1"].fields["value"])
        paths = explore(go_rb, max_paths=50)
        key = f"Genome.rollback_mutation ▸ allow_mutations={allow} ▸ preceding value {PREV!r}"
        probs = []
        for _, r in paths:
            if not (len(r["seen"]) == 1 and r["seen"][0][0] == "g1" and r["seen"][0][1] is PREV or r["seen"] == [("g1", PREV)] and type(r["seen"][0][1]) is type(PREV)):
                probs.append(f"rollback requested {r['seen']} instead of mutate('g1', {PREV!r}) (the value preceding the last approved mutation)")
            if r["changed"] and not allow:
                probs.append("rollback changed the gene table with mutations disabled")
            if allow and not (r["value"] is PREV or (r["value"] == PREV and type(r["value"]) is type(PREV))):
                probs.append(f"after rollback the value is {r['value']!r}, not {PREV!r}")
        if probs:
            led.fail("C20-R6", key, where(rb, rb.node), "; ".join(sorted(set(probs))))
        else:
            led.ok("C20-R6", key, where(rb, rb.node), f"{len(paths)} path(s): goes through mutate('g1', original value of the latest approved record); gated like any mutation")
