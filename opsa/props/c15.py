"""C15 — deadlock detection agrees with the real wait-for relation (maintenance discipline and victim choice)."""
from __future__ import annotations

import ast
import itertools

from ..fdai import Interp, Obj, PyRaise, Unknown, explore, Imprecise
from ..loader import AnchorError, dotted, is_self_attr, parent, short, src, walk_no_nested
from ..resolve import Resolver
from ..rules import cfg_of, fold_test, walk_folded, where

CT = "operon_ai/coordination/controller.py"
TY = "operon_ai/coordination/types.py"
WD = "operon_ai/coordination/watchdog.py"
FILES = [CT, TY, WD, "operon_ai/coordination/priority.py"]


# ---------------------------------------------------------------- effect summaries of the graph's mutators
def summarise_mutator(fi):
    """{'adds': [...], 'removes': set of predicates} where a predicate is a frozenset of
    ('waiter'|'blocking'|'resource', <parameter name>) equalities that select the removed edges"""
    params = [a for a in fi.params() if a != "self"]
    removes, adds, retargets = set(), [], []
    for n in walk_no_nested(fi.node):
        # del self.edges[X]  -> removes waiter == X
        if isinstance(n, ast.Delete):
            q = parent(n)
            tidy = isinstance(q, ast.If) and isinstance(q.test, ast.UnaryOp) and isinstance(q.test.op, ast.Not) and "self.edges[" in src(q.test.operand)
            for t in n.targets:
                if isinstance(t, ast.Subscript) and is_self_attr(t.value, "edges") and isinstance(t.slice, ast.Name) and t.slice.id in params and not tidy:
                    removes.add(frozenset({("waiter", t.slice.id)}))
        if isinstance(n, ast.Call) and isinstance(n.func, ast.Attribute) and n.func.attr == "pop" and is_self_attr(n.func.value, "edges") and n.args and isinstance(n.args[0], ast.Name) and n.args[0].id in params:
            removes.add(frozenset({("waiter", n.args[0].id)}))
        # self.edges[W] = [(b, r) for b, r in self.edges[W] if <keep>]
        if isinstance(n, ast.Assign) and isinstance(n.targets[0], ast.Subscript) and is_self_attr(n.targets[0].value, "edges") and isinstance(n.value, ast.ListComp):
            comp = n.value
            g = comp.generators[0]
            names = [x.id for x in ast.walk(g.target) if isinstance(x, ast.Name)]
            wkey = n.targets[0].slice
            waiter_fixed = wkey.id if isinstance(wkey, ast.Name) and wkey.id in params else None
            keep = g.ifs[0] if g.ifs else None
            if keep is None:
                if any(isinstance(x, ast.IfExp) for x in ast.walk(comp.elt)):
                    retargets.append(src(comp.elt))
                continue
            pred = set()
            if waiter_fixed:
                pred.add(("waiter", waiter_fixed))
            # removed = not keep ; keep is a conjunction/disjunction of  <elem> != <param>
            for c in (ast.walk(keep) if keep is not None else []):
                if isinstance(c, ast.Compare) and len(c.ops) == 1 and isinstance(c.left, ast.Name) and isinstance(c.comparators[0], ast.Name) and c.comparators[0].id in params:
                    role = {0: "blocking", 1: "resource"}.get(names.index(c.left.id)) if c.left.id in names else None
                    if role and isinstance(c.ops[0], ast.NotEq):
                        pred.add((role, c.comparators[0].id))
            # `keep = a != x or b != y`  removes  a == x and b == y ; `keep = a != x and b != y` removes either: split
            if isinstance(keep, ast.BoolOp) and isinstance(keep.op, ast.And):
                base = {q for q in pred if q[0] == "waiter"}
                for q in pred - base:
                    removes.add(frozenset(base | {q}))
            else:
                removes.add(frozenset(pred))
        # add
        if isinstance(n, ast.Call) and isinstance(n.func, ast.Attribute) and n.func.attr == "append" and isinstance(n.func.value, ast.Subscript) and is_self_attr(n.func.value.value, "edges"):
            adds.append(src(n.args[0]) if n.args else "?")
    return dict(adds=adds, removes=removes, retargets=retargets)


def run(p, led, tier):
    res = Resolver(p)
    ctrl = p.cls("CellCycleController", CT)
    graph = p.cls("DependencyGraph", TY)
    wdc = p.cls("Watchdog", WD)
    led.explanation = (
        "The wait-for graph must be a materialised view of {(w, h, r): w is blocked on r, h owns r}. Effect summaries "
        "of the graph's mutators (which edges a call adds / removes, as predicates over waiter, blocking and resource, "
        "extracted from the method bodies) are bound to the arguments at every call site in the controller and compared, "
        "event by event, with the delta the definition requires: BLOCKED adds (w, owner, r); a successful acquisition "
        "by w may only remove edges whose waiter is w; a full release of r by h may only remove edges (·, h, r); a "
        "pre-emption must retarget (·, old, r); completing or aborting x must remove every edge mentioning x on every "
        "path. Victim choice is extracted by abstract interpretation over all priority / age orderings of the cycle "
        "members; the victim is terminated through the controller's abort. Decides the maintenance discipline "
        "(necessary for the view to stay exact), not the exactness of the DFS over all histories.")
    led.not_decided = ["correctness of the DFS cycle search on all graphs", "exactness of the view over whole histories (only per-event deltas are compared)"]
    led.assumptions = ["A1 no reflection", "an operation's id is its key in the graph (controller passes ctx.operation_id)"]
    led.rule("C15-R1", "every controller event changes the wait-for graph by exactly the delta the definition requires (per call site)", 5)
    led.rule("C15-R2", "the deadlock victim is the lowest-priority (or oldest) live member and is terminated through abort_operation", 3)

    summaries = {}
    for m in graph.methods.values():
        if any(isinstance(n, (ast.Delete, ast.Assign, ast.Call)) and "self.edges" in src(n) for n in walk_no_nested(m.node)):
            summaries[m.name] = summarise_mutator(m)
    led.extra["mutator_summaries"] = {k: dict(adds=v["adds"], removes=[sorted(x) for x in v["removes"]], retargets=v["retargets"]) for k, v in summaries.items() if v["adds"] or v["removes"] or v["retargets"]}
    if "add_dependency" not in summaries or not any(v["removes"] for v in summaries.values()):
        raise AnchorError("DependencyGraph mutators not recognised")

    def site_effects(fi, region_nodes):
        """graph mutator calls among region_nodes: [(call, method, {param: arg text})]"""
        out = []
        for n in region_nodes:
            for c in ast.walk(n):
                if isinstance(c, ast.Call) and isinstance(c.func, ast.Attribute) and c.func.attr in summaries and "dependency_graph" in src(c.func.value):
                    m = graph.methods[c.func.attr]
                    params = [a for a in m.params() if a != "self"]
                    bind = {}
                    for i, a in enumerate(c.args):
                        if i < len(params):
                            bind[params[i]] = src(a)
                    for k in c.keywords:
                        bind[k.arg] = src(k.value)
                    out.append((c, c.func.attr, bind))
        return out

    acq = p.find_method(ctrl, "acquire_resource")
    rel = p.find_method(ctrl, "release_resource")
    if acq is None or rel is None:
        raise AnchorError("CellCycleController.acquire_resource / release_resource not found")
    cfg = cfg_of(acq, led)
    # identify the variable holding the lock result and the try_acquire call
    tcalls = [c for c in walk_no_nested(acq.node) if isinstance(c, ast.Call) and isinstance(c.func, ast.Attribute) and c.func.attr == "try_acquire"]
    if len(tcalls) != 1:
        raise AnchorError("acquire_resource: expected one try_acquire call")
    tn = cfg.node_of(tcalls[0])
    var = tn.ast.targets[0].id if isinstance(tn.ast, ast.Assign) and isinstance(tn.ast.targets[0], ast.Name) else None
    if var is None:
        raise AnchorError("acquire_resource: try_acquire result is not bound to a variable")
    LR = p.cls("LockResult", TY)
    me = "ctx.operation_id"
    for member in [n for n, _ in LR.enum_members()]:
        r = walk_folded(cfg, [(tn, m_, l) for m_, l in tn.succ if l != "exc"], {var: {f"LockResult.{member}"}})
        nodes = [n.ast for n in r if n != "__seen__" and hasattr(n, "kind") and n.kind == "stmt" and n.ast is not None]
        eff = site_effects(acq, nodes)
        key = f"CellCycleController.acquire_resource ▸ result {member}"
        removed = set()
        added = []
        for c, mname, bind in eff:
            for pred in summaries[mname]["removes"]:
                removed.add(frozenset((role, bind.get(par, par)) for role, par in pred))
            if summaries[mname]["adds"]:
                added.append(bind)
        if member == "BLOCKED":
            okadd = [b for b in added if b.get("waiter") == me and "owner" in b.get("blocking", "") and b.get("resource") in ("resource_id",)]
            if okadd and not removed:
                led.ok("C15-R1", key, where(acq, tcalls[0]), f"adds (waiter={me}, blocking=lock.owner, resource=resource_id); removes nothing")
            else:
                led.fail("C15-R1", key, where(acq, tcalls[0]), f"a blocked acquisition must add exactly the edge (waiter, current owner, resource); found adds={added} removes={[sorted(x) for x in removed]}")
        elif member in ("ACQUIRED", "REENTRANT"):
            bad = [pred for pred in removed if not any(role == "waiter" and arg == me for role, arg in pred)]
            if bad:
                led.fail("C15-R1", key, where(acq, tcalls[0]),
                         f"a successful acquisition removes edges selected by {[sorted(x) for x in bad]}: edges in which *other* operations wait on this one are dropped although it still owns what they wait for",
                         witness="B blocks on r1 held by A; A acquires an unrelated r2; the edge B→A disappears and a later real cycle A→B is not reported")
            elif added:
                led.fail("C15-R1", key, where(acq, tcalls[0]), f"a successful acquisition adds edges {added}")
            else:
                led.ok("C15-R1", key, where(acq, tcalls[0]), f"removes only edges whose waiter is the acquiring operation ({[sorted(x) for x in removed]})")
        elif member == "PREEMPTED":
            bad = [pred for pred in removed if not any(role == "waiter" and arg == me for role, arg in pred)]
            retarget = [b for c, mname, b in eff if summaries[mname].get("retargets")]
            if bad:
                led.fail("C15-R1", key + " ▸ removal", where(acq, tcalls[0]), f"pre-emption removes edges selected by {[sorted(x) for x in bad]} (others waiting on the new owner)",
                         witness="as for ACQUIRED")
            if not retarget:
                led.fail("C15-R1", key + " ▸ retarget", where(acq, tcalls[0]),
                         "after a pre-emption the edges (·, old owner, r) are not retargeted to the new owner: waiters keep pointing at an operation that no longer holds r",
                         witness="C waits on r held by A; B pre-empts r; the graph still says C→A")
            if not bad and retarget:
                led.ok("C15-R1", key, where(acq, tcalls[0]), "retargets the waiters of the pre-empted owner")
        else:
            if eff:
                led.fail("C15-R1", key, where(acq, tcalls[0]), f"graph changed on a {member} result: {[(m_, b) for _, m_, b in eff]}")
            else:
                led.ok("C15-R1", key, where(acq, tcalls[0]), "graph untouched", nontrivial=False)

    # release
    rcfg = cfg_of(rel, led)
    eff = site_effects(rel, [n.ast for n in rcfg.nodes if n.kind == "stmt" and n.ast is not None])
    removed = set()
    for c, mname, bind in eff:
        for pred in summaries[mname]["removes"]:
            removed.add(frozenset((role, bind.get(par, par)) for role, par in pred))
    key = "CellCycleController.release_resource ▸ full release"
    bad = []
    for pred in removed:
        d = dict(pred)
        if d.get("blocking") == me and d.get("resource") in ("resource_id",) and "waiter" not in d:
            continue
        bad.append(sorted(pred))
    if bad:
        led.fail("C15-R1", key, where(rel, rel.node),
                 f"a release removes edges selected by {bad}; only (·, releasing operation, released resource) may go: the operation's own waits and edges for resources it still holds are dropped",
                 witness="A holds r1 and r2, B waits on r1, C waits on r2; A releases r1: the edge C→A disappears although A still holds r2")
    elif not removed:
        led.fail("C15-R1", key, where(rel, rel.node), "a full release leaves the edges (·, releaser, resource) in the graph")
    else:
        led.ok("C15-R1", key, where(rel, rel.node), "removes exactly the edges that waited on this operation for this resource")

    # terminators: every path removes all edges mentioning the operation
    for tname in ("complete_operation", "abort_operation"):
        t = p.find_method(ctrl, tname)
        if t is None:
            raise AnchorError(f"CellCycleController.{tname} not found")
        tc = cfg_of(t, led)
        direct = set()
        for n in tc.nodes:
            if n.kind == "stmt" and n.ast is not None:
                for c, mname, bind in site_effects(t, [n.ast]):
                    preds = {frozenset((role, bind.get(par, par)) for role, par in pr) for pr in summaries[mname]["removes"]}
                    if frozenset({("waiter", me)}) in preds and frozenset({("blocking", me)}) in preds:
                        direct.add(n)
        key = f"CellCycleController.{tname} ▸ removes every edge mentioning the operation"
        esc = tc.escapes(starts=[tc.entry], through=direct, targets=[tc.exit]) if direct else [("no call", None)]
        if esc:
            led.fail("C15-R1", key, where(t, t.node),
                     "the graph is cleaned only as a side effect of releasing a held resource: an operation that ends while holding nothing (it was blocked on its first resource) leaves its wait-for edge behind",
                     witness="B blocks on r held by A and is aborted; the edge B→A stays; when A later blocks on something B 'holds' in a stale edge, a phantom cycle is reported")
        else:
            led.ok("C15-R1", key, where(t, t.node), "every path to return passes remove_all_for_agent(operation)")

    # ---------------- R1b: one-step refinement on every small wait-for graph
    # The controller's handling of an event is a graph transformation.  It is interpreted (fdai) on *every* graph with at most two
    # edges over operations {a, b, c} and resources {r, s}, for every relevant lock state, and the resulting graph is compared with
    # the delta the wait-for definition prescribes for that event.
    ctx_cls0 = p.cls("OperationContext", CT)
    lock_cls = p.cls("ResourceLock", TY)
    OPS, RES = ("a", "b", "c"), ("r", "s")
    all_edges = [(w, b, rr) for w in OPS for b in OPS if w != b for rr in RES]
    graphs = [()] + [(e,) for e in all_edges] + list(itertools.combinations(all_edges, 2))

    def setup(it, g, owner_r, preempt, a_holds_s=False):
        c = it.instantiate(ctrl, [], {})
        ctxs = {}
        for name, prio in (("a", 5), ("b", 1), ("c", 1)):
            oc = it.instantiate(ctx_cls0, [], dict(operation_id=name, agent_id="ag", priority=prio))
            ctxs[name] = oc
            c.fields["active_operations"][name] = oc
        for rr in RES:
            lk = it.instantiate(lock_cls, [], dict(resource_id=rr, allow_preemption=(preempt if rr == "r" else False)))
            c.fields["resources"][rr] = lk
        if owner_r:
            lk = c.fields["resources"]["r"]
            lk.fields.update(owner=owner_r, owner_priority=ctxs[owner_r].fields["priority"], hold_count=1)
            ctxs[owner_r].fields["acquired_resources"]["r"] = lk
        if a_holds_s:
            lk = c.fields["resources"]["s"]
            lk.fields.update(owner="a", owner_priority=5, hold_count=1)
            ctxs["a"].fields["acquired_resources"]["s"] = lk
        ed = c.fields["dependency_graph"].fields["edges"]
        for (w, b, rr) in g:
            ed.setdefault(w, []).append((b, rr))
        return c, ctxs

    def triples(c):
        return frozenset((w, b, rr) for w, lst in c.fields["dependency_graph"].fields["edges"].items() for (b, rr) in lst)

    def expected(kind, g, old_owner=None):
        G = set(g)
        if kind in ("ACQUIRED", "REENTRANT"):
            return frozenset(e for e in G if not (e[0] == "a" and e[2] == "r"))
        if kind == "BLOCKED":
            return frozenset(G | {("a", old_owner, "r")})
        if kind == "PREEMPTED":
            out = set()
            for (w, b, rr) in G:
                if b == old_owner and rr == "r":
                    b = "a"
                if w == "a" and rr == "r":
                    continue
                if w != b:
                    out.add((w, b, rr))
            return frozenset(out)
        if kind == "RELEASE":
            return frozenset(e for e in G if not (e[1] == "a" and e[2] == "r"))
        if kind == "END":
            return frozenset(e for e in G if "a" not in (e[0], e[1]))
        raise ValueError(kind)

    scenarios = [("acquire free", None, False), ("acquire own (re-entrant)", "a", False), ("acquire held (blocked)", "b", False), ("acquire pre-emptable", "b", True)]
    for label, owner, preempt in scenarios:
        bad, n = [], 0
        for g in graphs:
            def go(o):
                it = Interp(p, o)
                c, ctxs = setup(it, g, owner, preempt)
                r = it.call_fi(acq, [c, ctxs["a"], "r"], {})
                return (getattr(r, "name", repr(r)), triples(c))
            for _, (res_name, after) in explore(go, max_paths=20):
                n += 1
                want = expected(res_name, g, owner)
                # a pre-empted owner may additionally be recorded as waiting on the new owner (it sits in the lock's waiting list)
                alt = want | {(owner, "a", "r")} if res_name == "PREEMPTED" else want
                if after != want and after != alt:
                    bad.append(f"graph {sorted(g)} → {res_name}: got {sorted(after)}, definition gives {sorted(want)}")
        key = f"CellCycleController.acquire_resource ▸ {label} ▸ all graphs ≤ 2 edges"
        if bad:
            led.fail("C15-R1", key, where(acq, acq.node), f"{len(bad)} of {n} cases differ from the wait-for definition, e.g. {bad[0]}", path=bad[:6],
                     witness="B is blocked on r1 held by A; C (higher priority) pre-empts r1; the graph must now say B→C")
        else:
            led.ok("C15-R1", key, where(acq, acq.node), f"{n} cases: the graph after the event equals the definition's delta")
    for label, holds_s in (("release r, holding nothing else", False), ("release r while still holding s", True)):
        bad, n = [], 0
        for g in graphs:
            def go(o):
                it = Interp(p, o)
                c, ctxs = setup(it, g, "a", False, a_holds_s=holds_s)
                it.call_fi(rel, [c, ctxs["a"], "r"], {})
                return triples(c)
            for _, after in explore(go, max_paths=20):
                n += 1
                want = expected("RELEASE", g)
                if after != want:
                    bad.append(f"graph {sorted(g)}: got {sorted(after)}, definition gives {sorted(want)}")
        key = f"CellCycleController.release_resource ▸ {label} ▸ all graphs ≤ 2 edges"
        if bad:
            led.fail("C15-R1", key, where(rel, rel.node), f"{len(bad)} of {n} cases differ, e.g. {bad[0]}", path=bad[:6])
        else:
            led.ok("C15-R1", key, where(rel, rel.node), f"{n} cases: exactly the edges (·, releaser, resource) disappear")
    for tname in ("complete_operation", "abort_operation"):
        t = p.find_method(ctrl, tname)
        for label, owner in (("holding r", "a"), ("holding nothing", None)):
            bad, n = [], 0
            for g in graphs:
                def go(o):
                    it = Interp(p, o)
                    c, ctxs = setup(it, g, owner, False)
                    it.call_fi(t, [c, ctxs["a"]] + (["reason"] if tname == "abort_operation" else []), {})
                    return (triples(c), "a" in c.fields["active_operations"], c.fields["resources"]["r"].fields["owner"])
                for _, (after, still_active, own) in explore(go, max_paths=20):
                    n += 1
                    want = expected("END", g)
                    if after != want:
                        bad.append(f"graph {sorted(g)}: got {sorted(after)}, definition gives {sorted(want)}")
                    if still_active or own == "a":
                        bad.append(f"after {tname} the operation is still active / owns r")
            key = f"CellCycleController.{tname} ▸ {label} ▸ all graphs ≤ 2 edges"
            if bad:
                led.fail("C15-R1", key, where(t, t.node), f"{len(bad)} of {n} cases differ, e.g. {bad[0]}", path=bad[:6])
            else:
                led.ok("C15-R1", key, where(t, t.node), f"{n} cases: every edge mentioning the operation disappears, nothing else changes")
    led.extra["graphs_enumerated"] = len(graphs)

    # the victim owns nothing afterwards: the controller's release-all may not abandon the remaining resources after one failed release
    from .c14 import _abandons
    relall = p.find_method(ctrl, "release_all_resources")
    if relall is not None:
        ab = _abandons(relall)
        key = "CellCycleController.release_all_resources ▸ a failed release does not abandon the victim's other resources"
        if ab:
            led.fail("C15-R2", key, where(relall, ab[0][1]), f"`{type(ab[0][1]).__name__.lower()}` leaves the clean-up loop after one failed release: a victim that lost a resource to pre-emption keeps the rest after being killed",
                     witness="A holds r1 (pre-emptable) and r2; B pre-empts r1 and blocks on r2; A blocks on r1; watchdog kills A: A still owns r2")
        else:
            led.ok("C15-R2", key, where(relall, relall.node), "no break/return leaves the loop over the victim's record")

    # ---------------- R2 victim
    sel = p.find_method(wdc, "_select_deadlock_victim")
    exe = p.find_method(wdc, "execute")
    if sel is None or exe is None:
        raise AnchorError("Watchdog._select_deadlock_victim / execute not found")
    ctx_cls = p.cls("OperationContext", CT)
    dl_cls = p.cls("DeadlockInfo", TY)
    for strategy, field in (("priority", "priority"), ("oldest", "created_at")):
        bad = []
        n = 0
        for perm in itertools.permutations([1, 2, 3]):
            for dead in (None, "b"):
                def go(o):
                    it = Interp(p, o)
                    w = it.instantiate(wdc, [], {})
                    w.fields["deadlock_strategy"] = strategy
                    c = it.instantiate(ctrl, [], {})
                    ops = {}
                    for name, rank in zip("abc", perm):
                        if name == dead:
                            continue
                        oc = it.instantiate(ctx_cls, [], dict(operation_id=name, agent_id="ag", priority=rank if field == "priority" else 0))
                        if field == "created_at":
                            oc.fields["created_at"] = rank
                        ops[name] = oc
                        c.fields["active_operations"][name] = oc
                    info = it.instantiate(dl_cls, [], dict(agents=["a", "b", "c"], resources=[], cycle=[]))
                    return it.call_fi(sel, [w, c, info], {})
                outs = {r for _, r in explore(go, max_paths=50)}
                n += 1
                live = [(rank, name) for name, rank in zip("abc", perm) if name != dead]
                want = min(live)[1]
                if outs != {want}:
                    bad.append(f"{field}s {dict(zip('abc', perm))}, live={[x for _, x in live]}: victim {sorted(outs, key=str)}, expected {want}")
        key = f"Watchdog._select_deadlock_victim ▸ strategy={strategy}"
        if bad:
            led.fail("C15-R2", key, where(sel, sel.node), f"{len(bad)}/{n} orderings: {bad[0]}")
        else:
            led.ok("C15-R2", key, where(sel, sel.node), f"{n} orderings × live subsets: the victim is the live member with the smallest {field}")
    # the victim is aborted through the controller
    calls = [c for c in walk_no_nested(exe.node) if isinstance(c, ast.Call) and isinstance(c.func, ast.Attribute) and c.func.attr == "abort_operation"]
    key = "Watchdog.execute ▸ victim terminated through abort_operation"
    if calls:
        led.ok("C15-R2", key, where(exe, calls[0]), "every event's operation is aborted through the controller (which releases and de-lists, C14)")
    else:
        led.fail("C15-R2", key, where(exe, exe.node), "deadlock victims are not terminated through abort_operation")
