"""C15 — deadlock detection agrees with the real wait-for relation (maintenance discipline and victim choice)."""
from __future__ import annotations

import ast
import itertools

from ..fdai import Interp, Obj, PyRaise, Unknown, explore, Imprecise
from ..loader import AnchorError, dotted, is_self_attr, parent, short, src, walk_no_nested
from ..resolve import Resolver
from ..rules import cfg_of, fold_test, walk_folded, where

CT = "operon_ai/coordination/controller.py"
TY = "operon_ai/coordination/types.py"
WD = "operon_ai/coordination/watchdog.py"
FILES = [CT, TY, WD, "operon_ai/coordination/priority.py"]


def run(p, led, tier):
    res = Resolver(p)
    ctrl = p.cls("CellCycleController", CT)
    graph = p.cls("DependencyGraph", TY)
    wdc = p.cls("Watchdog", WD)
    led.explanation = (
        "The wait-for graph must be a materialised view of {(w, h, r): w is blocked on r, h owns r}. The controller's "
        "handling of each event (acquire with every outcome, release, complete, abort) is abstractly interpreted on every "
        "wait-for graph with at most two edges over three operations and two resources, for every relevant lock state, "
        "and the graph afterwards is compared with the delta the definition requires: BLOCKED adds (w, owner, r); a "
        "successful acquisition by w removes only w's wait on r; a full release of r by h removes exactly (·, h, r); a "
        "pre-emption retargets (·, old, r); completing or aborting x removes every edge mentioning x whether or not x "
        "holds anything. Victim choice is extracted by abstract interpretation over all priority / age orderings of the cycle "
        "members; the victim is terminated through the controller's abort. Decides the maintenance discipline "
        "(necessary for the view to stay exact), not the exactness of the DFS over all histories.")
    led.not_decided = ["correctness of the DFS cycle search on all graphs", "exactness of the view over whole histories (only per-event deltas are compared)"]
    led.assumptions = ["A1 no reflection", "an operation's id is its key in the graph (controller passes ctx.operation_id)"]
    led.rule("C15-R1", "every controller event changes the wait-for graph by exactly the delta the definition requires (per call site)", 5)
    led.rule("C15-R2", "the deadlock victim is the lowest-priority (or oldest) live member and is terminated through abort_operation", 3)

    acq = p.find_method(ctrl, "acquire_resource")
    rel = p.find_method(ctrl, "release_resource")
    if acq is None or rel is None:
        raise AnchorError("CellCycleController.acquire_resource / release_resource not found")
    LR = p.cls("LockResult", TY)
    # ---------------- R1b: one-step refinement on every small wait-for graph
    # The controller's handling of an event is a graph transformation.  It is interpreted (fdai) on *every* graph with at most two
    # edges over operations {a, b, c} and resources {r, s}, for every relevant lock state, and the resulting graph is compared with
    # the delta the wait-for definition prescribes for that event.
    ctx_cls0 = p.cls("OperationContext", CT)
    lock_cls = p.cls("ResourceLock", TY)
    OPS, RES = ("a", "b", "c"), ("r", "s")
    all_edges = [(w, b, rr) for w in OPS for b in OPS if w != b for rr in RES]
    graphs = [()] + [(e,) for e in all_edges] + list(itertools.combinations(all_edges, 2))

    def setup(it, g, owner_r, preempt, a_holds_s=False, holds=1, prios=(("a", 5), ("b", 1), ("c", 1))):
        c = it.instantiate(ctrl, [], {})
        ctxs = {}
        for name, prio in prios:
            oc = it.instantiate(ctx_cls0, [], dict(operation_id=name, agent_id="ag", priority=prio))
            ctxs[name] = oc
            c.fields["active_operations"][name] = oc
        for rr in RES:
            lk = it.instantiate(lock_cls, [], dict(resource_id=rr, allow_preemption=(preempt if rr == "r" else False)))
            c.fields["resources"][rr] = lk
        if owner_r:
            lk = c.fields["resources"]["r"]
            lk.fields.update(owner=owner_r, owner_priority=ctxs[owner_r].fields["priority"], hold_count=holds)
            ctxs[owner_r].fields["acquired_resources"]["r"] = lk
        if a_holds_s:
            lk = c.fields["resources"]["s"]
            lk.fields.update(owner="a", owner_priority=5, hold_count=1)
            ctxs["a"].fields["acquired_resources"]["s"] = lk
        ed = c.fields["dependency_graph"].fields["edges"]
        for (w, b, rr) in g:
            ed.setdefault(w, []).append((b, rr))
            # a recorded wait is also a queued waiter of the lock (kept sorted by priority, highest first), as the
            # controller's own blocked acquisition would have left it
            lk = c.fields["resources"][rr]
            if lk.fields.get("owner") == b and isinstance(lk.fields.get("waiting_list"), list) and all(x[0] != w for x in lk.fields["waiting_list"]):
                lk.fields["waiting_list"].append((w, ctxs[w].fields["priority"]))
                lk.fields["waiting_list"].sort(key=lambda x: -x[1])
        return c, ctxs

    def triples(c):
        def pair(e):
            # an edge is a (blocker, resource) pair: a plain tuple, or a record (NamedTuple / dataclass) whose first two fields are
            if isinstance(e, Obj):
                vs = list(e.fields.values())
                return vs[0], vs[1]
            return e[0], e[1]
        return frozenset((w,) + pair(e) for w, lst in c.fields["dependency_graph"].fields["edges"].items() for e in lst)

    def expected(kind, g, old_owner=None):
        G = set(g)
        if kind in ("ACQUIRED", "REENTRANT"):
            return frozenset(e for e in G if not (e[0] == "a" and e[2] == "r"))
        if kind == "BLOCKED":
            return frozenset(G | {("a", old_owner, "r")})
        if kind == "PREEMPTED":
            out = set()
            for (w, b, rr) in G:
                if b == old_owner and rr == "r":
                    b = "a"
                if w == "a" and rr == "r":
                    continue
                if w != b:
                    out.add((w, b, rr))
            return frozenset(out)
        if kind == "RELEASE":
            return frozenset(e for e in G if not (e[1] == "a" and e[2] == "r"))
        if kind == "END":
            return frozenset(e for e in G if "a" not in (e[0], e[1]))
        raise ValueError(kind)

    LOWC = (("a", 5), ("b", 1), ("c", 0))        # c is less urgent than the owner b: it queues *behind* a displaced b
    STALE = "stale"      # the acquirer is still in the lock's waiting list from an earlier blocked attempt (against a holder that has
    #                      since let go, which removed the edge): the new blocked attempt must be recorded all the same
    scenarios = [("acquire free", None, False, None), ("acquire own (re-entrant)", "a", False, None), ("acquire held (blocked)", "b", False, None),
                 ("acquire held (blocked) again, still queued from an earlier attempt whose edge is gone", "b", False, STALE),
                 ("acquire pre-emptable", "b", True, None), ("acquire pre-emptable, a lower-priority waiter queued", "b", True, LOWC)]
    for label, owner, preempt, prios in scenarios:
        bad, n = [], 0
        for g in graphs:
            def go(o):
                it = Interp(p, o)
                c, ctxs = setup(it, g, owner, preempt, **({"prios": prios} if prios and prios is not STALE else {}))
                if prios is STALE:
                    wl = c.fields["resources"]["r"].fields.get("waiting_list")
                    if isinstance(wl, list) and all(x[0] != "a" for x in wl):
                        wl.append(("a", ctxs["a"].fields["priority"]))
                        wl.sort(key=lambda x: -x[1])
                r = it.call_fi(acq, [c, ctxs["a"], "r"], {})
                return (getattr(r, "name", repr(r)), triples(c))
            for _, (res_name, after) in explore(go, max_paths=20):
                n += 1
                want = expected(res_name, g, owner)
                # a pre-empted owner may additionally be recorded as waiting on the new owner (it sits in the lock's waiting list)
                alt = want | {(owner, "a", "r")} if res_name == "PREEMPTED" else want
                if after != want and after != alt:
                    bad.append(f"graph {sorted(g)} → {res_name}: got {sorted(after)}, definition gives {sorted(want)}")
        key = f"CellCycleController.acquire_resource ▸ {label} ▸ all graphs ≤ 2 edges"
        if bad:
            led.fail("C15-R1", key, where(acq, acq.node), f"{len(bad)} of {n} cases differ from the wait-for definition, e.g. {bad[0]}", path=bad[:6],
                     witness="B is blocked on r1 held by A; C (higher priority) pre-empts r1; the graph must now say B→C")
        else:
            led.ok("C15-R1", key, where(acq, acq.node), f"{n} cases: the graph after the event equals the definition's delta")
    for label, holds_s, holds in (("release r, holding nothing else", False, 1), ("release r while still holding s", True, 1),
                                  ("partial release of r held twice (re-entrant): r stays owned", False, 2)):
        bad, n = [], 0
        for g in graphs:
            def go(o):
                it = Interp(p, o)
                c, ctxs = setup(it, g, "a", False, a_holds_s=holds_s, holds=holds)
                it.call_fi(rel, [c, ctxs["a"], "r"], {})
                return triples(c)
            for _, after in explore(go, max_paths=20):
                n += 1
                want = expected("RELEASE", g) if holds == 1 else frozenset(g)
                if after != want:
                    bad.append(f"graph {sorted(g)}: got {sorted(after)}, definition gives {sorted(want)}")
        key = f"CellCycleController.release_resource ▸ {label} ▸ all graphs ≤ 2 edges"
        if bad:
            led.fail("C15-R1", key, where(rel, rel.node), f"{len(bad)} of {n} cases differ, e.g. {bad[0]}", path=bad[:6])
        else:
            led.ok("C15-R1", key, where(rel, rel.node), f"{n} cases: exactly the edges (·, releaser, resource) disappear")
    for tname in ("complete_operation", "abort_operation"):
        t = p.find_method(ctrl, tname)
        for label, owner in (("holding r", "a"), ("holding nothing", None)):
            bad, n = [], 0
            for g in graphs:
                def go(o):
                    it = Interp(p, o)
                    c, ctxs = setup(it, g, owner, False)
                    it.call_fi(t, [c, ctxs["a"]] + (["reason"] if tname == "abort_operation" else []), {})
                    return (triples(c), "a" in c.fields["active_operations"], c.fields["resources"]["r"].fields["owner"])
                for _, (after, still_active, own) in explore(go, max_paths=20):
                    n += 1
                    want = expected("END", g)
                    if after != want:
                        bad.append(f"graph {sorted(g)}: got {sorted(after)}, definition gives {sorted(want)}")
                    if still_active or own == "a":
                        bad.append(f"after {tname} the operation is still active / owns r")
            key = f"CellCycleController.{tname} ▸ {label} ▸ all graphs ≤ 2 edges"
            if bad:
                led.fail("C15-R1", key, where(t, t.node), f"{len(bad)} of {n} cases differ, e.g. {bad[0]}", path=bad[:6])
            else:
                led.ok("C15-R1", key, where(t, t.node), f"{n} cases: every edge mentioning the operation disappears, nothing else changes")
    led.extra["graphs_enumerated"] = len(graphs)

    # ---------------- R3 detection has no memory: after any event, what check_deadlock() reports is what a search of the
    # current edges reports (an answer remembered from before the event is not an answer)
    led.rule("C15-R3", "check_deadlock() after an event reports exactly what a fresh search of the current wait-for edges reports (no remembered answer)", 1)
    dg_cls = next((ci for lst in p.classes.values() for ci in lst if ci.name == "DependencyGraph" and ci.module.rel == "operon_ai/coordination/types.py"), None)
    chk = p.find_method(ctrl, "check_deadlock")
    if dg_cls is None or chk is None or "detect_cycle" not in dg_cls.methods:
        raise AnchorError("DependencyGraph.detect_cycle / CellCycleController.check_deadlock not found")

    def norm(d):
        if d is None:
            return None
        cyc = d.fields.get("cycle") if isinstance(d, Obj) else None
        return frozenset(tuple(x) for x in cyc) if isinstance(cyc, list) else repr(d)

    def fresh_detect(it, c):
        g2 = it.instantiate(dg_cls, [], {})
        for w, lst in c.fields["dependency_graph"].fields["edges"].items():
            g2.fields["edges"][w] = list(lst)
        return norm(it.call_fi(dg_cls.methods["detect_cycle"], [g2], {}))
    events3 = []
    for label, owner, preempt, prios in scenarios:
        events3.append((f"acquire_resource ▸ {label}", dict(owner_r=owner, preempt=preempt, **({"prios": prios} if prios and prios is not STALE else {})), lambda it, c, ctxs: it.call_fi(acq, [c, ctxs["a"], "r"], {})))
    events3.append(("release_resource", dict(owner_r="a", preempt=False), lambda it, c, ctxs: it.call_fi(rel, [c, ctxs["a"], "r"], {})))
    for tname in ("complete_operation", "abort_operation"):
        t3 = p.find_method(ctrl, tname)
        events3.append((tname, dict(owner_r="a", preempt=False), (lambda it, c, ctxs, _t=t3, _n=tname: it.call_fi(_t, [c, ctxs["a"]] + (["reason"] if _n == "abort_operation" else []), {}))))
    bad3, n3 = [], 0
    for label, kw, ev in events3:
        for g in graphs:
            if len(g) < 2:
                continue
            def go3(o, _kw=kw, _ev=ev, _g=g):
                it = Interp(p, o)
                c, ctxs = setup(it, _g, _kw["owner_r"], _kw["preempt"], **({"prios": _kw["prios"]} if "prios" in _kw else {}))
                before = norm(it.call_fi(chk, [c], {}))
                _ev(it, c, ctxs)
                live = norm(it.call_fi(chk, [c], {}))
                return before, live, fresh_detect(it, c), triples(c)
            for _, (before, live, ref, edges_) in explore(go3, max_paths=20):
                n3 += 1
                if live != ref:
                    bad3.append(f"{label}, graph {sorted(g)}: check_deadlock() reports {sorted(live) if live else live} on edges {sorted(edges_)}, a fresh search reports {sorted(ref) if ref else ref} (it reported {sorted(before) if before else before} before the event)")
    key = "CellCycleController.check_deadlock ▸ same answer as a fresh search after every event"
    if bad3:
        led.fail("C15-R3", key, where(chk, chk.node), f"{len(bad3)} of {n3} cases, e.g. {bad3[0]}", path=bad3[:6],
                 witness="W and A deadlock and a check sees it; C pre-empts the contested lock, which dissolves the cycle; the next check still reports it and the watchdog kills a victim")
    else:
        led.ok("C15-R3", key, where(chk, chk.node), f"{n3} cases: {len(events3)} events × every 2-edge graph, a check before and after the event")

    # the victim owns nothing afterwards: the controller's release-all may not abandon the remaining resources after one failed release
    from .c14 import _abandons
    relall = p.find_method(ctrl, "release_all_resources")
    if relall is not None:
        ab = _abandons(relall)
        key = "CellCycleController.release_all_resources ▸ a failed release does not abandon the victim's other resources"
        if ab:
            led.fail("C15-R2", key, where(relall, ab[0][1]), f"`{type(ab[0][1]).__name__.lower()}` leaves the clean-up loop after one failed release: a victim that lost a resource to pre-emption keeps the rest after being killed",
                     witness="A holds r1 (pre-emptable) and r2; B pre-empts r1 and blocks on r2; A blocks on r1; watchdog kills A: A still owns r2")
        else:
            led.ok("C15-R2", key, where(relall, relall.node), "no break/return leaves the loop over the victim's record")

    # ---------------- R2 victim
    # the victim selector by role: the Watchdog method (other than check/execute) that receives the DeadlockInfo
    sel = None
    cands_ = []
    for m in wdc.methods.values():
        if m.name in ("check", "execute", "__init__"):
            continue
        if any(a.annotation is not None and "DeadlockInfo" in src(a.annotation) for a in m.node.args.args) and any(is_self_attr(x, "deadlock_strategy") or "deadlock_strategy" in src(x) for x in ast.walk(m.node) if isinstance(x, ast.Attribute)):
            cands_.append(m)
    if len(cands_) > 1:
        # several methods look at the deadlock and the strategy (a describer, a logger …): the selector is the one that is
        # given the controller to look the operations up in, and is not handed the victim
        narrowed = [m for m in cands_ if any(a.annotation is not None and ctrl.name in src(a.annotation) for a in m.node.args.args)
                    and not any(a.annotation is not None and "OperationContext" in src(a.annotation) for a in m.node.args.args)]
        cands_ = narrowed or cands_
    if len(cands_) == 1:
        sel = cands_[0]
    if sel is None:
        cands = [m for m in wdc.methods.values() if m.name not in ("check", "execute", "__init__") and any(is_self_attr(x, "deadlock_strategy") for x in ast.walk(m.node))]
        sel = cands[0] if len(cands) == 1 else None
    exe = p.find_method(wdc, "execute")
    if sel is None or exe is None:
        raise AnchorError("Watchdog: victim selector (method taking the DeadlockInfo and reading deadlock_strategy) / execute not found")
    led.extra["victim_selector"] = sel.qual
    ctx_cls = p.cls("OperationContext", CT)
    dl_cls = p.cls("DeadlockInfo", TY)
    for strategy, field in (("priority", "priority"), ("oldest", "created_at")):
        bad = []
        n = 0
        for perm in itertools.permutations([1, 2, 3]):
            for dead in (None, "b"):
                def go(o):
                    it = Interp(p, o)
                    w = it.instantiate(wdc, [], {})
                    w.fields["deadlock_strategy"] = strategy
                    c = it.instantiate(ctrl, [], {})
                    ops = {}
                    for name, rank in zip("abc", perm):
                        if name == dead:
                            continue
                        oc = it.instantiate(ctx_cls, [], dict(operation_id=name, agent_id="ag", priority=rank if field == "priority" else 0))
                        if field == "created_at":
                            oc.fields["created_at"] = rank
                        ops[name] = oc
                        c.fields["active_operations"][name] = oc
                    info = it.instantiate(dl_cls, [], dict(agents=["a", "b", "c"], resources=[], cycle=[]))
                    return it.call_fi(sel, [w, c, info], {})
                outs = {r for _, r in explore(go, max_paths=50)}
                n += 1
                live = [(rank, name) for name, rank in zip("abc", perm) if name != dead]
                want = min(live)[1]
                if outs != {want}:
                    bad.append(f"{field}s {dict(zip('abc', perm))}, live={[x for _, x in live]}: victim {sorted(outs, key=str)}, expected {want}")
        key = f"{sel.qual} ▸ strategy={strategy}"
        if bad:
            led.fail("C15-R2", key, where(sel, sel.node), f"{len(bad)}/{n} orderings: {bad[0]}")
        else:
            led.ok("C15-R2", key, where(sel, sel.node), f"{n} orderings × live subsets: the victim is the live member with the smallest {field}")
    # the victim is aborted through the controller
    calls = [c for c in walk_no_nested(exe.node) if isinstance(c, ast.Call) and isinstance(c.func, ast.Attribute) and c.func.attr == "abort_operation"]
    key = "Watchdog.execute ▸ victim terminated through abort_operation"
    if calls:
        led.ok("C15-R2", key, where(exe, calls[0]), "every event's operation is aborted through the controller (which releases and de-lists, C14)")
    else:
        led.fail("C15-R2", key, where(exe, exe.node), "deadlock victims are not terminated through abort_operation")
