"""C08 — circuit breaker trips at the threshold, isolates while open, recovers half-open."""
from __future__ import annotations

import ast

from ..fdai import Obj, Unknown, explore, Imprecise, EnumVal, PyRaise, cmp_outcome
from ..loader import AnchorError, short, src, walk_no_nested, is_self_attr
from ..rules import where, package_attr_writes, attr_writes, elapsed_component
from .loopsmodel import EXC, OTHER, Harness, alphabet, gates, LOOPS, sname
from .c07 import may_pass

FILES = [LOOPS]
STATES = ["CLOSED", "OPEN", "HALF_OPEN"]


def run(p, led, tier):
    h = Harness(p)
    alpha, _ = alphabet(p)
    G = gates(p)
    led.explanation = (
        "Finite-domain abstract interpretation of the breaker's four methods from each of the 3 states with counters, "
        "threshold and clock Unknown (both outcomes of every Unknown test explored): the complete transition relation "
        "with the guard under which each write happens is extracted and compared with the statement's automaton. "
        "run() is then interpreted for every state × gate × executor verdict × assessor verdict (agents stubbed): "
        "a refusing breaker must consult no agent and no cache and answer blocked/CIRCUIT_OPEN; each outcome class "
        "must reach the recorder the statement names. The direction of the recovery-timeout comparison is checked on "
        "the comparison's operands. Who-may-write the breaker state is package-wide.")
    led.exhaustive = True
    led.not_decided = ["behaviour at exact clock equality (>= and > both accepted)", "numeric threshold arithmetic beyond the >= test"]
    led.assumptions = ["agents are the adversary (stubs returning every verdict class or raising)", "A2 datetime arithmetic is monotone"]
    led.rule("C08-R1", "every write of the breaker state is an edge of the statement's automaton, taken under the guard the statement names", 12)
    led.rule("C08-R2", "while the breaker refuses, run() consults neither agents nor cache and answers blocked/CIRCUIT_OPEN; an admitted request consults the agents; disabled breaker always admits", 6)
    led.rule("C08-R3", "permitted → success recorder; intentional block → no recorder; executor FAILURE (not successful) and agent exception → failure recorder (one obligation per outcome class, all gate × verdict cells enumerated)", 4)
    led.rule("C08-R4", "failure count incremented only by the failure recorder, cleared on recovery and manual reset; only breaker methods write the state", 3)
    L = h.loop
    N = h.names
    M = {"admit": N.admit, "failure": N.rec_failure, "success": N.rec_success, "reset": N.reset, "run": N.run}
    ROLE_NAME = {"admit": f"admission test {N.admit.name}", "failure": f"failure recorder {N.rec_failure.name}", "success": f"success recorder {N.rec_success.name}", "reset": N.reset.name}
    SF, CF, TRIPS = N.state, N.count, N.trips
    led.extra["roles"] = N.describe()

    # the timestamp the recovery timeout is measured from: decided on the interpreted admission test from OPEN — every
    # None-initialised private field is made symbolic, and the field whose symbol appears together with the recovery
    # timeout in a recorded comparison is the one
    TS = None
    cands_ts = set()

    def probe(o):
        it, obj = h.build(o, "AND", True, False, "OPEN")
        for k, v in list(obj.fields.items()):
            if v is None and k.startswith("_"):
                obj.fields[k] = Unknown(k)
        try:
            it.call_fi(N.admit, [obj], {})
        except PyRaise:
            pass
        return [d[2] for d in it.decisions if isinstance(d[2], str) and "recovery_timeout" in d[2]], [k for k in obj.fields if k.startswith("_")]
    for _, (syms, fields_) in explore(probe, max_paths=200):
        for sy in syms:
            for k in fields_:
                if k in sy:
                    cands_ts.add(k)
    if len(cands_ts) == 1:
        TS = next(iter(cands_ts))
    ts_site = (N.admit, N.admit.node)
    if TS is None:
        raise AnchorError(f"{N.admit.qual}: the field the recovery timeout is measured from could not be identified (candidates {sorted(cands_ts)})")
    led.extra["recovery_measured_from"] = TS

    def drive(o, mname, state):
        it, obj = h.build(o, "AND", True, False, state)
        if TS in obj.fields:
            # state invariant (checked below: whoever opens the breaker stamps the time): an OPEN / HALF_OPEN breaker has a
            # recorded failure time — an arbitrary timestamp, never None; a CLOSED one may have none
            obj.fields[TS] = Unknown(TS, kind="datetime") if state != "CLOSED" else Unknown(TS)
        it.watch_fields.add(("CoherentFeedForwardLoop", TS))
        try:
            r = it.call_fi(M[mname], [obj], {})
        except PyRaise as e:
            r = ("raise", repr(e.exc))
        return dict(ret=r, writes=[e for e in it.events if e[0] == "write"], final=sname(obj.fields[SF]),
                    count=obj.fields[CF], last=obj.fields[N.last_failure], decisions=list(it.decisions))

    def elapsed_held(dec):
        return any(cmp_outcome(d, TS, "recovery_timeout") in ("ge", "gt") for d in dec)

    def threshold_held(dec):
        return any(cmp_outcome(d, CF, "failure_threshold") in ("ge", "gt") for d in dec)

    for mname in ("admit", "failure", "success", "reset"):
        for st in STATES:
            paths = explore(lambda o: drive(o, mname, st), max_paths=200)
            key = f"{ROLE_NAME[mname]} ▸ from {st}"
            probs = []
            edges = set()
            for _, r in paths:
                sw = [(sname(w[3]), sname(w[4])) for w in r["writes"] if w[2] == SF]
                for e in sw:
                    edges.add(e)
                fin = r["final"]
                if mname == "admit":
                    if st == "CLOSED" and (sw or r["ret"] is not True):
                        probs.append(f"closed breaker: ret={r['ret']!r} writes={sw}")
                    if st == "HALF_OPEN" and (sw or r["ret"] is not True):
                        probs.append(f"half-open breaker must admit the probe unchanged: ret={r['ret']!r} writes={sw}")
                    if st == "OPEN":
                        elapsed = elapsed_held(r["decisions"])
                        if sw and not elapsed:
                            probs.append(f"OPEN→{fin} without the recovery-timeout test having held")
                        if sw and sw != [("OPEN", "HALF_OPEN")]:
                            probs.append(f"illegal write(s) {sw}")
                        comp = [d[2] for d in r["decisions"] if isinstance(d[2], str) and TS in d[2] and "recovery_timeout" in d[2] and elapsed_component(d[2])]
                        if comp:
                            probs.append(f"the recovery timeout is compared with a component of the elapsed time, not the elapsed time: `{comp[0][:140]}` ignores whole days (an open breaker stays shut after a day although the timeout passed)")
                        if elapsed and (fin != "HALF_OPEN" or r["ret"] is not True):
                            probs.append(f"timeout elapsed but probe not admitted (state {fin}, ret {r['ret']!r})")
                        if not sw and r["ret"] is not False:
                            probs.append(f"open breaker admits a request (ret {r['ret']!r}) without moving to HALF_OPEN")
                elif mname == "failure":
                    inc = [w for w in r["writes"] if w[2] == CF]
                    if len(inc) != 1 or "Add 1" not in repr(inc[0][4]):
                        probs.append(f"failure count not incremented by exactly one ({[repr(w[4]) for w in inc]})")
                    restarted = any(w[2] == TS and "clock" in repr(w[4]) for w in r["writes"])
                    if fin == "OPEN" and st != "OPEN" and not restarted:
                        probs.append(f"breaker (re)opens without `{TS}` being set to the current time: the recovery timeout is not (re)started and the next request is admitted as a probe at once")
                    if st == "OPEN" and not restarted:
                        pass   # a failure recorded while already open need not move the window
                    reached = threshold_held(r["decisions"])
                    if st == "CLOSED":
                        if sw and sw != [("CLOSED", "OPEN")]:
                            probs.append(f"illegal write(s) {sw}")
                        if sw and not reached:
                            probs.append("CLOSED→OPEN without `count >= threshold` having held: opens before the threshold")
                        if reached and fin != "OPEN":
                            probs.append("threshold reached but breaker stays CLOSED")
                    if st == "HALF_OPEN" and sw != [("HALF_OPEN", "OPEN")]:
                        probs.append(f"failed probe must re-open the breaker; writes={sw}")
                    if st == "OPEN" and sw:
                        probs.append(f"illegal write(s) {sw} from OPEN")
                    if sw and sw[-1][1] == "OPEN" and not any(w[2] == TRIPS for w in r["writes"]):
                        probs.append("trip not counted")
                elif mname == "success":
                    if st == "HALF_OPEN":
                        if sw != [("HALF_OPEN", "CLOSED")]:
                            probs.append(f"successful probe must close the breaker; writes={sw}")
                        if r["count"] != 0:
                            probs.append(f"failure count not cleared on recovery ({r['count']!r})")
                    elif sw:
                        probs.append(f"illegal write(s) {sw}")
                    if any(w[2] == CF for w in r["writes"]) and st != "HALF_OPEN":
                        pass   # resetting consecutive failures on success is allowed ("in total" / "consecutive" both satisfied)
                elif mname == "reset":
                    if fin != "CLOSED" or r["count"] != 0:
                        probs.append(f"manual reset leaves state {fin}, count {r['count']!r}")
            if probs:
                led.fail("C08-R1", key, where(M[mname], M[mname].node), "; ".join(sorted(set(probs))))
            else:
                led.ok("C08-R1", key, where(M[mname], M[mname].node), f"{len(paths)} path(s); state writes {sorted(f'{a}→{b}' for a, b in edges) or 'none'}", nontrivial=len(paths) > 1 or bool(edges))

    # exact threshold (integers): from CLOSED the breaker opens on this failure iff the count *after* it has reached the threshold
    from ..fdai import LinInterp, Lin, entails

    def drive_exact(o):
        it, obj = h.build(o, "AND", True, False, "CLOSED", interp_cls=LinInterp)
        n, t = Lin.sym("failures_so_far"), Lin.sym("threshold")
        it.assume(n)
        it.assume(t.add(Lin({}, 1), -1))
        obj.fields[CF] = n
        obj.fields["failure_threshold"] = t
        it.call_fi(M["failure"], [obj], {})
        fin = sname(obj.fields[SF])
        after = n.add(Lin({}, 1))
        if fin == "OPEN":
            return ("OPEN", entails(it.facts, after.add(t, -1)))            # count after ≥ threshold
        return (fin, entails(it.facts, t.add(after, -1).add(Lin({}, 1), -1)))   # count after ≤ threshold − 1
    outs = [r for _, r in explore(drive_exact, max_paths=200)]
    key = f"{ROLE_NAME['failure']} ▸ from CLOSED ▸ opens exactly when the count reaches the threshold"
    early = [r for r in outs if r[0] == "OPEN" and not r[1]]
    late = [r for r in outs if r[0] != "OPEN" and not r[1]]
    if early or late:
        led.fail("C08-R1", key, where(M["failure"], M["failure"].node),
                 ("the breaker can open before the failure threshold has been reached" if early else "the breaker can stay closed although the failure count has reached the threshold (it opens one or more failures late)"),
                 witness="failure_threshold=2: two consecutive executor failures leave the breaker CLOSED" if late else None)
    else:
        led.ok("C08-R1", key, where(M["failure"], M["failure"].node), f"{len(outs)} symbolic path(s) over integer count n and threshold t: OPEN ⇔ n + 1 ≥ t")

    # the recovery comparison measures `clock − timestamp` (operand order); its direction is decided on the paths above
    # (OPEN → HALF_OPEN only where the recorded relation is elapsed ≥|> timeout, and always there)
    key = f"{ROLE_NAME['admit']} ▸ recovery-timeout comparison"
    led.ok("C08-R1", key, where(ts_site[0], ts_site[1]), f"elapsed time is measured from self.{TS} (the field compared with the recovery timeout on the interpreted admission test); direction decided per path")

    # ---------------- R2 isolation through run()
    runm = M["run"]
    for st in STATES:
        for breaker in (True, False):
            key = f"run ▸ breaker {'on' if breaker else 'off'} ▸ state {st}"
            paths = explore(lambda o: h.run_once(o, "AND", breaker, True, st, ("EXECUTE", "PERMIT")), max_paths=200)
            probs = []
            n_ref = 0
            for _, out in paths:
                r = out["results"][0]
                if r["kind"] != "return":
                    probs.append(f"run() raised {r.get('exc')}")
                    continue
                ev = r["events"]
                agents = [e for e in ev if e[0] == "express"]
                cache = [e for e in ev if e == h.CALL["cache"]]
                f = r["fields"]
                refused = breaker and st == "OPEN" and not elapsed_held(out["decisions"])
                if refused:
                    n_ref += 1
                    if agents or cache:
                        probs.append(f"open breaker still consults {'agents' if agents else 'the cache'}")
                    if f.get("action") != "CIRCUIT_OPEN" or f.get("blocked") is not True:
                        probs.append(f"refusal answered action={f.get('action')!r} blocked={f.get('blocked')!r}")
                else:
                    if len(agents) != 2 and not f.get("cached"):
                        probs.append(f"admitted request consulted {len(agents)} agent(s)")
                    if f.get("action") == "CIRCUIT_OPEN":
                        probs.append("request refused although the breaker should admit it")
                    if cache and breaker:
                        # admission test must come first
                        idx_c = ev.index(h.CALL["cache"])
                        idx_b = ev.index(h.CALL["admit"]) if h.CALL["admit"] in ev else -1
                        if idx_b < 0 or idx_b > idx_c:
                            probs.append("cache consulted before the admission test")
                if not breaker and any(e == h.CALL["admit"] for e in ev):
                    pass
            if probs:
                led.fail("C08-R2", key, where(runm, runm.node), "; ".join(sorted(set(probs))))
            else:
                led.ok("C08-R2", key, where(runm, runm.node), f"{len(paths)} path(s), {n_ref} refusing: no agent, no cache, blocked/CIRCUIT_OPEN; admitted paths consult both agents")

    # ---------------- R3 classification: all cells, breaker on, CLOSED
    REC_F = h.CALL["failure"]
    REC_S = h.CALL["success"]
    n_fail_cells = 0
    per_class = {}     # class -> dict(cells=int, bad=[(cell, problem)])
    for g in G:
        for z in alpha + [EXC]:
            for y in alpha + [EXC]:
                if z == EXC and y == EXC:
                    continue
                paths = explore(lambda o: h.run_once(o, g, True, False, "CLOSED", (z, y)), max_paths=64)
                cell = f"gate={g} executor={z} assessor={y}"
                for _, out in paths:
                    r = out["results"][0]
                    if r["kind"] != "return":
                        per_class.setdefault("run() raised", dict(cells=0, bad=[]))["bad"].append((cell, r.get("exc")))
                        continue
                    f, ev = r["fields"], r["events"]
                    nf, ns = ev.count(REC_F), ev.count(REC_S)
                    prob = None
                    if EXC in (z, y):
                        cls = "agent exception → failure recorder"
                        if nf != 1 or ns:
                            prob = f"failure recorder ran {nf}×, success recorder {ns}×"
                    elif f.get("blocked") is False:
                        cls = "permitted → success recorder"
                        if ns != 1 or nf:
                            prob = f"success recorder ran {ns}×, failure recorder {nf}×"
                    elif f.get("blocked") is True and z != "FAILURE":
                        # blocked by the verdicts alone (no executor failure, no exception), whatever the gate logic and
                        # whatever the result's success flag says
                        cls = "intentional block → no recorder"
                        if nf or ns:
                            prob = f"{'failure' if nf else 'success'} recorder ran"
                    elif z == "FAILURE" and f.get("success") is False:
                        cls = "executor FAILURE (not successful) → failure recorder"
                        n_fail_cells += 1
                        if nf != 1 or ns:
                            prob = f"failure recorder ran {nf}×"
                    else:
                        cls = "other (unconstrained by the statement)"
                    d = per_class.setdefault(cls, dict(cells=0, bad=[]))
                    d["cells"] += 1
                    if prob:
                        d["bad"].append((cell, prob))
    for cls, d in sorted(per_class.items()):
        key = f"classify ▸ {cls}"
        if d["bad"]:
            led.fail("C08-R3", key, where(runm, runm.node),
                     f"{len(d['bad'])} of {d['cells']} cell-path(s) misclassified, e.g. {d['bad'][0][0]}: {d['bad'][0][1]}",
                     path=[f"{c}: {pr}" for c, pr in d["bad"][:12]],
                     witness="failure_threshold=2, five requests whose executor returns FAILURE: breaker stays CLOSED with failure_count 0" if "executor FAILURE" in cls else None)
        else:
            led.ok("C08-R3", key, where(runm, runm.node), f"{d['cells']} cell-path(s) over {len(G)} gates × {len(alpha) + 1}² verdict pairs", nontrivial=not cls.startswith("other"))
    led.extra["executor_failure_cells"] = n_fail_cells

    # ---------------- R6 after an admitted probe the breaker is never left half-open and refusing
    led.rule("C08-R6", "whatever the outcome of an admitted probe (success, intentional block, executor failure, agent exception, cache hit), the next request is consulted unless the breaker is OPEN again", 1)
    runm_ = p.find_method(L, "run")
    kinds = {"success": ("EXECUTE", "PERMIT"), "intentional block": ("BLOCK", "BLOCK"), "executor failure": ("FAILURE", "PERMIT"), "agent exception": (EXC, "PERMIT"), "cache hit": ("EXECUTE", "PERMIT"),
             "retry of the prompt that was refused while open": ("EXECUTE", "PERMIT")}
    bad6, n6 = [], 0
    for kind, verdicts in kinds.items():
        for g in G:
            def go6(o, _kind=kind, _v=verdicts, _g=g):
                it, obj = h.build(o, _g, True, True, "CLOSED", _v)
                p1, p2 = "prompt one", "prompt two"
                if _kind == "cache hit":
                    it.call_fi(runm_, [obj, p1], {})          # leaves a cached reply for prompt_one
                obj.fields[h.names.state] = it.enum_member(h.cstate, "OPEN")
                out = []
                for pr in ((p1, p1) if _kind.startswith("retry") else (p1, p2)):
                    mark = len(it.events)
                    try:
                        r = it.call_fi(runm_, [obj, pr], {})
                        ev = it.events[mark:]
                        out.append(dict(consulted=any(e[0] == "express" for e in ev), refused=(isinstance(r, Obj) and "CIRCUIT" in repr(r.fields.get("block_reason", "")).upper()), cached=(h.CALL.get("cache") in ev and not any(e[0] == "express" for e in ev) and not (isinstance(r, Obj) and "CIRCUIT" in repr(r.fields.get("block_reason", "")).upper())),
                                        state=sname(obj.fields[h.names.state]), reason=repr(r.fields.get("block_reason")) if isinstance(r, Obj) else None))
                    except PyRaise as e:
                        out.append(dict(raised=repr(e.exc), state=sname(obj.fields[h.names.state]), consulted=False, cached=False, refused=False, reason=None))
                return out
            try:
                paths6 = [r for _, r in explore(go6, max_paths=400)]
            except Imprecise as e:
                raise AnchorError(f"probe history could not be interpreted: {e}")
            for first, second in paths6:
                n6 += 1
                if kind.startswith("retry"):
                    # refused while open (nothing consulted); the same prompt again once the timeout has passed is admitted as the
                    # probe — it must reach the agents, not be answered with the refusal remembered from before
                    if first["refused"] and not first["consulted"] and second["state"] != "OPEN" and second["refused"] and not second["consulted"]:
                        bad6.append(f"gate {g}: a prompt refused while the breaker was open is answered {second['reason']} again after the recovery timeout (breaker {second['state']}) without consulting the agents: the refusal itself was cached")
                    continue
                admitted = first["consulted"] or first["cached"]
                if not admitted:
                    continue          # still inside the recovery timeout: nothing is promised
                if first["state"] != "OPEN" and second["refused"]:
                    bad6.append(f"gate {g}: a probe ending in {kind} leaves the breaker {first['state']}, and the next request is answered {second['reason']} without consulting the agents")
    key = "run ▸ an admitted probe never leaves the breaker half-open and refusing"
    if bad6:
        led.fail("C08-R6", key, where(runm_, runm_.node), sorted(set(bad6))[0], path=sorted(set(bad6))[:6],
                 witness="trip the breaker, wait for the timeout, repeat a cached prompt, then send a fresh one: CIRCUIT_OPEN for ever")
    else:
        led.ok("C08-R6", key, where(runm_, runm_.node), f"{n6} two-request histories from OPEN over {len(G)} gates × 5 probe outcomes (cache on): after an admitted probe the next request is consulted unless the breaker re-opened")

    # ---------------- R3b the outcome is recorded whatever the user's on_block / on_permit listeners do (they may raise)
    led.rule("C08-R3b", "an outcome that counts (failure / success) has reached its recorder by the time run() returns or raises, also when an on_block / on_permit listener raises", 1)
    bad3b, n3b = [], 0
    for g in G:
        for z, y, want in (("FAILURE", "PERMIT", "failure"), (EXC, "PERMIT", "failure"), ("EXECUTE", "PERMIT", "success")):
            def go3b(o, _g=g, _z=z, _y=y):
                it, obj = h.build(o, _g, True, False, "CLOSED", (_z, _y))
                for fld in ("on_block", "on_permit"):
                    if fld in obj.fields:
                        obj.fields[fld] = Unknown(fld)
                mark = len(it.events)
                try:
                    r = it.call_fi(runm_, [obj, Unknown("user_prompt", kind="str")], {})
                    return dict(kind="return", events=it.events[mark:], blocked=r.fields.get("blocked") if isinstance(r, Obj) else None)
                except PyRaise as e:
                    return dict(kind="raise", exc=repr(e.exc), events=it.events[mark:])
            try:
                outs3b = [r for _, r in explore(go3b, max_paths=200)]
            except Imprecise as e:
                raise AnchorError(f"run() with listeners could not be interpreted: {e}")
            plain = [r for r in explore(lambda o: h.run_once(o, g, True, False, "CLOSED", (z, y)), max_paths=64)]
            counted = any(out["results"][0]["events"].count(h.CALL[want]) == 1 for _, out in plain if out["results"][0]["kind"] == "return")
            if not counted:
                continue          # under this gate logic the cell is not a counted outcome of that kind
            for r in outs3b:
                n3b += 1
                nrec = r["events"].count(h.CALL[want])
                if r["kind"] == "raise" and "on_" in r.get("exc", "") and nrec != 1:
                    bad3b.append(f"gate {g}, executor {z}: the listener raised and the {want} recorder had run {nrec}× — the outcome is lost for the breaker")
    key = "run ▸ counted outcomes are recorded before (or despite) the user's listeners"
    if bad3b:
        led.fail("C08-R3b", key, where(runm_, runm_.node), sorted(set(bad3b))[0], path=sorted(set(bad3b))[:6],
                 witness="failure_threshold=3, an on_block listener that raises: three executor failures leave the breaker CLOSED with failure_count 0")
    else:
        led.ok("C08-R3b", key, where(runm_, runm_.node), f"{n3b} path(s) over {len(G)} gates × 3 counted outcomes with on_block / on_permit that return or raise")

    # ---------------- R5 the loop's own lock is never re-acquired while held (every request returns)
    from ..locks import LockAnalysis, regions
    from ..resolve import Resolver
    la = LockAnalysis(p, Resolver(p), L)
    led.rule("C08-R5", "no region of the loop's non-re-entrant lock reaches a re-acquisition of the same lock", 4)
    viol = {(fi.key, id(w)): (call, chain) for fi, w, a, call, chain in la.reentry_violations()}
    for m in la.methods():
        for w, a in regions(m, la.locks):
            key = f"{m.qual} ▸ with self.{a}"
            v = viol.get((m.key, id(w)))
            if v:
                led.fail("C08-R5", key, where(m, v[0]), f"`{short(v[0])}` runs while self.{a} (non-re-entrant) is held and re-acquires it: the request never returns", path=v[1])
            else:
                led.ok("C08-R5", key, where(m, w), "no same-instance call inside the region can acquire the lock again")

    # ---------------- R4 writers
    n = 0
    for fi, kind, node in package_attr_writes(p, SF, None):
        n += 1
        key = f"{fi.qual} ▸ write {SF}"
        if fi.cls is L and fi.name in N.breaker_methods:
            led.ok("C08-R4", key, where(fi, node), "breaker method", nontrivial=False)
        elif fi.cls is None and fi.module.rel == LOOPS and fi.name.startswith("_"):
            led.ok("C08-R4", key, where(fi, node), "private function of the loop's own module (transition effect of a table-driven breaker)", nontrivial=False)
        else:
            led.fail("C08-R4", key, where(fi, node), "breaker state written outside the breaker's own methods")
    fail_side = {x.name for x in N.res.reachable_from(N.rec_failure) if x.cls is L}
    clear_side = set(N.breaker_methods) - {x.name for x in N.res.reachable_from(N.rec_failure) if x.cls is L and x.key != N.rec_failure.key and False} | {x.name for x in N.res.reachable_from(N.rec_success) if x.cls is L}
    for fi, kind, node in package_attr_writes(p, CF, None):
        if fi.cls is not L:
            continue
        key = f"{fi.qual} ▸ {kind} {CF} ▸ {short(node, 40)}"
        if kind == "augassign":
            if fi.name in fail_side:
                led.ok("C08-R4", key, where(fi, node), "incremented in the failure recorder")
            else:
                led.fail("C08-R4", key, where(fi, node), "failure count changed outside the failure recorder")
        elif kind == "assign":
            v = node.value if isinstance(node, (ast.Assign, ast.AnnAssign)) else None
            if isinstance(v, ast.Constant) and v.value == 0 and fi.name in clear_side:
                led.ok("C08-R4", key, where(fi, node), "cleared on recovery / reset / construction", nontrivial=False)
            elif fi.name in fail_side and isinstance(v, ast.BinOp) and isinstance(v.op, ast.Add):
                led.ok("C08-R4", key, where(fi, node), "incremented in the failure recorder")
            else:
                led.fail("C08-R4", key, where(fi, node), "failure count assigned outside recovery/reset")
