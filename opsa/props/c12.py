"""C12 — template rendering: bound values stay data (taint analysis of the multi-pass renderer)."""
from __future__ import annotations

import ast
import re

from ..loader import AnchorError, dotted, is_self_attr, parent, short, src, walk_no_nested
from ..resolve import Resolver
from ..rules import cfg_of, guard_facts, where, class_table_mutations

RB = "operon_ai/organelles/ribosome.py"
FILES = [RB]
SYNTAX = ("{{", r"\{\{")


_CTX = {"module": None, "cls": None}      # the module / class whose constants are consulted (set by run)


def _named_value(name_expr):
    """the expression a module-level / class-level constant name is bound to (None if it is not such a name)"""
    mod, cls = _CTX["module"], _CTX["cls"]
    if isinstance(name_expr, ast.Name) and mod is not None:
        for st in mod.tree.body:
            if isinstance(st, ast.Assign) and any(isinstance(t, ast.Name) and t.id == name_expr.id for t in st.targets):
                return st.value
            if isinstance(st, ast.AnnAssign) and isinstance(st.target, ast.Name) and st.target.id == name_expr.id and st.value is not None:
                return st.value
        if cls is not None and name_expr.id in cls.assigns:
            return cls.assigns[name_expr.id]
    if isinstance(name_expr, ast.Attribute) and isinstance(name_expr.value, ast.Name) and cls is not None and name_expr.value.id in ("self", "cls", cls.name):
        return cls.assigns.get(name_expr.attr)
    return None


def const_str(e, depth=0):
    """the string a constant expression denotes: a literal, or a module/class-level name bound to one"""
    if isinstance(e, ast.Constant) and isinstance(e.value, str):
        return e.value
    if depth < 3:
        v = _named_value(e)
        if v is not None:
            return const_str(v, depth + 1)
    return None


def pattern_text(e, depth=0):
    """regex source of a pattern expression: a literal / f-string, a named constant, or a named `re.compile(<literal>)`"""
    c = const_str(e)
    if c is not None:
        return c
    if isinstance(e, ast.JoinedStr):
        return "".join(str(v.value) if isinstance(v, ast.Constant) else "\\w" for v in e.values)
    if isinstance(e, ast.Call) and dotted(e.func) == "re.compile" and e.args:
        return pattern_text(e.args[0], depth + 1)
    if depth < 3:
        v = _named_value(e)
        if v is not None:
            return pattern_text(v, depth + 1)
    return None


def is_syntax_pattern(e):
    """constant / f-string / named constant / compiled pattern that contains the template delimiter"""
    t = pattern_text(e)
    if t is not None:
        return any(s in t for s in SYNTAX)
    if isinstance(e, ast.Name):
        return None     # resolved by the caller through reaching definitions
    return False


RE_FUNCS = ("sub", "subn", "finditer", "findall", "search", "match", "fullmatch", "split")


def scan_site(c, consts):
    """(pattern expr, function, replacement expr | None) when call `c` scans a string with a regex: re.f(pat, …) or
    <compiled pattern>.f(…); None otherwise"""
    if not isinstance(c, ast.Call):
        return None
    d = dotted(c.func) or ""
    if d.startswith("re.") and d[3:] in RE_FUNCS and c.args:
        pat = c.args[0]
        if isinstance(pat, ast.Name) and pat.id in consts:
            pat = consts[pat.id]
        return pat, d[3:], (c.args[1] if d[3:] in ("sub", "subn") and len(c.args) > 1 else None)
    if isinstance(c.func, ast.Attribute) and c.func.attr in RE_FUNCS:
        recv = c.func.value
        v = _named_value(recv)
        if v is not None and isinstance(v, ast.Call) and dotted(v.func) == "re.compile":
            return recv, c.func.attr, (c.args[0] if c.func.attr in ("sub", "subn") and c.args else None)
    return None


class Pass:
    """summary of one function of the renderer"""

    def __init__(self, fi):
        self.fi = fi
        self.inserts = []      # (node, what) — places where source-derived text enters the returned string unescaped
        self.scans = []        # (node, subject var) — template-syntax scans
        self.internal_flows = []   # (source step, sink step, node)
        self.helpers = []      # function nodes of helpers the pass delegates substitutions to
        self.steps = []        # ordered steps of the function body: dict(kind, node, label, inserts, scans)


def run(p, led, tier):
    res = Resolver(p)
    rib = p.cls("Ribosome", RB)
    tr = p.find_method(rib, "translate")
    if tr is None:
        raise AnchorError("Ribosome.translate not found")
    led.explanation = (
        "Taint abstract interpretation of Ribosome.translate (deciding rules R1/R2): the template text, the registered "
        "templates and every match object are unknown; the binding dictionary, the filters, the default text of a "
        "defaulted variable and the rendering of an included template are marked as data, and the mark travels through "
        "every operation that builds a text from its operands. The regex engine is replaced by a recorder that logs "
        "(pattern, subject) for every scan and explores every path of each replacement callback; the delimiter rewrite "
        "is recognised as the escape and its inverse as the un-escape. Rule: no scan whose pattern (or replace key) is "
        "template syntax ever sees a subject containing unescaped data, and nothing escaped is left in the returned "
        "text. The same runs decide: strict mode raises before the first substitution, a simple variable left in place "
        "adds a warning that reaches Protein.warnings, an unknown include returns the explicit marker. How the passes "
        "are hosted or dispatched (closures, partial, tables, getattr, phases) does not matter. A syntactic summary of "
        "the passes (ordered scan/insert steps per function, pass order in the driver) corroborates the interpretation "
        "on the shapes it recognises. R4 decides completeness and invertibility of the escape rewrite on all brace "
        "texts up to length 6, R5 that render-state counters are balanced on every exit, R3 that no memo of rendered "
        "text is keyed on less than the bindings.")
    led.not_decided = ["equality of the rendered text with a left-to-right reference expansion (whole-grammar equivalence)"]
    led.assumptions = ["filters are arbitrary str→str callbacks (their output is a source)"]
    led.rule("C12-R1", "no step scans for template syntax in text that already contains unescaped bound values / items / defaults / included renderings", 2)
    led.rule("C12-R2", "missing simple variable ⇒ warning; strict mode raises before rendering; unknown include ⇒ explicit marker", 3)

    _CTX["module"], _CTX["cls"] = rib.module, rib
    _CTX["ctx_names"] = None
    escapers = _escapers(rib, p)
    led.extra["escaping_functions"] = sorted(escapers)
    # passes by role: the methods below translate() that scan their text for template syntax
    below = [g for g in res.reachable_from(tr) if g.cls is rib and g is not tr]
    pass_fns = [g for g in below if _has_syntax_scan(g)]
    _CTX["pass_names"] = {g.name for g in pass_fns}
    _CTX["res"], _CTX["rib"] = res, rib
    # The taint interpretation of translate() decides R1 and R2 whatever the shape of the code.  The syntactic summary of
    # the passes that follows corroborates it on the shapes it recognises: while the interpretation holds, a shape the
    # summary does not recognise is recorded as undecided, never as a violation.
    taint_ok, esc_seen, unesc_seen = _taint_rules(p, led, rib, tr)
    cled = led.corroborating(taint_ok, "the taint interpretation of translate()")
    shared = {}

    def syntactic(led=cled):
        passes = {tr.name: _summarise(tr, rib, escapers, driver=True)}
        for m in pass_fns:
            passes[m.name] = _summarise(m, rib, escapers)
        led.extra["passes"] = sorted(g.name for g in pass_fns)
        if len(pass_fns) < 4:
            raise AnchorError(f"renderer passes found: {sorted(g.name for g in pass_fns)} (expected conditionals, loops, includes, variables)")

        n_flows = 0
        # ---- flows inside one pass
        for name, ps in passes.items():
            if name == "translate":
                continue
            tainted_by = None
            for st in ps.steps:
                key = f"Ribosome.{name} ▸ step {st['label']}"
                if st["scans"]:
                    if tainted_by is not None:
                        n_flows += 1
                        led.fail("C12-R1", f"flow {name}:{tainted_by['label']} → {name}:{st['label']}", where(ps.fi, st["node"]),
                                 f"`{short(st['node'], 60)}` scans text into which step {tainted_by['label']} already substituted {tainted_by['what']}: a value containing template syntax is expanded again",
                                 witness="synthesize('{{?name}} {{secret}}'.replace('{{secret}}',''), name='{{secret}}', secret='s3cr3t') style: a bound value '{{secret}}' is replaced by the secret")
                    else:
                        led.ok("C12-R1", key, where(ps.fi, st["node"]), "scans text that contains no substituted value yet", nontrivial=True)
                if st["inserts"] and tainted_by is None:
                    tainted_by = st
            # loop-carried flow: sequential .replace over keys inside a loop body
            seen_if = set()
            for (a, b, node) in ps.internal_flows:
                if (a, b) in seen_if:
                    continue
                seen_if.add((a, b))
                n_flows += 1
                led.fail("C12-R1", f"flow {name}:{a} → {name}:{b}", where(ps.fi, node),
                         f"`{short(node, 70)}` runs once per key on the same text: a value substituted for one key is scanned again for the following keys",
                         witness="{{#each xs}}{{item}}{{/each}} with xs=['{{index}}'] renders 0 instead of the literal text")
        # ---- flows across passes in translate()
        trp = passes["translate"]
        tainted_by = None
        order = []
        for st in trp.steps:
            callee = st.get("callee")
            if callee is None or callee not in passes:
                continue
            cp = passes[callee]
            scans = any(s["scans"] for s in cp.steps)
            inserts = next((s for s in cp.steps if s["inserts"]), None) or (cp.internal_flows and {"what": "loop items"})
            order.append(callee)
            key = f"Ribosome.translate ▸ pass {callee}"
            if scans and tainted_by is not None:
                n_flows += 1
                led.fail("C12-R1", f"flow {tainted_by[0]} → {callee}", where(tr, st["node"]),
                         f"pass {callee} scans the output of pass {tainted_by[0]}, which already contains {tainted_by[1]}: data is re-interpreted as template syntax",
                         witness="synthesize('{{?name}}', name='{{secret}}', secret='s3cr3t') renders 's3cr3t'")
            elif scans:
                led.ok("C12-R1", key, where(tr, st["node"]), "runs on text that contains template source only")
            if inserts and tainted_by is None:
                tainted_by = (callee, inserts["what"] if isinstance(inserts, dict) else "bound values")
        led.extra["pass_order"] = order
        led.extra["flows_found"] = n_flows
        if len(order) < 4:
            raise AnchorError(f"translate() applies {len(order)} recognised passes")
        # unescape only at the end
        if escapers:
            idx_pass = [i for i, st in enumerate(trp.steps) if st.get("callee") in passes]
            un = [(i, st) for i, st in enumerate(trp.steps) if st["kind"] == "unescape"]
            key = "Ribosome.translate ▸ escaping undone only after the last pass"
            if not un:
                led.fail("C12-R1", key, where(tr, tr.node), "values are escaped but never unescaped: the marker leaks into the output")
            elif all(i > max(idx_pass) for i, _ in un):
                led.ok("C12-R1", key, where(un[0][1].get("owner", tr), un[0][1]["node"]), "the delimiter escape is reverted after every pass has run")
            else:
                led.fail("C12-R1", key, where(un[0][1].get("owner", tr), un[0][1]["node"]), "the escape is reverted before a later pass scans the text")

        # ---------------- R2 structure
        def pass_with(label):
            for name, ps in passes.items():
                if name != tr.name and any(st.get("label") == label for st in ps.steps):
                    return ps.fi
            return None
        pv = pass_with("simple")
        # missing simple variable -> warning on every path of the substitution callback that leaves the slot unexpanded
        key = f"Ribosome.{pv.name if pv else '?'} ▸ missing simple variable leaves a warning"
        cbs = [st["cbnode"] for ps in passes.values() for st in ps.steps if st.get("label") == "simple" and st.get("cbnode") is not None]
        if pv is None or not cbs:
            led.undecided("C12-R2", key, where(pv or tr, (pv or tr).node), "the substitution callback of the simple-variable scan was not resolved; the warning clause is not decided")
        else:
            from ..cfg import CFG
            verdicts = []
            for f in cbs:
                c = CFG(f)

                def is_warning(n):
                    return isinstance(n, ast.Call) and isinstance(n.func, ast.Attribute) and n.func.attr in ("append", "add", "warn", "warning", "extend") and \
                        ((isinstance(n.func.value, ast.Name) and n.func.value.id in {a.arg for a in f.args.args + f.args.kwonlyargs} | set(pv.params()) | {"warnings"}) or is_self_attr(n.func.value) or "warn" in src(n.func))
                wnodes = {c.node_of(n) for n in ast.walk(f) if is_warning(n) and not any(n in ast.walk(g) for g in ast.walk(f) if isinstance(g, (ast.FunctionDef, ast.Lambda)) and g is not f)}
                leaves = []
                for r in walk_no_nested(f):
                    if isinstance(r, ast.Return) and r.value is not None:
                        substitutes = any(isinstance(x, ast.Call) and ((isinstance(x.func, ast.Attribute) and x.func.attr in escapers) or (isinstance(x.func, ast.Name) and x.func.id in escapers)) for x in ast.walk(r.value)) \
                            or _callback_inserts(ast.FunctionDef(name="r", args=f.args, body=[a for a in f.body if not isinstance(a, ast.Return)] + [r], decorator_list=[], lineno=f.lineno, col_offset=0), escapers)[0]
                        if not substitutes:
                            leaves.append(r)
                seen = c.reach(starts=[c.entry], avoid=wnodes)
                silent = [r for r in leaves if c.node_of(r) in seen]
                verdicts.append((f, leaves, silent))
            if any(not lv for _, lv, _ in verdicts):
                led.undecided("C12-R2", key, where(pv, pv.node), "no return of the callback leaves the slot as written (shape not recognised); the warning clause is not decided")
            elif any(sl for _, _, sl in verdicts):
                f, _, sl = next(v for v in verdicts if v[2])
                led.fail("C12-R2", key, where(pv, sl[0]), f"`{short(sl[0])}` leaves an unbound simple variable in place on a path that records no warning")
            else:
                led.ok("C12-R2", key, where(pv, pv.node), "every return of the callback that leaves `{{name}}` in place is preceded by a recorded warning on all of its paths")
        # strict mode raises before rendering: in translate itself, or in a helper it calls before the first pass
        cfg_of(tr, led)
        first_pass_i = min((i for i, st in enumerate(trp.steps) if st.get("callee") in passes), default=10**9)
        sr = [(i, st) for i, st in enumerate(trp.steps) if st["kind"] == "strict-raise" and i < first_pass_i]
        key = "Ribosome.translate ▸ strict mode raises before rendering"
        if sr:
            own = sr[0][1].get("owner", tr)
            led.ok("C12-R2", key, where(own, sr[0][1]["node"]), f"`raise` under `self.strict` for a missing required variable precedes every pass ({own.qual})")
        else:
            led.fail("C12-R2", key, where(tr, tr.node), "strict mode does not raise for a missing required variable before rendering starts")
        inc = pass_with("includes")
        key = f"Ribosome.{inc.name if inc else '?'} ▸ unknown include yields the explicit marker"
        icbs = [st["cbnode"] for ps in passes.values() for st in ps.steps if st.get("label") == "includes" and st.get("cbnode") is not None]
        hosts = ([inc.node] if inc is not None else []) + icbs

        def marker_return(fn):
            for r in ast.walk(fn):
                if isinstance(r, ast.Return) and r.value is not None and any(isinstance(x, ast.Constant) and isinstance(x.value, str) and "Unknown template" in x.value for x in ast.walk(r.value)):
                    return r
            return None
        okm = next((m for m in (marker_return(h) for h in hosts) if m is not None), None)
        if inc is None or not hosts:
            led.undecided("C12-R2", key, where(tr, tr.node), "the include pass was not recognised; the marker clause is not decided")
        elif okm is not None:
            led.ok("C12-R2", key, where(inc, okm), "`[Unknown template: name]` is returned when the name is not registered")
        else:
            led.fail("C12-R2", key, where(inc, inc.node), "an unknown include is not rendered as the explicit marker")
        shared["trp"] = trp

    cled.run_section(("C12-R1", "C12-R2"), syntactic, RB)
    trp = shared.get("trp")

    # ---------------- R4 the escape is complete and invertible (decided on the literals of the replace rule)
    led.rule("C12-R4", "the escaping rewrite leaves no template delimiter in any text (overlapping occurrences included) and the driver's rewrite inverts it", 1)
    esc_rules = _escape_rules(rib, p, escapers)
    un_rules = _unescape_rules(tr)
    if not un_rules and trp is not None:
        for st in trp.steps:
            if st["kind"] != "unescape":
                continue
            f_ = st["node"].func
            if isinstance(f_, ast.Attribute) and f_.attr == "replace":
                un_rules += [r for r in _replace_literals(st["node"]) if r[2] in ("{{", "{")]
            else:
                g_ = rib.methods.get(f_.attr if isinstance(f_, ast.Attribute) else getattr(f_, "id", ""))
                if g_ is not None:
                    un_rules += [r for r in _replace_literals(g_.node) if r[2] in ("{{", "{")]
    # the rewrites the interpretation saw being applied are the reference; the literal rules found in the source only
    # give the report a position
    known = {(a, b) for _, (_, _, a, b) in esc_rules.items()}
    for (a, b) in esc_seen:
        if (a, b) not in known:
            esc_rules[f"rewrite {a!r}→{b!r}"] = (tr, tr.node, a, b)
    if unesc_seen:
        un_rules = [(None, a, b) for (a, b) in unesc_seen]
    import itertools as _it
    words = ["".join(w) for k in range(0, 7) for w in _it.product("{}x", repeat=k)]
    for name, (fi_e, node_e, A, B) in sorted(esc_rules.items()):
        key = f"{fi_e.qual} ▸ escape `{A!r} → {B!r}`"
        leak = next((w for w in words if "{{" in w.replace(A, B)), None)
        if leak is not None:
            led.fail("C12-R4", key, where(fi_e, node_e),
                     f"the text {leak!r} is rewritten to {leak.replace(A, B)!r}, which still contains a live delimiter: a bound value can smuggle template syntax past the escape",
                     witness=f"bind a value containing {leak + 'name}}'!r}: the later passes expand {{{{name}}}} inside it")
            continue
        inv = [(a2, b2) for (n2, a2, b2) in un_rules]
        bad_rt = None
        for (a2, b2) in inv or [(None, None)]:
            if a2 is None:
                bad_rt = "the driver never undoes the escape"
                break
            w_bad = next((w for w in words if "\x00" not in w and w.replace(A, B).replace(a2, b2) != w), None)
            if w_bad is not None:
                bad_rt = f"{w_bad!r} comes back as {w_bad.replace(A, B).replace(a2, b2)!r}"
        if bad_rt:
            led.fail("C12-R4", key, where(fi_e, node_e), f"escape and unescape are not inverse: {bad_rt}")
        else:
            led.ok("C12-R4", key, where(fi_e, node_e), f"{len(words)} texts over {{ }} x up to length 6: no delimiter survives the rewrite and the driver's rewrite restores the text")
    if not esc_rules and escapers:
        led.undecided("C12-R4", "Ribosome ▸ escape rule", where(tr, tr.node), "the escaping function is not a single literal replace; completeness not decided")

    # ---------------- R5 render state is balanced: a counter raised on entry is lowered on every exit, exceptional ones included
    led.rule("C12-R5", "instance state incremented by the renderer is decremented on every path to every exit (return or raise)", 0)
    from ..cfg import CFG
    for g in [tr] + pass_fns:
        ups, downs = {}, {}
        for n in walk_no_nested(g.node):
            if isinstance(n, ast.AugAssign) and is_self_attr(n.target):
                (ups if isinstance(n.op, ast.Add) else downs if isinstance(n.op, ast.Sub) else {}).setdefault(n.target.attr, []).append(n)
        for attr in sorted(set(ups) & set(downs)):
            c = CFG(g.node, may_raise=lambda n_: any(isinstance(x, (ast.Call, ast.Raise, ast.Subscript)) for x in ast.walk(n_)))
            # a decrement inside `finally:` exists once per way of leaving the try (the CFG copies the block): all its copies count
            down_ids = {id(d) for d in downs[attr]}
            down_nodes = set(c.nodes_where(lambda n_: id(n_.ast) in down_ids))
            for u in ups[attr]:
                un = c.node_of(u)
                key = f"{g.qual} ▸ self.{attr} raised at `{short(u)}`"
                path = c.escapes(start_edges=[(a_, b_, l_) for a_, b_, l_ in c.out_edges(un) if l_ != "exc"], through=down_nodes)
                if path:
                    led.fail("C12-R5", key, where(g, u),
                             f"an exit is reachable without `self.{attr}` being lowered again (an exception between the two leaves it raised for the life of the object): later renderings behave as if nested",
                             path=c.fmt_path(path), witness="a strict-mode error in one render, then any render whose values contain {{: the output keeps the escape marker")
                else:
                    led.ok("C12-R5", key, where(g, u), "every path to return and to raise passes the matching decrement")

    # ---------------- R3 no stale renderings: a memo of rendered text must be keyed on the whole binding dictionary
    render_fns = [tr] + pass_fns
    reach = {}
    for m in render_fns:
        for g in res.reachable_from(m):
            if g.cls is rib:
                reach[g.key] = g
    n_cache = 0
    for g in reach.values():
        for n in ast.walk(g.node):          # nested regex callbacks included
            if isinstance(n, ast.Assign) and isinstance(n.targets[0], ast.Subscript) and is_self_attr(n.targets[0].value):
                attr = n.targets[0].value.attr
                if attr in ("templates", "filters"):
                    continue
                # only a store of *rendered text* is a memo of renderings (a usage counter or a statistics table is not):
                # the stored value mentions a rendering call, a `.sequence`, or a local bound to one
                rnames = {"translate"} | {m_.name for m_ in render_fns}

                def renders(e_, depth=0):
                    for x in ast.walk(e_):
                        if isinstance(x, ast.Attribute) and x.attr == "sequence":
                            return True
                        if isinstance(x, ast.Call) and isinstance(x.func, ast.Attribute) and x.func.attr in rnames:
                            return True
                        if isinstance(x, ast.Name) and depth < 3:
                            for a in ast.walk(g.node):
                                if isinstance(a, ast.Assign) and len(a.targets) == 1 and isinstance(a.targets[0], ast.Name) and a.targets[0].id == x.id and a.value is not e_ and renders(a.value, depth + 1):
                                    return True
                    return False
                if not renders(n.value):
                    continue
                n_cache += 1
                keyexpr = n.targets[0].slice
                kdef = keyexpr
                if isinstance(keyexpr, ast.Name):
                    defs = [a for a in ast.walk(g.node) if isinstance(a, ast.Assign) and isinstance(a.targets[0], ast.Name) and a.targets[0].id == keyexpr.id]
                    kdef = defs[-1].value if defs else keyexpr
                whole = any(isinstance(x, ast.Call) and isinstance(x.func, ast.Attribute) and x.func.attr == "items" and isinstance(x.func.value, ast.Name) and x.func.value.id in _ctx_names()
                            for x in ast.walk(kdef)) or any(isinstance(x, ast.Call) and isinstance(x.func, ast.Name) and x.func.id in ("repr", "str", "frozenset", "tuple", "sorted")
                                                          and any(isinstance(y, ast.Name) and y.id in _ctx_names() for y in x.args) for x in ast.walk(kdef))
                key = f"Ribosome.{g.name} ▸ memo self.{attr}[…]"
                if whole:
                    led.ok("C12-R3", key, where(g, n), "the memo key covers the whole binding dictionary")
                else:
                    led.fail("C12-R3", key, where(g, n),
                             f"rendered text is memoised under `{short(kdef, 80)}`, which does not cover every binding the rendering reads (conditions, loop lists, nested includes): a later call with other bindings gets the stale text",
                             witness="render a page whose partial contains {{#each items}} twice on one Ribosome with different items: the second page shows the first list")
    led.rule("C12-R3", "a memo of rendered text is keyed on everything the rendering reads (the whole binding dictionary)", 0)
    if n_cache == 0:
        led.ok("C12-R3", "Ribosome ▸ rendering keeps no memo between calls", RB, f"{len(reach)} functions on the rendering path write no keyed state", nontrivial=False)
    # ---------------- R6 what one renderer registers (filters, templates) does not change how another renders
    led.rule("C12-R6", "no renderer instance writes into a table that lives on the class (its filter / template tables are its own)", 0)
    muts = class_table_mutations(rib)
    for m_, n_, t_, via in muts:
        led.fail("C12-R6", f"{m_.qual} ▸ `{short(n_, 60)}`", where(m_, n_),
                 f"the class-level table `{t_}` is modified {via}: a filter or template registered on one Ribosome changes what `{{{{x|word}}}}` means on every other one "
                 f"(`word` is read as a filter instead of a default)",
                 witness="Ribosome(filters={'w': f}); then another Ribosome renders {{user|w}} with user unbound: the tag is left in place instead of the default 'w'")
    if not muts:
        led.ok("C12-R6", "Ribosome ▸ instance tables", RB, "no method writes into a class-level container, directly or through an uncopied alias", nontrivial=False)




def _self_reachable(res, g):
    """g can be entered again while it is running (it lies on a cycle of the call graph; calls made by nested callbacks count)"""
    seen, todo = set(), [h for h, _ in res.callees(g)]
    while todo:
        h = todo.pop()
        if h is g:
            return True
        if h.key in seen:
            continue
        seen.add(h.key)
        todo.extend(x for x, _ in res.callees(h))
    return False


def _taint_rules(p, led, rib, tr):
    """C12-R1 / C12-R2 decided by the taint interpretation of translate() (see c12taint)"""
    from . import c12taint as tt
    mrna_cls = next((ci for lst in p.classes.values() for ci in lst if ci.module is rib.module and ci.name == "mRNA"), None)
    if mrna_cls is None:
        raise AnchorError("mRNA class not found next to Ribosome")
    res_ = _CTX.get("res") or Resolver(p)
    recursive = {g.qual for g in rib.methods.values() if any(h is g for h in res_.reachable_from(g) if h is not None) and _self_reachable(res_, g)}
    try:
        runs = {False: tt.interpret(p, rib, tr, mrna_cls, False, recursive=recursive), True: tt.interpret(p, rib, tr, mrna_cls, True, recursive=recursive)}
    except tt.Imprecise as e:
        raise AnchorError(f"taint interpretation of Ribosome.translate: {e}")
    allruns = runs[False] + runs[True]
    led.extra["taint_paths"] = {"lenient": len(runs[False]), "strict": len(runs[True])}
    ok = True

    def loc(ev):
        return f"{ev['where'][0]}:{ev['where'][1]}"
    # ---- R1: no scan sees unescaped data
    sites = {}
    for r in allruns:
        for ev in r["events"]:
            lab = ev.get("label") or ("loop-key replace" if ev["via"] == "replace" and ev["pattern"] != "<matched construct>" else "construct replace")
            k = (lab, ev["via"], ev["substitution"])
            st = sites.setdefault(k, dict(n=0, bad=None, where=loc(ev), cb=0))
            st["n"] += 1
            st["cb"] = max(st["cb"], len(ev["callback_paths"]))
            if ev["data"] and st["bad"] is None:
                st["bad"] = ev
    for (lab, via, subst), st in sorted(sites.items(), key=lambda kv: (kv[0][0], kv[0][1])):
        key = f"Ribosome ▸ {'substitution' if subst else 'scan'} of {lab} ({via})"
        if st["bad"] is not None:
            ok = False
            ev = st["bad"]
            led.fail("C12-R1", key, loc(ev),
                     f"this scan for template syntax runs on text that already contains unescaped {', '.join(ev['data'])}: a value containing template syntax is expanded again",
                     witness="bind a value '{{secret}}' (or a loop item / default / included text containing a construct): it is expanded by this later scan")
        else:
            led.ok("C12-R1", key, st["where"], f"on all {st['n']} interpreted occurrence(s) the subject contains template source and escaped data only" + (f"; {st['cb']} callback path(s) explored" if st["cb"] else ""))
    # ---- R1: the escape is undone at the end (nothing escaped is returned) and only there (covered by the rule above)
    finals = [r["result"] for r in allruns if "result" in r]
    key = "Ribosome.translate ▸ returned text carries no escape marker"
    leaks = [x for x in finals if isinstance(x, tt.Obj) and isinstance(x.fields.get("sequence"), tt.Unknown) and tt.E in x.fields["sequence"].sym]
    if not finals:
        raise AnchorError("taint interpretation: translate() never returns")
    if leaks:
        ok = False
        led.fail("C12-R1", key, where(tr, tr.node), "values are escaped but the returned text is not unescaped on every path: the marker leaks into the output")
    else:
        led.ok("C12-R1", key, where(tr, tr.node), f"{len(finals)} returning path(s): every escaped value has been restored in the returned text")
    # ---- R2 strict mode raises before the first substitution
    key = "Ribosome.translate ▸ strict mode raises before rendering"
    sraises = [r for r in runs[True] if "raised" in r]
    lraises = [r for r in runs[False] if "raised" in r]
    late = [r for r in sraises if r["raised_after"] > 0]
    if late:
        ok = False
        led.fail("C12-R2", key, where(tr, tr.node), f"in strict mode {late[0]['raised']!r} is raised after {late[0]['raised_after']} substitution(s) have already run")
    elif len(sraises) <= len(lraises):
        ok = False
        led.fail("C12-R2", key, where(tr, tr.node), "strict mode raises on no path on which lenient mode does not: a missing required variable is not an error")
    else:
        led.ok("C12-R2", key, where(tr, tr.node), f"{len(sraises)} strict path(s) raise, each before the first substitution; lenient mode raises on {len(lraises)}")
    # ---- R2 a simple variable left in place comes with a warning
    key = "Ribosome ▸ missing simple variable leaves a warning"
    n_leave, silent = 0, None
    for r in runs[False]:
        if "result" not in r or not isinstance(r["result"], tt.Obj):
            continue
        W = r["result"].fields.get("warnings")
        for ev in r["events"]:
            if ev.get("label") != "simple" or not ev["substitution"] or ev["level"] != 0:
                continue      # the warnings of an included rendering belong to that rendering's own result
            for cp in ev["callback_paths"]:
                v = cp["value"]
                sym = v.sym if isinstance(v, tt.Unknown) else repr(v)
                if cp["kind"] == "ret" and tt.S in sym and not any(m in sym for m in (tt.T, tt.E, tt.U)):
                    n_leave += 1
                    warned = any(cp["t0"] < t <= cp["t1"] and isinstance(W, list) and any(val is w for w in W) for t, lst, val in r["appends"])
                    if not warned and silent is None:
                        silent = ev
    if n_leave == 0:
        led.undecided("C12-R2", key, where(tr, tr.node), "no interpreted path of the simple-variable substitution returns the matched text unchanged; the warning clause is not decided")
    elif silent is not None:
        ok = False
        led.fail("C12-R2", key, loc(silent), "a path of the simple-variable substitution leaves `{{name}}` in place without adding a warning to Protein.warnings")
    else:
        led.ok("C12-R2", key, where(tr, tr.node), f"{n_leave} interpreted path(s) leave the slot as written; each adds a message that ends up in Protein.warnings")
    # ---- R2 unknown include -> explicit marker
    key = "Ribosome ▸ unknown include yields the explicit marker"
    inc_paths = [cp for r in allruns for ev in r["events"] if ev.get("label") == "includes" and ev["substitution"] for cp in ev["callback_paths"] if cp["kind"] == "ret"]
    marker = [cp for cp in inc_paths if "Unknown template" in (cp["value"].sym if isinstance(cp["value"], tt.Unknown) else str(cp["value"]))]
    if not inc_paths:
        led.undecided("C12-R2", key, where(tr, tr.node), "no include substitution was interpreted; the marker clause is not decided")
    elif marker:
        led.ok("C12-R2", key, where(tr, tr.node), f"{len(marker)} of {len(inc_paths)} interpreted include path(s) return `[Unknown template: …]`")
    else:
        ok = False
        led.fail("C12-R2", key, where(tr, tr.node), "no path of the include substitution returns the explicit `[Unknown template: name]` marker")
    # "registered" is decided by membership / a None test, not by the truth value of the template found: a template record
    # that defines __len__ / __bool__ (an empty template is falsy) would be reported as unknown by a truthiness test
    mr_ = next((ci for ci in p.classes.get("mRNA", []) if ci.module is rib.module), None)
    falsy_hooks = [h for h in ("__len__", "__bool__") if mr_ is not None and h in mr_.methods]
    if falsy_hooks:
        for m_ in rib.methods.values():
            looked = {}
            for n_ in ast.walk(m_.node):
                if isinstance(n_, ast.Assign) and len(n_.targets) == 1 and isinstance(n_.targets[0], ast.Name):
                    v_ = n_.value
                    if (isinstance(v_, ast.Call) and isinstance(v_.func, ast.Attribute) and v_.func.attr == "get" and is_self_attr(v_.func.value, "templates")) or \
                            (isinstance(v_, ast.Subscript) and is_self_attr(v_.value, "templates")):
                        looked[n_.targets[0].id] = n_
            for n_ in ast.walk(m_.node):
                if isinstance(n_, (ast.If, ast.IfExp)):
                    t_ = n_.test.operand if isinstance(n_.test, ast.UnaryOp) and isinstance(n_.test.op, ast.Not) else n_.test
                    if isinstance(t_, ast.Name) and t_.id in looked:
                        ok = False
                        led.fail("C12-R2", f"{m_.qual} ▸ `{short(n_.test, 40)}`", where(m_, n_),
                                 f"whether an include is registered is decided by the truth value of the template found, and `{mr_.name}` defines `{falsy_hooks[0]}`: a registered template that is empty is "
                                 "rendered as `[Unknown template: …]` instead of its (empty) expansion",
                                 witness="register an empty template 'footer'; 'a{{>footer}}b' renders 'a[Unknown template: footer]b'")
    esc = sorted({x for r in allruns for x in r["escapes"]})
    unesc = sorted({x for r in allruns for x in r["unescapes"]})
    led.extra["escape_rewrites_seen"] = [repr(x) for x in esc]
    led.extra["unescape_rewrites_seen"] = [repr(x) for x in unesc]
    return ok, esc, unesc


# ----------------------------------------------------------------------
def _ctx_names():
    """names under which the binding dictionary travels: the dict-typed parameters of translate() and the passes,
    and locals built from them by dict displays / dict(...) / .copy()"""
    if _CTX.get("ctx_names") is None:
        names = {"context", "loop_context"}
        rib = _CTX.get("rib")
        if rib is not None:
            fns = [m for m in rib.methods.values() if m.name == "translate" or m.name in _CTX.get("pass_names", ())]
            for m in fns:
                for a in m.node.args.args + m.node.args.kwonlyargs:
                    if a.annotation is not None and "dict" in src(a.annotation).lower() and a.arg != "self":
                        names.add(a.arg)
            changed = True
            while changed:
                changed = False
                for m in fns:
                    for n in ast.walk(m.node):
                        if isinstance(n, ast.Assign) and len(n.targets) == 1 and isinstance(n.targets[0], ast.Name) and n.targets[0].id not in names:
                            v = n.value
                            uses = any(isinstance(y, ast.Name) and y.id in names for y in ast.walk(v))
                            if uses and (isinstance(v, ast.Dict) or (isinstance(v, ast.Call) and (dotted(v.func) in ("dict",) or (isinstance(v.func, ast.Attribute) and v.func.attr == "copy")))):
                                names.add(n.targets[0].id)
                                changed = True
        _CTX["ctx_names"] = names
    return _CTX["ctx_names"]


def _resolve_callback(rep, callbacks):
    """the function node a replacement argument denotes: a nested def, a lambda, a method (self.m / Class.m), a module
    level function of the renderer's module — directly or under functools.partial(f, …)"""
    rib = _CTX.get("rib")
    if isinstance(rep, ast.Call) and (dotted(rep.func) or "").split(".")[-1] == "partial" and rep.args:
        return _resolve_callback(rep.args[0], callbacks)
    if isinstance(rep, ast.Name):
        if rep.id in callbacks:
            return callbacks[rep.id]
        res = _CTX.get("res")
        if res is not None and rib is not None:
            g = next((x for x in res.p.functions.get(rep.id, []) if x.module is rib.module and x.cls is None), None)
            if g is not None:
                return g.node
        return None
    if isinstance(rep, ast.Attribute) and isinstance(rep.value, ast.Name) and rib is not None and rep.value.id in ("self", "cls", rib.name) and rep.attr in rib.methods:
        return rib.methods[rep.attr].node
    if isinstance(rep, ast.Lambda):
        return ast.FunctionDef(name="<lambda>", args=rep.args, body=[ast.Return(value=rep.body)], decorator_list=[], lineno=rep.lineno, col_offset=rep.col_offset)
    return None


def _note_ctx_params(fn_node):
    """dict-annotated parameters of a resolved callback carry the binding dictionary too"""
    names = _ctx_names()
    for a in fn_node.args.args + fn_node.args.kwonlyargs:
        if a.annotation is not None and "dict" in src(a.annotation).lower() and a.arg not in ("self", "cls"):
            names.add(a.arg)


def _has_syntax_scan(g):
    consts = {}
    for n in walk_no_nested(g.node):
        if isinstance(n, ast.Assign) and isinstance(n.targets[0], ast.Name) and isinstance(n.value, ast.Constant) and isinstance(n.value.value, str):
            consts[n.targets[0].id] = n.value
    for n in ast.walk(g.node):
        sc = scan_site(n, consts)
        if sc and is_syntax_pattern(sc[0]):
            return True
    return False


def _escapers(rib, p=None):
    """names of methods / module functions that rewrite the template delimiter in their argument on *every* return path (escaping functions)"""
    out = set()
    cands = list(rib.methods.values())
    if p is not None:
        cands += [f for fs in p.functions.values() for f in fs if f.module is rib.module and f.cls is None]
    for m in cands:
        rets = [n for n in walk_no_nested(m.node) if isinstance(n, ast.Return) and n.value is not None]
        if not rets:
            continue

        def rewrites(e):
            for c in ast.walk(e):
                if isinstance(c, ast.Call) and isinstance(c.func, ast.Attribute) and c.func.attr == "replace" and c.args \
                        and const_str(c.args[0]) in ("{{", "{") and len(c.args) > 1 \
                        and not ("{{" in (const_str(c.args[1]) or "")) and const_str(c.args[1]) != const_str(c.args[0]):
                    return True
            return False
        if all(rewrites(r.value) for r in rets):
            out.add(m.name)
        elif any(rewrites(r.value) for r in rets):
            out.discard(m.name)
    return out


def _replace_literals(e):
    """[(call, A, B)] for `<x>.replace(A, B)` calls inside expression e whose arguments are literal / named constants"""
    out = []
    for c in ast.walk(e):
        if isinstance(c, ast.Call) and isinstance(c.func, ast.Attribute) and c.func.attr == "replace" and len(c.args) >= 2:
            a, b = const_str(c.args[0]), const_str(c.args[1])
            if a is not None and b is not None:
                out.append((c, a, b))
    return out


def _escape_rules(rib, p, escapers):
    """{escaper name: (function, node, A, B)} when the escaper is one literal replace A→B on every return"""
    out = {}
    cands = list(rib.methods.values()) + [f for fs in p.functions.values() for f in fs if f.module is rib.module and f.cls is None]
    for m in cands:
        if m.name not in escapers:
            continue
        rets = [n for n in walk_no_nested(m.node) if isinstance(n, ast.Return) and n.value is not None]
        rules = [r for n in rets for r in _replace_literals(n.value)]
        if rets and len(rules) == len(rets) and len({(a, b) for _, a, b in rules}) == 1:
            out[m.name] = (m, rules[0][0], rules[0][1], rules[0][2])
    return out


def _unescape_rules(tr):
    """[(node, A, B)] literal replace rules in translate() (or in the unescaping helper it calls) whose B is a brace text"""
    out = []
    rib = _CTX.get("rib")
    fns = [tr.node]
    for n in walk_no_nested(tr.node):
        if isinstance(n, ast.Call) and _is_unescaper_call(n):
            f = n.func
            name = f.attr if isinstance(f, ast.Attribute) else f.id
            g = rib.methods.get(name) if rib else None
            if g is not None:
                fns.append(g.node)
    for fn in fns:
        for c, a, b in _replace_literals(fn):
            if b in ("{{", "{"):
                out.append((c, a, b))
    return out


def _unescape_sites(tr, escapers):
    out = []
    for n in walk_no_nested(tr.node):
        if isinstance(n, ast.Call) and isinstance(n.func, ast.Attribute) and n.func.attr in ("replace",) and len(n.args) > 1 \
                and const_str(n.args[1]) in ("{{", "{") and const_str(n.args[0]) not in ("{{", "{"):
            out.append(n)
        elif isinstance(n, ast.Call) and _is_unescaper_call(n):
            out.append(n)
    return out


def _is_unescaper_call(call):
    """call of a helper (self.m / Class.m / m) every return of which restores the delimiter (`….replace(<marker>, "{{")`)"""
    rib, res = _CTX.get("rib"), _CTX.get("res")
    f = call.func
    name = f.attr if isinstance(f, ast.Attribute) else (f.id if isinstance(f, ast.Name) else None)
    if name is None or rib is None:
        return False
    g = rib.methods.get(name)
    if g is None and res is not None:
        g = next((x for x in res.p.functions.get(name, []) if x.module is rib.module), None)
    if g is None:
        return False
    rets = [r for r in walk_no_nested(g.node) if isinstance(r, ast.Return) and r.value is not None]
    return bool(rets) and all(any(isinstance(c, ast.Call) and isinstance(c.func, ast.Attribute) and c.func.attr == "replace" and len(c.args) > 1 and const_str(c.args[1]) in ("{{", "{")
                                  for c in ast.walk(r.value)) for r in rets)


def _enclosing_body(fn, node):
    for n in ast.walk(fn):
        for fld in ("body", "orelse", "finalbody"):
            b = getattr(n, fld, None)
            if isinstance(b, list) and node in b:
                return b
    return []


def _source_kind(e, fn, escapers, local_sources):
    """what kind of source text expression e carries (None = none / escaped)"""
    if isinstance(e, ast.Call):
        f = e.func
        if (isinstance(f, ast.Attribute) and f.attr in escapers and isinstance(f.value, ast.Name)) or (isinstance(f, ast.Name) and f.id in escapers):
            return None
        if isinstance(f, ast.Name) and f.id == "str" and e.args:
            return _source_kind(e.args[0], fn, escapers, local_sources)
        if isinstance(f, ast.Attribute) and f.attr == "get" and isinstance(f.value, ast.Name) and f.value.id in _ctx_names():
            return "bound values"
        if isinstance(f, ast.Subscript) and "filters" in src(f.value):
            return "filter output"
        if isinstance(f, ast.Attribute) and f.attr == "group" and e.args and isinstance(e.args[0], ast.Constant) and e.args[0].value == 0:
            return None      # the matched template text itself
        if isinstance(f, ast.Attribute) and f.attr == "join" and e.args:
            return _source_kind(e.args[0], fn, escapers, local_sources)
        if isinstance(f, ast.Attribute) and f.attr == "replace" and len(e.args) > 1:
            if const_str(e.args[0]) in ("{", "{{") and const_str(e.args[1]) is not None and "{{" not in const_str(e.args[1]) and const_str(e.args[1]) != const_str(e.args[0]):
                return None      # an inline delimiter rewrite is an escape
            return _source_kind(e.args[1], fn, escapers, local_sources) or _source_kind(f.value, fn, escapers, local_sources)
        if isinstance(f, ast.Attribute) and f.attr == "translate":
            return "rendered included template"
        if is_self_attr(f) and e.args:
            # a helper that is not an escaping function on all of its paths passes its argument through
            for a in e.args:
                k = _source_kind(a, fn, escapers, local_sources)
                if k:
                    return k
    if isinstance(e, ast.Subscript) and isinstance(e.value, ast.Name) and e.value.id in _ctx_names():
        return "bound values"
    if isinstance(e, ast.Attribute) and e.attr == "sequence" and isinstance(e.value, ast.Name) and e.value.id in local_sources:
        return local_sources[e.value.id]
    if isinstance(e, ast.Name):
        if e.id in local_sources:
            return local_sources[e.id]
        return None
    if isinstance(e, ast.IfExp):
        return _source_kind(e.body, fn, escapers, local_sources) or _source_kind(e.orelse, fn, escapers, local_sources)
    if isinstance(e, ast.JoinedStr):
        for v in e.values:
            if isinstance(v, ast.FormattedValue):
                k = _source_kind(v.value, fn, escapers, local_sources)
                if k:
                    return k
    return None


def _callback_inserts(cb, escapers):
    """does the regex callback return source-derived text?  returns the kind or None"""
    local_sources = {}
    changed = True
    while changed:
        changed = False
        for n in ast.walk(cb):
            tgt = val = None
            if isinstance(n, ast.Assign) and len(n.targets) == 1 and isinstance(n.targets[0], ast.Name):
                tgt, val = n.targets[0].id, n.value
            if tgt and tgt not in local_sources:
                k = _source_kind(val, cb, escapers, local_sources)
                if k is None and isinstance(val, ast.Call) and isinstance(val.func, ast.Attribute) and val.func.attr == "group" and val.args \
                        and isinstance(val.args[0], ast.Constant) and val.args[0].value == 2 and "default" in tgt:
                    k = "default text"
                if k:
                    local_sources[tgt] = k
                    changed = True
            if isinstance(n, ast.For):
                # loop items drawn from a bound collection
                names = [x.id for x in ast.walk(n.target) if isinstance(x, ast.Name)]
                if any(isinstance(y, ast.Name) and y.id in local_sources for y in ast.walk(n.iter)) or any(isinstance(y, ast.Name) and y.id in _ctx_names() for y in ast.walk(n.iter)):
                    for nm_ in names:
                        if nm_ not in local_sources and nm_ not in ("i", "idx", "index"):
                            local_sources[nm_] = "loop items"
                            changed = True
            if isinstance(n, ast.Call) and isinstance(n.func, ast.Attribute) and n.func.attr == "append" and isinstance(n.func.value, ast.Name) and n.args:
                k = _source_kind(n.args[0], cb, escapers, local_sources)
                if k and n.func.value.id not in local_sources:
                    local_sources[n.func.value.id] = k
                    changed = True
            if isinstance(n, ast.Assign) and len(n.targets) == 1 and isinstance(n.targets[0], ast.Name) and isinstance(n.value, ast.Call) \
                    and isinstance(n.value.func, ast.Attribute) and n.value.func.attr == "replace" and len(n.value.args) > 1:
                k = _source_kind(n.value.args[1], cb, escapers, local_sources)
                if k and n.targets[0].id not in local_sources:
                    local_sources[n.targets[0].id] = k
                    changed = True
            if isinstance(n, ast.Assign) and isinstance(n.value, ast.Dict) and isinstance(n.targets[0], ast.Name):
                for v in n.value.values:
                    if _source_kind(v, cb, escapers, local_sources) and n.targets[0].id not in local_sources:
                        local_sources[n.targets[0].id] = "loop items"
                        changed = True
    for r in ast.walk(cb):
        if isinstance(r, ast.Return) and r.value is not None:
            k = _source_kind(r.value, cb, escapers, local_sources)
            if k:
                return k, local_sources
    return None, local_sources


def _summarise(fi, rib, escapers, driver=False, depth=0):
    """ordered steps of one renderer function.  For the driver (translate) the helpers it delegates to are inlined in
    call order (phases such as initiate / elongate / terminate), so that the order of passes, of the strict-mode raise
    and of the unescaping is the order in which they run, whichever function hosts them"""
    ps = Pass(fi)
    strict_raise_nodes = set()
    if driver:
        try:
            from ..cfg import CFG as _CFG
            c_ = _CFG(fi.node)
            for n_ in c_.nodes:
                if n_.kind == "stmt" and isinstance(n_.ast, ast.Raise) and any(is_self_attr(a, "strict") and pol for a, pol, _ in guard_facts(c_, n_)):
                    strict_raise_nodes.add(n_.ast)
        except Exception:      # noqa: BLE001 - the corroborating position of the raise is then simply not found
            pass
    callbacks = {n.name: n for n in ast.walk(fi.node) if isinstance(n, ast.FunctionDef) and n is not fi.node}
    consts = {}
    for n in walk_no_nested(fi.node):
        if isinstance(n, ast.Assign) and isinstance(n.targets[0], ast.Name) and isinstance(n.value, ast.Constant) and isinstance(n.value.value, str):
            consts[n.targets[0].id] = n.value
    # ordered top-level statements (descending into for/if bodies in source order)
    stmts = []

    def flat(body):
        for st in body:
            if isinstance(st, ast.FunctionDef):
                continue
            stmts.append(st)
            for fld in ("body", "orelse"):
                b = getattr(st, fld, None)
                if isinstance(b, list) and not isinstance(st, ast.FunctionDef):
                    flat(b)
    flat(fi.node.body)
    seen_calls = set()
    for st in stmts:
        if st in strict_raise_nodes:
            ps.steps.append(dict(kind="strict-raise", node=st, label="strict-raise", owner=fi, inserts=False, scans=False))
        for c in ast.walk(st) if not isinstance(st, (ast.For, ast.If, ast.While, ast.Try, ast.With)) else ast.walk(getattr(st, "iter", None) or getattr(st, "test", None) or ast.Pass()):
            if not isinstance(c, ast.Call) or id(c) in seen_calls:
                continue
            seen_calls.add(id(c))
            d = dotted(c.func) or ""
            pass_names = _CTX.get("pass_names", set())
            if driver:
                if (isinstance(c.func, ast.Attribute) and c.func.attr == "replace" and len(c.args) > 1 and const_str(c.args[1]) in ("{{", "{")
                        and const_str(c.args[0]) not in ("{{", "{")) or _is_unescaper_call(c):
                    ps.steps.append(dict(kind="unescape", node=c, label="unescape", owner=fi, inserts=False, scans=False))
                    continue
                hname = c.func.attr if isinstance(c.func, ast.Attribute) and isinstance(c.func.value, ast.Name) and c.func.value.id in ("self", "cls", rib.name) else None
                if hname and hname in rib.methods and hname not in pass_names and hname != "translate" and hname not in escapers and depth < 3 and rib.methods[hname] is not fi:
                    sub = _summarise(rib.methods[hname], rib, escapers, driver=True, depth=depth + 1)
                    for st2 in sub.steps:
                        st2.setdefault("owner", rib.methods[hname])
                    ps.steps.extend(sub.steps)
                    continue
            # a call of another pass / of translate() itself (recursion for includes), directly or through a table of passes
            if is_self_attr(c.func) and (c.func.attr in pass_names or c.func.attr == "translate"):
                ps.steps.append(dict(kind="call", node=c, label=c.func.attr, callee=c.func.attr, inserts=False, scans=False))
                continue
            if isinstance(c.func, ast.Name) and _CTX.get("res") is not None and c.func.id not in callbacks:
                tg = [g for g in _CTX["res"].dispatch_targets(fi, c.func) if g.name in pass_names]
                if tg:
                    for g in tg:
                        ps.steps.append(dict(kind="call", node=c, label=g.name, callee=g.name, inserts=False, scans=False))
                    continue
            sc = scan_site(c, consts)
            if sc is not None:
                pat, fn_, rep = sc
                if not is_syntax_pattern(pat):
                    continue
                label = _label(pat)
                inserts, what = False, None
                cbnode = _resolve_callback(rep, callbacks) if rep is not None else None
                if cbnode is not None:
                    _note_ctx_params(cbnode)
                if cbnode is not None:
                        k, _ = _callback_inserts(cbnode, escapers)
                        inserts, what = bool(k), k
                        # loop-carried replace chain inside the callback
                        for n in ast.walk(cbnode):
                            if isinstance(n, ast.For):
                                for b in ast.walk(n):
                                    if isinstance(b, ast.Call) and isinstance(b.func, ast.Attribute) and b.func.attr == "replace" and b.args and is_syntax_pattern(b.args[0]) is not False \
                                            and isinstance(b.args[0], (ast.JoinedStr, ast.Constant)) and len(b.args) > 1:
                                        k2, ls = _callback_inserts(cbnode, escapers)
                                        val_kind = _source_kind(b.args[1], cbnode, escapers, dict(ls, value="loop items") if "value" in src(b.args[1]) else ls)
                                        if val_kind:
                                            ps.internal_flows.append((f"{label}:key[i]", f"{label}:key[i+1]", b))
                ps.steps.append(dict(kind="scan", node=c, label=label, scans=True, inserts=inserts, what=what, cbnode=cbnode))
            elif (isinstance(c.func, ast.Name) or (isinstance(c.func, ast.Attribute) and isinstance(c.func.value, ast.Name) and c.func.value.id in ("self", "cls", rib.name))) \
                    and not driver and _resolve_callback(c.func, callbacks) is not None and (c.func.attr if isinstance(c.func, ast.Attribute) else c.func.id) not in escapers \
                    and (c.func.attr if isinstance(c.func, ast.Attribute) else c.func.id) not in pass_names:
                # result = helper(..., result, match): the helper's return substitutes into the running text
                hnode = _resolve_callback(c.func, callbacks)
                _note_ctx_params(hnode)
                k, _ = _callback_inserts(hnode, escapers)
                if k:
                    ps.steps.append(dict(kind="insert", node=c, label="replace", scans=False, inserts=True, what=k))
                if hnode is not None:
                    ps.helpers.append(hnode)
            elif isinstance(c.func, ast.Attribute) and c.func.attr == "replace" and c.args and len(c.args) > 1 and isinstance(c.func.value, ast.Name):
                # result = result.replace(match.group(0), value)
                k = _source_kind(c.args[1], fi.node, escapers, {"value_or_default": "default text"})
                if k:
                    ps.steps.append(dict(kind="insert", node=c, label="replace", scans=False, inserts=True, what=k))
    # merge: an insert right after a scan of the same loop belongs to that scan step
    merged = []
    for st in ps.steps:
        if st["kind"] == "insert" and merged and merged[-1]["kind"] == "scan" and not merged[-1]["inserts"]:
            merged[-1]["inserts"], merged[-1]["what"] = True, st["what"]
        else:
            merged.append(st)
    ps.steps = merged
    return ps


def _label(pat):
    s = pattern_text(pat) or src(pat)
    if "#if" in s:
        return "conditionals"
    if "#each" in s:
        return "loops"
    if ">(" in s or ">" in s and "\\w" in s and "?" not in s and "|" not in s and "#" not in s:
        return "includes"
    if "\\|(\\w+)" in s:
        return "filtered"
    if "\\|" in s:
        return "default"
    if "\\?" in s:
        return "optional"
    return "simple"
