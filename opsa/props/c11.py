"""C11 — output validator: 'valid' implies the schema holds; clean JSON is taken verbatim."""
from __future__ import annotations

import ast

from ..fdai import Interp, Obj, PyRaise, Unknown, ExcVal, explore, Imprecise, PathLimit, stub, _sym
from ..loader import AnchorError, short, src, walk_no_nested
from ..mayraise import Escapes
from ..resolve import Resolver
from ..rules import where

CH = "operon_ai/organelles/chaperone.py"
FILES = [CH, "operon_ai/core/types.py", "operon_ai/healing/chaperone_loop.py"]
STRATS = ["STRICT", "EXTRACTION", "LENIENT", "REPAIR"]


def nm(v):
    return getattr(v, "name", None) or repr(v)


class Model:
    """stdlib / pydantic models used while interpreting the folding code: json.loads and schema.model_validate either
    succeed (structural result) or raise their documented exception; the choice is memoised per argument, so the
    plain and the enhanced twin see the same outcomes for the same text."""

    def __init__(self, it):
        self.it = it
        self.validated = []       # syms passed to model_validate that succeeded
        self.parsed = []
        it.ext_stubs["json.loads"] = self.loads
        it.ext_stubs["re.sub"] = self.resub
        it.max_unknown_len = 1
        self.all_repairs_change = False

    def resub(self, interp, args, kwargs):
        """re.sub(pattern, repl, text): a repaired text.  Repairing is modelled as idempotent (repaired(repaired(x)) = repaired(x)),
        so 'did this repair change the text' is one decision per text; in all_repairs_change mode every substitution changes a
        concrete text (used to reach the extreme of the confidence formula)."""
        text = args[2]
        if self.all_repairs_change and isinstance(text, str):
            return text + "'"
        s = _sym(text)
        core = s[len("repaired("):-1] if s.startswith("repaired(") and s.endswith(")") else s
        return Unknown(f"repaired({core})")

    def canon(self, s):
        """rewrite repaired(x) to x when this path decided that the repair changed nothing"""
        for d in self.it.decisions:
            sym, pos = d[2], d[3]
            if sym.startswith("(repaired(") and " == " in sym and pos is True:
                a, _, b = sym[1:-1].partition(" == ")
                s = s.replace(a, b)
        return s

    def loads(self, interp, args, kwargs):
        s = self.canon(_sym(args[0]))
        c = interp.o.choose(2, f"json.loads({s}) succeeds", key=("json", s))
        if c == 1:
            raise PyRaise(ExcVal("JSONDecodeError", ("bad json",)))
        self.parsed.append(s)
        return Unknown(f"json.loads({s})")

    def schema(self):
        model = self

        @stub
        def model_validate(interp, args, kwargs):
            s = model.canon(_sym(args[0]))
            c = interp.o.choose(2, f"model_validate({s}) succeeds", key=("validate", s))
            if c == 1:
                raise PyRaise(ExcVal("ValidationError", ("schema mismatch",)))
            model.validated.append(s)
            return Unknown(f"model_validate({s})")
        @stub
        def model_validate_json(interp, args, kwargs):
            # pydantic's own parser over the text: it accepts or rejects on its own terms (not json.loads'), so what comes
            # back is *not* "model_validate of the JSON that json parsing gives" — it is recorded under its own name
            s = model.canon(_sym(args[0]))
            c = interp.o.choose(2, f"model_validate_json({s}) succeeds", key=("validate_json", s))
            if c == 1:
                raise PyRaise(ExcVal("ValidationError", ("schema mismatch",)))
            return Unknown(f"model_validate_json({s})")
        return Obj(None, {"model_validate": model_validate, "parse_obj": model_validate, "model_validate_json": model_validate_json, "parse_raw": model_validate_json,
                          "model_fields": {}}, tag="schema")


def run(p, led, tier):
    res = Resolver(p)
    chap = p.cls("Chaperone", CH)
    FS = p.cls("FoldingStrategy", CH)
    if [n for n, _ in FS.enum_members()] != STRATS and set(n for n, _ in FS.enum_members()) != set(STRATS):
        raise AnchorError(f"FoldingStrategy members changed: {[n for n, _ in FS.enum_members()]}")
    for m in ("fold", "fold_enhanced"):
        if p.find_method(chap, m) is None:
            raise AnchorError(f"Chaperone.{m} not found")
    led.explanation = (
        "Finite-domain abstract interpretation of every folding strategy, plain and enhanced twin in the same run, with "
        "json.loads and schema.model_validate modelled as 'succeeds with a structural result or raises its documented "
        "exception' (outcome memoised per argument, every combination explored) and regex results symbolic: on every "
        "path, valid ⇒ the structure is the result of a successful model_validate of json parsed from text derived from "
        "the raw input; invalid ⇒ no structure and an error trace; STRICT parses exactly raw.strip() with confidence "
        "1.0; twins agree on validity and on the structure's provenance; confidence ∈ [0,1] and 1.0 only for STRICT. "
        "The dispatchers map each strategy to its twin pair; fold/fold_enhanced are interpreted with strategies that "
        "succeed, fail or raise in every combination: no exception escapes, the result mirrors the first valid attempt.")
    led.level = "proof"
    led.exhaustive = True
    led.not_decided = ["that repair regexes do not change values (the statement allows 'repaired from')", "pydantic's own coercions inside model_validate", "user co-chaperones / on_misfold callbacks that raise (A3)"]
    led.assumptions = ["A2 json.loads raises JSONDecodeError (or succeeds); model_validate returns an instance of the schema or raises ValidationError", "unknown collections are explored with 0 and 1 element"]
    led.rule("C11-R7", "a memoised parse result is not modified in place by the strategies that receive it", 0)
    from ..rules import mutated_cached_values
    hits7 = mutated_cached_values(p, res, {CH})
    for f7, c7, h7, d7, g7, st7 in hits7:
        led.fail("C11-R7", f"{f7.qual} ▸ `{short(c7, 50)}`", where(g7, st7),
                 f"the value comes out of `{h7.name}` (`{src(d7)}`: shared by every fold of that text, any instance, any schema) and `{g7.name}` writes into it in place (`{short(st7, 50)}`): "
                 "after one lenient fold coerced it, a later fold of the same raw text sees the coerced data — STRICT accepts or rejects what json parsing of the raw text does not give",
                 witness='fold \'{"label": 1234}\' against label: str (LENIENT coerces), fold it again: STRICT now succeeds with confidence 1.0 although json.loads(raw) does not validate')
    if not hits7:
        led.ok("C11-R7", "Chaperone ▸ memoised parse results", CH, "no memoised parse result is handed to a function that writes into it", nontrivial=False)
    led.rule("C11-R1", "valid ⇒ structure = successful model_validate of JSON parsed from text derived from the raw input", 4)
    led.rule("C11-R2", "invalid ⇒ no structure and an error trace", 4)
    led.rule("C11-R3", "STRICT parses exactly raw.strip() and reports confidence 1.0", 1)
    led.rule("C11-R4", "plain and enhanced twins agree on validity and structure for every strategy; dispatchers pair them", 5)
    led.rule("C11-R5", "confidence ∈ [0,1], equal to 1.0 only for STRICT; total failure has confidence 0.0", 4)
    led.rule("C11-R6", "no strategy outcome (valid, invalid, raising) makes fold / fold_enhanced raise; the result mirrors the first valid attempt", 2)
    # dispatchers by role: the method each public entry point hands (raw, schema, strategy) to
    def dispatcher_of(entry):
        e = p.find_method(chap, entry)

        def strategy_taking(g):
            return g.cls is chap and g is not e and len([a for a in g.params() if a != "self"]) >= 3 and any(
                "strategy" in x.arg.lower() or (x.annotation is not None and "FoldingStrategy" in src(x.annotation)) for x in g.node.args.args)
        cands = [g for g in res.reachable_from(e) if strategy_taking(g)]
        uniq = {g.key: g for g in cands}
        if len(uniq) > 1:
            # the dispatcher is the one that reaches the schema validation ...
            def validates(g):
                return any(isinstance(c, ast.Call) and isinstance(c.func, ast.Attribute) and c.func.attr == "model_validate" for h in res.reachable_from(g) for c in ast.walk(h.node))
            uniq = {k: g for k, g in uniq.items() if validates(g)}
        if len(uniq) > 1:
            # ... and the innermost such function (per-strategy drivers around it take the strategy too)
            inner = {k: g for k, g in uniq.items() if not any(h is not g and h.key in uniq for h in res.reachable_from(g))}
            uniq = inner or uniq
        if len(uniq) != 1:
            raise AnchorError(f"Chaperone.{entry}: expected one per-strategy dispatcher, found {[g.qual for g in uniq.values()]}")
        return next(iter(uniq.values()))
    att = dispatcher_of("fold")
    atte = dispatcher_of("fold_enhanced")

    def implementations(fn):
        """{strategy: implementing method} — every two-argument (raw, schema) method the dispatcher can reach is stubbed to
        return its own name, and the dispatcher is interpreted per strategy"""
        def takes_raw_and_schema(g):
            ps = [a for a in g.node.args.args if a.arg != "self"]
            return len(ps) == 2 and ps[0].annotation is not None and src(ps[0].annotation) == "str"
        # every (raw: str, schema) method of the class is a possible implementation (the dispatch may go through a
        # computed table the resolver cannot follow); the public entry points and the dispatchers are not
        cands = [g for g in chap.methods.values() if g is not fn and g not in (att, atte) and g.name not in ("fold", "fold_enhanced") and takes_raw_and_schema(g)]

        def disp(o):
            it = Interp(p, o)
            c = it.instantiate(chap, [], dict(silent=True))
            for g in cands:
                it.stubs[g.qual] = (lambda nm_: (lambda interp, args, kwargs: nm_))(g.name)
            out = {}
            for s_ in STRATS:
                try:
                    out[s_] = it.call_fi(fn, [c, Unknown("raw"), Unknown("schema"), it.enum_member(FS, s_)], {})
                except PyRaise as e:
                    out[s_] = f"raises {e.exc!r}"
            return out
        outs = [r for _, r in explore(disp)]
        m = {}
        for o_ in outs:
            for k, v in o_.items():
                m.setdefault(k, set()).add(v if isinstance(v, str) else repr(v))
        return m, {g.name: g for g in cands}
    impl_plain, cand_plain = implementations(att)
    impl_enh, cand_enh = implementations(atte)

    def impl_fn(strat, enhanced=False):
        m, c = (impl_enh, cand_enh) if enhanced else (impl_plain, cand_plain)
        names = m.get(strat, set())
        if len(names) == 1 and next(iter(names)) in c:
            return c[next(iter(names))]
        return None

    def one(o, strat, n_coerce, extreme=False):
        it = Interp(p, o)
        mdl = Model(it)
        mdl.all_repairs_change = extreme
        c = it.instantiate(chap, [], dict(silent=True, on_misfold=None))
        it.stubs["Chaperone._coerce_types_tracked"] = lambda interp, args, kwargs: (Unknown(f"coerced({_sym(args[1])})"), [f"c{i}" for i in range(n_coerce)])
        schema = mdl.schema()
        raw = "RAW" if extreme else Unknown("raw")
        S = it.enum_member(FS, strat)
        out = {}
        for tag, fn in (("enhanced", atte), ("plain", att)):
            mdl.validated, mdl.parsed = [], []
            try:
                r = it.call_fi(fn, [c, raw, schema, S], {})
                out[tag] = dict(valid=r.fields.get("valid"), structure=r.fields.get("structure"), err=r.fields.get("error_trace"),
                                conf=r.fields.get("confidence"), validated=list(mdl.validated), strat=nm(r.fields.get("strategy_used")))
            except PyRaise as e:
                out[tag] = dict(raised=repr(e.exc))
        return out

    partial_strats = set()
    for strat in STRATS:
        try:
            paths = []
            for ncoer in ((0, 2, 8) if strat == "LENIENT" else (0,)):
                try:
                    paths += [r for _, r in explore(lambda o: one(o, strat, ncoer), max_paths=20000)]
                except PathLimit:
                    # the twins no longer ask the same questions (their symbols differ), so the path space is a product: the
                    # first paths are judged (every one is a real path); finding nothing on them decides nothing
                    sampled = [r for _, r in explore(lambda o: one(o, strat, ncoer), max_paths=3000, partial=True)]
                    paths += sampled
                    partial_strats.add(strat)
            if strat == "REPAIR":
                extreme = [r for _, r in explore(lambda o: one(o, strat, 0, True), max_paths=2000, partial=True)]     # looks for a witness only
                for r in extreme:
                    en = r["enhanced"]
                    if en.get("valid") is True:
                        cf = en["conf"]
                        if not isinstance(cf, (int, float)) or not (0.0 <= cf < 1.0):
                            paths.append(dict(plain=r["plain"], enhanced=dict(en, structure=en["structure"]), _extreme=True))
        except Imprecise as e:
            raise AnchorError(f"strategy {strat} could not be interpreted: {e}")
        b1, b2, b3, b4, b5 = [], [], [], [], []
        nvalid = 0
        for r in paths:
            for tag in ("plain", "enhanced"):
                x = r[tag]
                if "raised" in x:
                    # a strategy may raise only what fold's per-strategy handler catches (any Exception) — recorded, judged in R6
                    continue
                if x["valid"] is True:
                    nvalid += 1
                    s = x["structure"]
                    if not (isinstance(s, Unknown) and s.sym.startswith("model_validate(")):
                        b1.append(f"{tag}: valid=True with structure {s!r} that is not the result of model_validate")
                    else:
                        arg = s.sym[len("model_validate("):-1]
                        if arg not in x["validated"]:
                            b1.append(f"{tag}: structure {s.sym} was not produced by a successful validation on this path")
                        if "json.loads(" not in arg or "raw" not in arg.lower():
                            b1.append(f"{tag}: validated data `{arg}` is not JSON parsed from the raw text")
                        if strat == "STRICT" and arg != "json.loads(raw.strip())":
                            b3.append(f"{tag}: STRICT validated `{arg}`, not exactly json.loads(raw.strip())")
                elif x["valid"] is False:
                    if x["structure"] is not None:
                        b2.append(f"{tag}: valid=False but a structure {x['structure']!r} is returned")
                    if x["err"] is None:
                        b2.append(f"{tag}: valid=False without an error trace")
                else:
                    b1.append(f"{tag}: validity is {x['valid']!r}")
            pl, en = r["plain"], r["enhanced"]
            if "raised" in pl or "raised" in en:
                if ("raised" in pl) != ("raised" in en):
                    b4.append(f"one twin raises ({pl.get('raised') or en.get('raised')}) where the other returns")
                continue
            if pl["valid"] != en["valid"]:
                b4.append(f"twins disagree on validity: plain={pl['valid']} enhanced={en['valid']}")
            elif pl["valid"] is True and _sym(pl["structure"]) != _sym(en["structure"]):
                b4.append(f"twins return different structures: plain={_sym(pl['structure'])} enhanced={_sym(en['structure'])}")
            if en["valid"] is True:
                cf = en["conf"]
                if not isinstance(cf, (int, float)) or isinstance(cf, bool) or not (0.0 <= cf <= 1.0):
                    b5.append(f"confidence {cf!r} outside [0,1]")
                elif (cf == 1.0) != (strat == "STRICT"):
                    b5.append(f"confidence {cf} for strategy {strat} (1.0 is reserved for STRICT)")
                if strat == "STRICT" and cf != 1.0:
                    b3.append(f"STRICT success reported with confidence {cf!r}")
                if en["strat"] not in (strat, "None"):
                    b4.append(f"enhanced result labelled {en['strat']} for strategy {strat}")
        fn = impl_fn(strat) or att
        for rule, bad, okmsg in (("C11-R1", b1, "valid ⇒ validated JSON derived from the raw text"), ("C11-R2", b2, "invalid ⇒ no structure, error trace present"),
                                 ("C11-R4", b4, "twins agree on validity and structure"), ("C11-R5", b5, "confidence in range; 1.0 iff STRICT")):
            key = f"strategy {strat} ▸ {okmsg.split(' ⇒')[0] if '⇒' in okmsg else okmsg}"
            if bad:
                led.fail(rule, key, where(fn, fn.node), f"{len(bad)} path(s): {bad[0]}", path=sorted(set(bad))[:8])
            elif strat in partial_strats:
                if not (b1 or b2 or b4 or b5):
                    raise AnchorError(f"strategy {strat}: more than 20000 paths and nothing found on the first {len(paths)}: not decided")
                led.undecided(rule, key, where(fn, fn.node), f"only the first {len(paths)} of more than 20000 paths were judged (the twins ask different questions)")
            else:
                led.ok(rule, key, where(fn, fn.node), f"{len(paths)} path(s) ({nvalid} valid results): {okmsg}")
        if strat == "STRICT":
            key = "strategy STRICT ▸ verbatim, full confidence"
            if b3:
                led.fail("C11-R3", key, where(fn, fn.node), b3[0])
            else:
                led.ok("C11-R3", key, where(fn, fn.node), "validates exactly json.loads(raw.strip()); confidence 1.0")
    # dispatchers: each strategy reaches exactly one implementation, different strategies different ones, and the
    # enhanced dispatcher pairs each strategy with a twin of its own
    for fn, m, enhanced in ((att, impl_plain, False), (atte, impl_enh, True)):
        key = f"{fn.qual} ▸ strategy → implementation"
        probs = []
        for s_ in STRATS:
            if impl_fn(s_, enhanced) is None:
                probs.append(f"{s_} → {sorted(m.get(s_, []))}")
        impls = [impl_fn(s_, enhanced) for s_ in STRATS]
        if not probs and len({g.key for g in impls}) != len(STRATS):
            probs.append(f"two strategies share one implementation: { {s_: impl_fn(s_, enhanced).name for s_ in STRATS} }")
        if probs:
            led.fail("C11-R4", key, where(fn, fn.node), f"dispatcher maps {probs[0]}")
        else:
            led.ok("C11-R4", key, where(fn, fn.node), "each strategy reaches its own implementation: " + ", ".join(f"{s_}→{impl_fn(s_, enhanced).name}" for s_ in STRATS))

    # sibling cross-check: each twin pair iterates the same tables with the same regex function and flags, and catches the same exceptions
    from ..loader import dotted as _dotted, is_self_attr as _isa

    def shape(f, depth=0):
        fs = [f] + [g for g in res.reachable_from(f) if g.cls is chap and g is not f and g not in (att, atte) and g.name not in ("fold", "fold_enhanced")
                    and len([a for a in g.params() if a != "self"]) <= 2 and not any(g is impl_fn(s_, e_) for s_ in STRATS for e_ in (False, True))]
        tabs, rex, exc = set(), set(), set()
        for h in fs:
            tabs |= {n.iter.attr for n in walk_no_nested(h.node) if isinstance(n, ast.For) and _isa(n.iter)}
            rex |= {(_dotted(c.func), " ".join(src(a) for a in c.args[3:]) + " ".join(f"{k.arg}={src(k.value)}" for k in c.keywords)) for c in walk_no_nested(h.node)
                    if isinstance(c, ast.Call) and (_dotted(c.func) or "").startswith("re.")}
        exc = {src(h_.type) if h_.type is not None else "bare" for n in walk_no_nested(f.node) if isinstance(n, ast.Try) for h_ in n.handlers}
        return dict(tables=sorted(tabs), regex=sorted(rex), handlers=sorted(exc))
    for s_ in STRATS:
        a_, b_ = impl_fn(s_), impl_fn(s_, True)
        if a_ is None or b_ is None:
            continue
        sa, sb = shape(a_), shape(b_)
        key = f"strategy {s_} ▸ twin shape ({a_.name} / {b_.name}: tables, regex calls, handlers)"
        diff = [k for k in sa if sa[k] != sb[k]]
        if diff:
            led.fail("C11-R4", key, where(b_, b_.node), f"plain and enhanced differ in {diff}: plain {[sa[k] for k in diff]} vs enhanced {[sb[k] for k in diff]}")
        else:
            led.ok("C11-R4", key, where(b_, b_.node), f"both use tables {sa['tables']}, regex {[r[0] for r in sa['regex']]}, handlers {sa['handlers']}")

    # ---------------- R6 + cascade behaviour of fold / fold_enhanced
    FP = p.cls("FoldedProtein", "operon_ai/core/types.py")
    EFP = p.cls("EnhancedFoldedProtein", CH)
    for fname, inner, rcls in (("fold", att.qual, FP), ("fold_enhanced", atte.qual, EFP)):
        f = p.find_method(chap, fname)

        def casc(o):
            it = Interp(p, o)
            c = it.instantiate(chap, [], dict(silent=True, on_misfold=None))
            order = []

            def attempt(interp, args, kwargs):
                s_ = nm(args[3])
                k = interp.o.choose(3, f"{s_}: valid / invalid / raises")
                order.append((s_, k))
                if k == 2:
                    raise PyRaise(ExcVal("RuntimeError", (f"{s_} blew up",)))
                if k == 0:
                    return interp.instantiate(rcls, [], dict(valid=True, structure=Unknown(f"structure_{s_}"), raw_peptide_chain=args[1], **({"confidence": 0.7} if rcls is EFP else {})))
                return interp.instantiate(rcls, [], dict(valid=False, raw_peptide_chain=args[1], error_trace=f"{s_} failed"))
            it.stubs[inner] = attempt
            try:
                r = it.call_fi(f, [c, Unknown("raw"), Unknown("schema")], {})
            except PyRaise as e:
                return dict(raised=repr(e.exc), order=order)
            return dict(valid=r.fields.get("valid"), structure=r.fields.get("structure"), err=r.fields.get("error_trace"), conf=r.fields.get("confidence"), order=order,
                        raw=r.fields.get("raw_peptide_chain"))
        paths = [r for _, r in explore(casc, max_paths=500)]
        bad = []
        for r in paths:
            if "raised" in r:
                bad.append(f"fold raises {r['raised']} after attempts {r['order']}")
                continue
            first_valid = next((s_ for s_, k in r["order"] if k == 0), None)
            if first_valid:
                if r["valid"] is not True or _sym(r["structure"]) != f"structure_{first_valid}":
                    bad.append(f"attempts {r['order']}: result valid={r['valid']} structure={r['structure']!r}, expected the structure of {first_valid}")
                if [s_ for s_, _ in r["order"]][-1] != first_valid:
                    bad.append(f"strategies keep running after {first_valid} succeeded: {r['order']}")
            else:
                if r["valid"] is not False or r["structure"] is not None or r["err"] is None:
                    bad.append(f"all strategies failed/raised but result is valid={r['valid']} structure={r['structure']!r} err={r['err']!r}")
                if rcls is EFP and r["conf"] != 0.0:
                    bad.append(f"total failure reported with confidence {r['conf']!r}")
            if not (isinstance(r["raw"], Unknown) and r["raw"].sym == "raw"):
                bad.append(f"result does not carry the caller's raw text ({r['raw']!r})")
        key = f"Chaperone.{fname} ▸ cascade over {len(paths)} outcome combinations (valid / invalid / raising per strategy)"
        if bad:
            led.fail("C11-R6", key, where(f, f.node), f"{len(bad)} path(s): {bad[0]}", path=sorted(set(bad))[:8])
        else:
            led.ok("C11-R6", key, where(f, f.node), "never raises; first valid attempt wins and stops the cascade; otherwise invalid with error trace" + (" and confidence 0.0" if rcls is EFP else ""))
    # a result is validated against the schema of *this* call: two different schemas that share module and name, same text
    for fname, inner, rcls in (("fold", att.qual, FP), ("fold_enhanced", atte.qual, EFP)):
        f = p.find_method(chap, fname)

        def two(o):
            it = Interp(p, o)
            c = it.instantiate(chap, [], dict(silent=True, on_misfold=None))

            def attempt(interp, args, kwargs):
                sch = args[2]
                tag = sch.tag
                return interp.instantiate(rcls, [], dict(valid=True, structure=Unknown(f"validated_by_{tag}"), raw_peptide_chain=args[1], **({"confidence": 0.9, "strategy_used": args[3]} if rcls is EFP else {})))
            it.stubs[inner] = attempt
            A = Obj(None, {"__module__": "app.models", "__qualname__": "Record", "__name__": "Record"}, tag="schemaA")
            B = Obj(None, {"__module__": "app.models", "__qualname__": "Record", "__name__": "Record"}, tag="schemaB")
            raw = Unknown("raw")
            try:
                r1 = it.call_fi(f, [c, raw, A], {})
                r2 = it.call_fi(f, [c, raw, B], {})
            except PyRaise as e:
                return dict(raised=repr(e.exc))
            from ..fdai import _sym as __sym
            return dict(s1=__sym(r1.fields.get("structure")), s2=__sym(r2.fields.get("structure")), v2=r2.fields.get("valid"))
        paths = [r for _, r in explore(two, max_paths=300)]
        key = f"Chaperone.{fname} ▸ same text, then a different schema with the same name"
        bad = [r for r in paths if "raised" not in r and r["v2"] is True and "schemaB" not in r["s2"]]
        if bad:
            led.fail("C11-R1", key, where(f, f.node), f"the second fold reports valid with structure `{bad[0]['s2']}`, which was validated against the *other* schema",
                     witness="fold(text, create_model('Record', a=int)) then fold(text, create_model('Record', b=str)) on one Chaperone returns an instance of the first model")
        else:
            led.ok("C11-R1", key, where(f, f.node), f"{len(paths)} path(s): the second result is validated by the second schema")

    # each fold answers for itself: the same text folded twice on one validator, with the caller editing the first result
    # in between (a healing loop lowers its confidence; a caller may fill in the structure) — the second result must be the
    # validator's own verdict again, not the first object handed out a second time
    for fname, inner, rcls in (("fold", att.qual, FP), ("fold_enhanced", atte.qual, EFP)):
        f = p.find_method(chap, fname)

        def again(o):
            it = Interp(p, o)
            c = it.instantiate(chap, [], dict(silent=True, on_misfold=None))
            n_calls = [0]

            def attempt(interp, args, kwargs):
                n_calls[0] += 1
                return interp.instantiate(rcls, [], dict(valid=True, structure=Unknown(f"validated#{n_calls[0]}"), raw_peptide_chain=args[1], **({"confidence": 1.0, "strategy_used": args[3]} if rcls is EFP else {})))
            it.stubs[inner] = attempt
            S = Obj(None, {"__module__": "app.models", "__qualname__": "Record", "__name__": "Record"}, tag="schema")
            raw = Unknown("raw")
            try:
                r1 = it.call_fi(f, [c, raw, S], {})
                if rcls is EFP:
                    r1.fields["confidence"] = 0.5          # what ChaperoneLoop.heal does after a retry
                r1.fields["structure"] = Unknown("edited_by_caller")
                r2 = it.call_fi(f, [c, raw, S], {})
            except PyRaise as e:
                return dict(raised=repr(e.exc))
            from ..fdai import _sym as __sym
            return dict(same=r2 is r1, s2=__sym(r2.fields.get("structure")), conf2=r2.fields.get("confidence") if rcls is EFP else None)
        paths = [r for _, r in explore(again, max_paths=300)]
        key = f"Chaperone.{fname} ▸ same text folded again after the caller edited the first result"
        bad = [r for r in paths if "raised" not in r and (r["same"] or "edited_by_caller" in r["s2"] or (r["conf2"] is not None and r["conf2"] != 1.0))]
        if bad:
            led.fail("C11-R1", key, where(f, f.node), "the second fold hands out the first result object again: the caller's edits (structure, lowered confidence) are reported as the validator's verdict on the raw text",
                     witness="heal() lowers folded.confidence to 0.9 on a retry; fold_enhanced of the same clean text then reports STRICT with confidence 0.9 instead of 1.0")
        else:
            led.ok("C11-R1", key, where(f, f.node), f"{len(paths)} path(s): a fresh result each time")

    # totality of the strategy implementations themselves on hostile text (may-raise table, exception classes vs handlers)
    esc = Escapes(res)
    for fname in ("fold", "fold_enhanced"):
        f = p.find_method(chap, fname)
        e = {x for x in esc.of(f) if x != "*"}
        key = f"Chaperone.{fname} ▸ may-raise analysis"
        if e:
            led.fail("C11-R6", key, where(f, f.node), f"{sorted(e)} can escape on hostile raw text", path=esc.paths.get(f.key))
        else:
            led.ok("C11-R6", key, where(f, f.node), "every stdlib call that can raise on hostile text is under the per-strategy `except Exception`")
