"""C07 — two-key guard: an action passes only with the approvals its gate logic requires."""
from __future__ import annotations

import ast

from ..fdai import Obj, Unknown, explore, Imprecise, EnumVal
from ..loader import AnchorError, short, src, walk_no_nested
from ..rules import where, package_attr_writes
from .loopsmodel import EXC, OTHER, Harness, alphabet, gates, LOOPS

FILES = [LOOPS, "operon_ai/core/types.py", "operon_ai/core/agent.py"]


def may_pass(gate, z, y):
    """oracle A.1 — written from the statement"""
    zP = z in ("EXECUTE", "PERMIT")
    zF = z == "FAILURE"
    yP = y == "PERMIT"
    yB = y == "BLOCK"
    if z == EXC or y == EXC:
        return False
    if gate in ("AND", "UNANIMOUS"):
        return zP and yP
    if gate == "OR":
        return zP or yP
    if gate == "EXECUTOR_PRIORITY":
        return zP and not yB
    if gate == "ASSESSOR_PRIORITY":
        return yP and not zF
    return False      # MAJORITY and anything unknown: never


def run(p, led, tier):
    h = Harness(p)
    alpha, extra = alphabet(p)
    G = gates(p)
    led.explanation = (
        "Finite-domain abstract interpretation of CoherentFeedForwardLoop.run (the repo's source, agents replaced by "
        "stubs returning each verdict class or raising): the complete table gate logic × executor verdict × assessor "
        "verdict is extracted — every branch folds because the verdicts and the gate are constants — and compared "
        "with the table the statement gives (direction: a cell may be not-blocked only if the statement allows it). "
        "The approval token's presence, issuer and the symbolic provenance of its hash are read off the same runs; "
        "the cache is exercised by interpreting two consecutive calls with the same symbolic prompt.")
    led.level = "proof"
    led.exhaustive = True
    led.not_decided = ["hash collisions between different prompts", "behaviour when configuration is mutated between calls"]
    led.assumptions = ["verdict strings outside the alphabet behave like OTHER: the alphabet is the statement's verdicts ∪ every constant the loop compares action_type with",
                       "A2 hashlib digests are deterministic functions of their input"]
    led.extra["alphabet"] = alpha
    led.extra["gates"] = G
    led.rule("C07-R1", "a (gate, executor verdict, assessor verdict) cell is not-blocked only if the statement's table allows it", 6 * 49)
    led.rule("C07-R2", "an exception from either agent yields a blocked result and never escapes run()", 6 * 2)
    led.rule("C07-R3", "a token is attached only when the assessor permitted; its hash derives from exactly the prompt; issuer is the assessor", 6)
    led.rule("C07-R4", "a cache hit returns the stored record with an identical verdict and consults no agent", 2)
    runm = p.find_method(h.loop, "run")

    cells = 0
    tokens_seen = 0
    for g in G:
        for z in alpha + [EXC]:
            for y in alpha + [EXC]:
                if z == EXC and y == EXC:
                    continue
                try:
                    paths = explore(lambda o: h.run_once(o, g, False, False, "CLOSED", (z, y)), max_paths=64)
                except Imprecise as e:
                    raise AnchorError(f"interpretation of run() is imprecise for ({g},{z},{y}): {e}")
                cells += 1
                rule = "C07-R2" if EXC in (z, y) else "C07-R1"
                key = f"gate={g} executor={z} assessor={y}"
                problems = []
                for _, out in paths:
                    r = out["results"][0]
                    if r["kind"] == "raise":
                        problems.append(f"run() raised {r['exc']}")
                        continue
                    f = r["fields"]
                    blocked = f.get("blocked")
                    if not isinstance(blocked, bool):
                        problems.append(f"blocked is not a definite boolean ({blocked!r})")
                        continue
                    if not blocked and not may_pass(g, z, y):
                        problems.append(f"comes back NOT blocked (action={f.get('action')!r}, success={f.get('success')!r})")
                    if not blocked and f.get("success") is not True:
                        problems.append(f"not blocked but success={f.get('success')!r}")
                    tok = f.get("approval_token")
                    if tok is not None:
                        tokens_seen += 1
                        if y != "PERMIT":
                            problems.append("approval token attached although the assessor did not permit")
                if problems:
                    led.fail(rule, key, where(runm, runm.node), "; ".join(sorted(set(problems))))
                else:
                    f = paths[0][1]["results"][0]["fields"]
                    led.ok(rule, key, where(runm, runm.node),
                           f"{len(paths)} path(s): blocked={f.get('blocked')} success={f.get('success')} action={f.get('action')!r} token={'yes' if f.get('approval_token') is not None else 'no'}"
                           + (" (statement allows pass)" if may_pass(g, z, y) else " (statement requires blocked)"),
                           nontrivial=True)
    led.extra["cells"] = cells

    # ---------------- R1b the same request evaluated again (cache off): the second answer obeys the table and the token
    # clause for the verdicts of *that* evaluation — nothing is remembered from the first
    led.rule("C07-R1b", "a request permitted once and evaluated again is judged afresh: blocked unless this evaluation's verdicts permit it; a token only if the assessor permits now", 6)
    for g in G:
        probs2, n2 = [], 0
        for z in alpha + [EXC]:
            for y in alpha + [EXC]:
                if z == EXC and y == EXC:
                    continue
                try:
                    paths = explore(lambda o: h.run_once(o, g, False, False, "CLOSED", ("EXECUTE", "PERMIT"), verdict_seq=[("EXECUTE", "PERMIT"), (z, y)]), max_paths=64)
                except Imprecise as e:
                    raise AnchorError(f"interpretation of a two-request history is imprecise for ({g},{z},{y}): {e}")
                for _, out in paths:
                    n2 += 1
                    r = out["results"][1]
                    if r["kind"] == "raise":
                        probs2.append(f"second evaluation ({z},{y}) raised {r['exc']}")
                        continue
                    f = r["fields"]
                    if f.get("blocked") is False and not may_pass(g, z, y):
                        probs2.append(f"second evaluation with executor={z} assessor={y} comes back NOT blocked")
                    if f.get("approval_token") is not None and y != "PERMIT":
                        probs2.append(f"second evaluation with assessor={y} still carries an approval token (minted for the first evaluation)")
        key = f"gate={g} ▸ permitted once, evaluated again with every verdict pair"
        if probs2:
            led.fail("C07-R1b", key, where(runm, runm.node), sorted(set(probs2))[0], path=sorted(set(probs2))[:6],
                     witness="gate OR, cache off: 'list files' permitted, then the assessor fails on the same prompt: the reply still carries its token")
        else:
            led.ok("C07-R1b", key, where(runm, runm.node), f"{n2} path(s): the second answer follows the table and the token clause of its own verdicts")

    # ---------------- R3 token provenance, one permitting cell per gate that can pass with assessor PERMIT
    for g in G:
        key = f"gate={g} ▸ token"
        cand = [(z, "PERMIT") for z in alpha if may_pass(g, z, "PERMIT")]
        if not cand:
            # gate can never pass: no token may ever be attached (already covered by R1) — still run one cell
            paths = explore(lambda o: h.run_once(o, g, False, False, "CLOSED", ("EXECUTE", "PERMIT")), max_paths=64)
            f = paths[0][1]["results"][0]["fields"]
            if f.get("approval_token") is not None and f.get("blocked") is False:
                led.fail("C07-R3", key, where(runm, runm.node), "token released by a gate that never permits")
            else:
                led.ok("C07-R3", key, where(runm, runm.node), "gate never passes; no token reaches a not-blocked result", nontrivial=False)
            continue
        z, y = cand[0]
        paths = explore(lambda o: h.run_once(o, g, False, False, "CLOSED", (z, y)), max_paths=64)
        probs = []
        detail = ""
        for _, out in paths:
            f = out["results"][0]["fields"]
            tok = f.get("approval_token")
            if tok is None:
                if f.get("blocked") is False:
                    probs.append("assessor permitted, request passed, but no approval token is attached")
                continue
            rh = tok.fields.get("request_hash")
            iss = tok.fields.get("issuer")
            if not isinstance(rh, Unknown):
                probs.append(f"request_hash is the constant {rh!r}: not bound to the request")
            else:
                s = rh.sym
                detail = s
                if "user_prompt" not in s:
                    probs.append(f"request_hash `{s}` does not derive from the prompt")
                if "hashlib." not in s:
                    probs.append(f"request_hash `{s}` is not a hash of the prompt")
                elif _key_provenance(rh):
                    probs.append(f"request_hash `{s}` {_key_provenance(rh)}")
                foreign = [w for w in ("payload_", "confidence_", "clock", "failure_", "cache_") if w in s]
                if foreign:
                    probs.append(f"request_hash `{s}` mixes in {foreign}")
            if iss != out["assessor_name"] or iss is None:
                probs.append(f"issuer {iss!r} is not the assessor ({out['assessor_name']!r})")
        if probs:
            led.fail("C07-R3", key, where(runm, runm.node), "; ".join(sorted(set(probs))))
        else:
            led.ok("C07-R3", key, where(runm, runm.node), f"cell ({z},{y}): request_hash = {detail}; issuer = assessor's name")

    # ---------------- R3b a request submitted from inside an agent (re-entrant run on the same loop) leaves the outer
    # request's token bound to the outer prompt and its cached reply filed under the outer prompt
    key = "run ▸ re-entrant request from inside an agent ▸ token and cache stay bound to their own prompt"
    from ..fdai import PyRaise as _PyRaise

    def go_re(o):
        it, obj = h.build(o, "AND", False, True, "CLOSED", ("EXECUTE", "PERMIT"))
        runm_ = p.find_method(h.loop, "run")
        base_express = it.stubs["BioAgent.express"]
        state = {"nested": False}

        def express(interp, args, kwargs):
            role = args[0].fields.get("role")
            if role == "Executor" and not state["nested"]:
                state["nested"] = True
                it._verdicts["v"] = ("BLOCK", "BLOCK")            # the sub-request is refused by both agents
                try:
                    interp.call_fi(runm_, [obj, Unknown("inner_prompt")], {})
                except _PyRaise:
                    pass
                it._verdicts["v"] = ("EXECUTE", "PERMIT")
            return base_express(interp, args, kwargs)
        it.stubs["BioAgent.express"] = express
        outer = it.call_fi(runm_, [obj, Unknown("user_prompt", kind="str")], {})
        tok = outer.fields.get("approval_token") if isinstance(outer, Obj) else None
        rh = tok.fields.get("request_hash") if isinstance(tok, Obj) else None
        # afterwards the sub-request is submitted on its own: it must be judged (or answered from ITS cached refusal), never
        # served the outer request's permission
        it._verdicts["v"] = ("BLOCK", "BLOCK")
        later = it.call_fi(runm_, [obj, Unknown("inner_prompt")], {})
        return dict(rh=rh.sym if isinstance(rh, Unknown) else repr(rh), outer_blocked=outer.fields.get("blocked") if isinstance(outer, Obj) else None,
                    later_blocked=later.fields.get("blocked") if isinstance(later, Obj) else None)
    try:
        outs_re = [r for _, r in explore(go_re, max_paths=200)]
        probs_re = []
        for r in outs_re:
            if r["outer_blocked"] is False and "inner_prompt" in r["rh"]:
                probs_re.append(f"the outer request's token is bound to `{r['rh'][:120]}`: the fingerprint of the request submitted from inside the agent")
            if r["later_blocked"] is not True:
                probs_re.append("the refused sub-request, submitted again on its own, comes back not-blocked (it is served the outer request's cached permission)")
        if probs_re:
            led.fail("C07-R3", key, where(runm, runm.node), sorted(set(probs_re))[0], path=sorted(set(probs_re))[:4],
                     witness="an executor that submits a dangerous sub-request from inside express(): the outer approval token carries the sub-request's hash")
        else:
            led.ok("C07-R3", key, where(runm, runm.node), f"{len(outs_re)} path(s): the outer token derives from the outer prompt only; the sub-request stays refused afterwards")
    except Imprecise as e:
        led.undecided("C07-R3", key, where(runm, runm.node), f"re-entrant history not interpretable: {e}")

    # ---------------- R4 cache
    for (z, y) in (("EXECUTE", "PERMIT"), ("EXECUTE", "BLOCK")):
        key = f"cache ▸ second call with the same prompt ▸ ({z},{y})"
        paths = explore(lambda o: h.run_once(o, "AND", False, True, "CLOSED", (z, y), times=2), max_paths=64)
        probs, hits = [], 0
        for _, out in paths:
            a, b = out["results"]
            if a["kind"] != "return" or b["kind"] != "return":
                probs.append("run() raised")
                continue
            consulted = [e for e in b["events"] if e[0] == "express"]
            if not consulted:
                hits += 1
                if not isinstance(b["obj"], Obj):
                    probs.append(f"cache hit returns {b['obj']!r}, not the stored record")
                    continue
                fa, fb = a["fields"], dict(b["obj"].fields)
                for fld in ("blocked", "success", "action", "approval_token", "block_reason"):
                    if fa.get(fld) is not fb.get(fld) and fa.get(fld) != fb.get(fld):
                        probs.append(f"cached reply differs from the original in `{fld}`: {fa.get(fld)!r} → {fb.get(fld)!r}")
                if fb.get("cached") is not True:
                    probs.append("cache hit not flagged as cached")
        if not hits:
            probs.append("no path of the second call is a cache hit (cache no longer consulted before the agents)")
        # the cache key must identify the request: derived from the prompt through encode + a hashlib digest only
        for _, out in paths:
            for k in out["loop"].fields.get("_cache", {}):
                why = _key_provenance(k)
                if why:
                    probs.append(f"cache key `{k.sym if isinstance(k, Unknown) else k!r}` {why}")
        if probs:
            led.fail("C07-R4", key, where(runm, runm.node), "; ".join(sorted(set(probs))))
        else:
            led.ok("C07-R4", key, where(runm, runm.node), f"{len(paths)} path(s), {hits} cache hit(s): no agent consulted, verdict fields identical, cached=True")
    led.extra["tokens_seen"] = tokens_seen


def _key_provenance(k):
    """None if the key determines the prompt: the prompt itself, a hashlib digest of a text that determines it, or a text
    that embeds such a thing once, unmodified, beside literals and configuration (gate logic, namespace prefix); else why not"""
    import re
    if isinstance(k, tuple) and any(isinstance(x, Unknown) for x in k):
        # a composite key: one component must determine the prompt, the others may be configuration
        whys = [_key_provenance(x) for x in k if isinstance(x, Unknown)]
        return None if any(w is None for w in whys) else whys[0]
    if not isinstance(k, Unknown):
        return "is a constant: every request shares it"
    FOREIGN = ("payload_", "confidence_", "clock", "failure_", "cache_")

    def determines(s, depth=0):
        if depth > 4:
            return False
        if s == "user_prompt" or re.fullmatch(r"user_prompt\.encode\([^()]*\)", s):
            return True
        m = re.fullmatch(r"hashlib\.\w+\((?P<x>.*)\.encode\([^()]*\)\)\.(hexdigest|digest)\(\)(\[\d*:\d*\])?", s, re.DOTALL)
        if m:
            return determines(m.group("x"), depth + 1)
        if s.startswith("f⟨") and s.endswith("⟩"):
            body = s[2:-1]
            # literal text and {placeholders} (brace matching)
            parts, lit, d_, cur = [], "", 0, ""
            for ch in body:
                if ch == "{":
                    if d_ == 0:
                        parts.append(("lit", lit))
                        lit, cur = "", ""
                    else:
                        cur += ch
                    d_ += 1
                elif ch == "}" and d_ > 0:
                    d_ -= 1
                    if d_ == 0:
                        parts.append(("ph", cur))
                    else:
                        cur += ch
                elif d_ > 0:
                    cur += ch
                else:
                    lit += ch
            parts.append(("lit", lit))
            with_prompt = [x for kind, x in parts if kind == "ph" and "user_prompt" in x]
            others = "".join(x for kind, x in parts if not (kind == "ph" and "user_prompt" in x))
            if len(with_prompt) == 1 and "user_prompt" not in others and not any(w in others for w in FOREIGN):
                return determines(with_prompt[0], depth + 1)
        return False
    s = k.sym
    if determines(s):
        return None
    if "user_prompt" not in s:
        return "does not derive from the prompt"
    return "is not a digest of the prompt itself: the prompt is transformed first, so different requests can share one entry / one token"
