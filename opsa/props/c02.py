"""C02 — the safe evaluator computes the value Python would, on the allowed subset."""
from __future__ import annotations

import ast
import operator

from ..fdai import Interp, Obj, PyRaise, Unknown, explore, Imprecise, ExtRef, ExcVal
from ..loader import AnchorError, dotted, is_self_attr, short, src, walk_no_nested
from .mitomodel import table_entries
from ..rules import where, mentions_name

M = "operon_ai/organelles/mitochondria.py"
FILES = [M]

# reference semantics of the language (from the Python data model, not from the repo)
BINOPS = {"Add": "add", "Sub": "sub", "Mult": "mul", "Div": "truediv", "FloorDiv": "floordiv", "Mod": "mod", "Pow": "pow",
          "LShift": "lshift", "RShift": "rshift", "BitOr": "or_", "BitAnd": "and_", "BitXor": "xor", "MatMult": "matmul"}
UNOPS = {"USub": "neg", "UAdd": "pos", "Invert": "invert"}
CMPOPS = {"Eq": "eq", "NotEq": "ne", "Lt": "lt", "LtE": "le", "Gt": "gt", "GtE": "ge"}
ALIASES = {"__add__": "add", "__sub__": "sub", "__mul__": "mul", "__truediv__": "truediv", "__floordiv__": "floordiv", "__mod__": "mod",
           "__pow__": "pow", "__neg__": "neg", "__pos__": "pos", "__eq__": "eq", "__ne__": "ne", "__lt__": "lt", "__le__": "le", "__gt__": "gt", "__ge__": "ge",
           "__invert__": "invert", "inv": "invert"}


def C(x):
    return ast.Constant(value=x)


def find_walker(p, mito):
    """the recursive method that takes a node and dispatches on isinstance(node, ast.X)"""
    # semantic anchor: the method that the pathway functions hand `<parsed tree>.body` to
    votes = {}
    curried = {}
    for m in mito.methods.values():
        for n in walk_no_nested(m.node):
            if isinstance(n, ast.Call) and n.args and isinstance(n.args[0], ast.Attribute) and n.args[0].attr == "body" and isinstance(n.args[0].value, ast.Name):
                f = n.func
                if isinstance(f, ast.Attribute) and isinstance(f.value, ast.Name) and f.value.id == "self" and f.attr in mito.methods:
                    votes[f.attr] = votes.get(f.attr, 0) + 1
                    # `self.h(tree.body)(tree.body)`: h returns the evaluator, which is then applied to the same node
                    from ..loader import parent as _parent
                    q = _parent(n)
                    if isinstance(q, ast.Call) and q.func is n and len(q.args) == 1 and src(q.args[0]) == src(n.args[0]):
                        curried[f.attr] = curried.get(f.attr, 0) + 1
    if votes:
        best = max(votes.items(), key=lambda kv: kv[1])
        if best[1] >= 2:
            w = mito.methods[best[0]]
            w.curried = curried.get(best[0], 0) == best[1]
            return w
    cands = []
    for m in mito.methods.values():
        params = [a for a in m.params() if a != "self"]
        if not params:
            continue
        n_isinst = sum(1 for n in walk_no_nested(m.node) if isinstance(n, ast.Call) and isinstance(n.func, ast.Name) and n.func.id == "isinstance"
                       and n.args and isinstance(n.args[0], ast.Name) and n.args[0].id == params[0] and "ast." in src(n.args[1]))
        if n_isinst >= 3:
            cands.append((n_isinst, m))
    if not cands:
        raise AnchorError("Mitochondria: no AST walker found (no method receives `<tree>.body`, none dispatches on isinstance(node, ast.X))")
    return max(cands, key=lambda x: x[0])[1]


def accepted_classes(W):
    """node classes the walker evaluates: decided semantically — some path of the abstract interpretation of the
    walker on a minimal instance of the class returns a value (however the dispatch is written)"""
    if getattr(W, "_acc", None) is None:
        from .c01 import all_expr_classes, minimal_instance
        out = []
        for cls in all_expr_classes():
            node = minimal_instance(cls)
            if node is None:
                continue
            if any(r["kind"] == "ok" for r in W.paths(node)):
                out.append(cls.__name__)
        W._acc = sorted(out)
    return W._acc


def op_of(sym):
    """'operator.add(a, b)' -> ('add', 'a, b')"""
    if sym.startswith("operator.") and sym.endswith(")"):
        name, _, rest = sym[len("operator."):].partition("(")
        return ALIASES.get(name, name), rest[:-1]
    return None, None


class Walk:
    def __init__(self, p):
        self.p = p
        self.mito = p.cls("Mitochondria", M)
        self.walker = find_walker(p, self.mito)
        self._acc = None
        self._cluster = None

    def cluster(self):
        """the walker and the methods it dispatches to that call back into it (its mutually recursive helpers)"""
        if self._cluster is None:
            from ..resolve import Resolver
            res = Resolver(self.p)
            fwd = res.reachable_from(self.walker)
            out = {self.walker.key: self.walker}
            for g in fwd:
                if g.cls is self.mito and g.key != self.walker.key and any(h.key == self.walker.key for h in res.reachable_from(g)):
                    out[g.key] = g
            if getattr(self.walker, "curried", False):
                # the walker hands out evaluators: they (and whatever they reach that comes back to the walker) are the cluster,
                # and so is a thin method that only applies the walker to its own parameter
                for r in walk_no_nested(self.walker.node):
                    if isinstance(r, ast.Return) and r.value is not None:
                        for g in res._leaves(self.walker, r.value, 0, set()):
                            out[g.key] = g
                for g in list(out.values()):
                    for h in res.reachable_from(g):
                        if h.cls is self.mito and any(k.key == self.walker.key for k in res.reachable_from(h)) and h.name not in ("metabolize",):
                            pass
                for m in self.mito.methods.values():
                    rets = [n for n in walk_no_nested(m.node) if isinstance(n, ast.Return) and n.value is not None]
                    ps = [a for a in m.params() if a != "self"]
                    v = rets[0].value if len(rets) == 1 else None
                    if len(ps) == 1 and isinstance(v, ast.Call) and isinstance(v.func, ast.Call) and is_self_attr(v.func.func, self.walker.name) \
                            and len(v.args) == 1 and src(v.args[0]) == ps[0]:
                        out[m.key] = m
            self._cluster = out
        return self._cluster

    def run(self, o, node, ext_stubs=None):
        it = Interp(self.p, o)
        obj = it.instantiate(self.mito, [], {"silent": True})
        it.events.clear()
        if ext_stubs:
            it.ext_stubs.update(ext_stubs)       # only while the walker runs (the constructor may use the same builtins)
        try:
            v = it.call_fi(self.walker, [obj, node], {})
            if getattr(self.walker, "curried", False):
                v = it.call(v, [node], {})          # the walker hands back the evaluator for this node: apply it
            return dict(kind="ok", value=v, decisions=list(it.decisions), events=list(it.events), reads=set(it.host_reads))
        except PyRaise as e:
            return dict(kind="raise", exc=repr(e.exc), decisions=list(it.decisions), events=list(it.events), reads=set(it.host_reads))

    def paths(self, node, max_paths=400):
        try:
            return [r for _, r in explore(lambda o: self.run(o, node), max_paths=max_paths)]
        except Imprecise as e:
            raise AnchorError(f"walker could not be interpreted on {ast.dump(node)[:80]}: {e}")


def truth_of(decisions, sym):
    for d in decisions:
        if d[2] == sym:
            return d[3]
    return None


def run(p, led, tier):
    W = Walk(p)
    mito, walker = W.mito, W.walker
    acc = accepted_classes(W)
    led.level = "translation_validation"
    led.explanation = (
        "Translation validation of the definitional interpreter, node class by node class: the walker's source is "
        "abstractly interpreted (fdai) on AST nodes whose leaves are symbolic constants, every Unknown truth test "
        "explored both ways, and the value it returns on each path is compared with the reference semantics of that "
        "node class written in the checker from the Python data model (operator function per operator class; `and`/`or` "
        "return the deciding operand; conditional expression selects by the test; comparison chains are the "
        "conjunction of adjacent pairs; calls pass positional and keyword arguments). Structural rules add: every "
        "semantic field of each handled node class is consumed; the text given to the parser derives from the input "
        "by identity/strip only; only the logic pathway post-processes, with bool().")
    led.exhaustive = True
    led.not_decided = ["floating-point / big-integer identity of results (operator functions are the reference)", "which pathway auto-detection picks", "JSON-vs-Python literal corner cases of the transform pathway"]
    led.assumptions = ["A2 operator.* / math.* are Python's own semantics", "leaf operands are arbitrary values (symbolic)"]
    led.extra["walker"] = walker.qual
    led.extra["accepted_node_classes"] = acc
    led.rule("C02-R1", "every operator class the walker accepts is computed by Python's operator function for that class (binary, unary, comparison)", 10)
    led.rule("C02-R2", "every semantic field of each handled node class is consumed by its branch", 8)
    led.rule("C02-R3", "the text handed to the parser derives from the input by identity/strip only", 3)
    led.rule("C02-R4", "and/or return the deciding operand with short-circuit; conditional selects by the test; chains compare adjacent pairs; containers keep order; calls pass positional and keyword arguments", 8)
    led.rule("C02-R5", "only the logic pathway post-processes the walker's value, and only with bool()", 2)
    a, b, c = Unknown("a"), Unknown("b"), Unknown("c")
    _orig_paths = W.paths
    counter = {"programs": 0, "paths": 0}

    def _counted(node, max_paths=400):
        r = _orig_paths(node, max_paths)
        counter["programs"] += 1
        counter["paths"] += len(r)
        return r
    W.paths = _counted
    led.extra["programs"] = 0
    led.extra["disagreements_checked"] = 0
    led._c02_counter = counter

    # ---------------- R1 operators
    for cls, table, arity in (("BinOp", BINOPS, 2), ("UnaryOp", UNOPS, 1)):
        if cls not in acc:
            continue
        for opname, fn in table.items():
            opnode = getattr(ast, opname)()
            node = ast.BinOp(C(a), opnode, C(b)) if arity == 2 else ast.UnaryOp(opnode, C(a))
            key = f"{walker.qual} ▸ {cls} {opname}"
            bad, okn = [], 0
            for r in W.paths(node):
                if r["kind"] == "raise":
                    continue
                okn += 1
                v = r["value"]
                got, args = op_of(v.sym) if isinstance(v, Unknown) else (None, None)
                want_args = "?a, ?b" if arity == 2 else "?a"
                if got != fn or args.replace("?", "") != want_args.replace("?", ""):
                    bad.append(f"returns {v!r}, Python computes operator.{fn}({want_args.replace('?', '')})")
            if bad:
                led.fail("C02-R1", key, where(walker, walker.node), bad[0])
            elif okn:
                led.ok("C02-R1", key, where(walker, walker.node), f"operator.{fn}(operands in order)")
            else:
                led.ok("C02-R1", key, where(walker, walker.node), "unsupported → raises (failure), allowed", nontrivial=False)
    # nesting: the grouping written in the source is the grouping computed (no re-association of a run of one operator)
    if "BinOp" in acc:
        supported = [(o, f) for o, f in BINOPS.items() if any(r["kind"] != "raise" for r in W.paths(ast.BinOp(C(a), getattr(ast, o)(), C(b))))]
        for opname, fn in supported:
            for shape, node, want in (
                    ("a op (b op c)", ast.BinOp(C(a), getattr(ast, opname)(), ast.BinOp(C(b), getattr(ast, opname)(), C(c))), f"operator.{fn}(a, operator.{fn}(b, c))"),
                    ("(a op b) op c", ast.BinOp(ast.BinOp(C(a), getattr(ast, opname)(), C(b)), getattr(ast, opname)(), C(c)), f"operator.{fn}(operator.{fn}(a, b), c)")):
                key = f"{walker.qual} ▸ BinOp {opname} ▸ grouping {shape}"
                bad, okn = [], 0
                for r in W.paths(node):
                    if r["kind"] == "raise":
                        continue
                    okn += 1
                    v = r["value"]
                    got = v.sym.replace("?", "") if isinstance(v, Unknown) else repr(v)
                    if got != want:
                        bad.append(f"returns {got}, Python computes {want}")
                if bad:
                    led.fail("C02-R1", key, where(walker, walker.node), bad[0], witness="0.1 + (0.2 + 0.3) evaluates to 0.6000000000000001 (Python: 0.6); 1e16 + (1 + 1) loses the 2")
                elif okn:
                    led.ok("C02-R1", key, where(walker, walker.node), f"{want}: the source grouping is kept")
                else:
                    led.fail("C02-R1", key, where(walker, walker.node), "a nested operand makes the supported operator raise")
    if "UnaryOp" in acc:
        key = f"{walker.qual} ▸ UnaryOp Not"
        rs = W.paths(ast.UnaryOp(ast.Not(), C(a)))
        bad = [r for r in rs if r["kind"] == "ok" and not (isinstance(r["value"], Unknown) and r["value"].sym == "a" and r["value"].neg) and not isinstance(r["value"], bool)]
        wrongbool = [r for r in rs if r["kind"] == "ok" and isinstance(r["value"], bool) and r["value"] != (not truth_of(r["decisions"], "a"))]
        if bad or wrongbool:
            led.fail("C02-R1", key, where(walker, walker.node), f"`not a` evaluates to {(bad or wrongbool)[0]['value']!r}")
        else:
            led.ok("C02-R1", key, where(walker, walker.node), "logical negation of the operand")
    if "Compare" in acc:
        for opname, fn in list(CMPOPS.items()) + [("In", None), ("NotIn", None), ("Is", None), ("IsNot", None)]:
            node = ast.Compare(C(a), [getattr(ast, opname)()], [C(b)])
            key = f"{walker.qual} ▸ Compare {opname}"
            bad, okn = [], 0
            for r in W.paths(node):
                if r["kind"] == "raise":
                    continue
                okn += 1
                syms = [d[2] for d in r["decisions"]]
                want = f"operator.{fn}(a, b)" if fn else None
                got = [op_of(s) for s in syms]
                if fn is None:
                    bad.append(f"{opname} is evaluated although no reference operator is in the allowed subset")   # would need containment semantics
                    continue
                if not got or got[0] != (fn, "a, b"):
                    bad.append(f"decides on {syms or r['value']!r}, Python computes a {opname} b = operator.{fn}(a, b)")
                elif isinstance(r["value"], bool) and r["value"] != r["decisions"][0][3]:
                    bad.append(f"returns {r['value']} although the comparison was {r['decisions'][0][3]}")
            if bad:
                led.fail("C02-R1", key, where(walker, walker.node), bad[0])
            elif okn:
                led.ok("C02-R1", key, where(walker, walker.node), f"truth of operator.{fn}(left, right)")
            else:
                led.ok("C02-R1", key, where(walker, walker.node), "unsupported → raises (failure), allowed", nontrivial=False)

    # ---------------- R4 value flow
    if "BoolOp" in acc:
        for opname in ("And", "Or"):
            node = ast.BoolOp(getattr(ast, opname)(), [C(a), C(b), C(c)])
            key = f"{walker.qual} ▸ BoolOp {opname} (3 operands)"
            bad = []
            rs = W.paths(node)
            for r in rs:
                if r["kind"] == "raise":
                    bad.append(f"raises {r['exc']}")
                    continue
                # reference: first operand whose truth decides, else the last
                expect = None
                for name, u in (("a", a), ("b", b)):
                    t = truth_of(r["decisions"], name)
                    if t is None:
                        expect = ("undetermined", name)
                        break
                    if (opname == "And" and not t) or (opname == "Or" and t):
                        expect = ("value", u)
                        break
                if expect is None:
                    expect = ("value", c)
                if expect[0] == "undetermined":
                    bad.append(f"returns {r['value']!r} without testing operand `{expect[1]}`")
                elif r["value"] is not expect[1] and r["value"] != expect[1]:
                    bad.append(f"returns {r['value']!r} where Python returns the operand {expect[1]!r} (truths: {[(d[2], d[3]) for d in r['decisions']]})")
                else:
                    # short-circuit: operands after the deciding one are not evaluated for truth
                    order = [d[2] for d in r["decisions"]]
                    if expect[1] is a and any(x in order for x in ("b", "c")):
                        bad.append("operands after the deciding one are still evaluated")
            if bad:
                led.fail("C02-R4", key, where(walker, walker.node), f"{len(bad)}/{len(rs)} path(s) differ from Python: {bad[0]}",
                         witness="(2) and (3) evaluates to True; Python gives 3 — so `(2 and 3) == 3` is False")
            else:
                led.ok("C02-R4", key, where(walker, walker.node), f"{len(rs)} path(s): the deciding operand itself is returned, later operands untouched")
    if "IfExp" in acc:
        key = f"{walker.qual} ▸ IfExp"
        rs = W.paths(ast.IfExp(C(a), C("BODY"), C("ORELSE")))
        bad = [r for r in rs if r["kind"] != "ok" or r["value"] != ("BODY" if truth_of(r["decisions"], "a") else "ORELSE")]
        if bad:
            led.fail("C02-R4", key, where(walker, walker.node), f"conditional returns {bad[0].get('value')!r} when the test is {truth_of(bad[0]['decisions'], 'a')}")
        else:
            led.ok("C02-R4", key, where(walker, walker.node), f"{len(rs)} path(s): body when the test is true, orelse otherwise")
    if "Compare" in acc:
        key = f"{walker.qual} ▸ Compare chain a < b <= c"
        rs = W.paths(ast.Compare(C(a), [ast.Lt(), ast.LtE()], [C(b), C(c)]))
        bad = []
        for r in rs:
            if r["kind"] != "ok":
                bad.append(f"raises {r['exc']}")
                continue
            pairs = [op_of(d[2]) for d in r["decisions"]]
            want = [("lt", "a, b"), ("le", "b, c")]
            if pairs != want[:len(pairs)] or not pairs:
                bad.append(f"compares {pairs}, Python compares adjacent pairs {want}")
                continue
            truths = [d[3] for d in r["decisions"]]
            expect = all(truths) and len(truths) == 2
            if len(truths) == 2 and truths[0] is False:
                bad.append("second comparison evaluated after the first failed")
            if r["value"] is not expect and r["value"] != expect:
                bad.append(f"returns {r['value']!r} for comparison truths {truths}")
        if bad:
            led.fail("C02-R4", key, where(walker, walker.node), bad[0])
        else:
            led.ok("C02-R4", key, where(walker, walker.node), f"{len(rs)} path(s): conjunction of (a<b), (b<=c) with early False")
    for cls, ctor, typ in (("List", ast.List, list), ("Tuple", ast.Tuple, tuple), ("Set", ast.Set, set)):
        if cls not in acc:
            continue
        key = f"{walker.qual} ▸ {cls}"
        node = ctor([C(a), C(b), C(c)], ast.Load()) if cls != "Set" else ctor([C(a), C(b), C(c)])
        rs = W.paths(node)
        bad = [r for r in rs if r["kind"] != "ok" or not isinstance(r["value"], typ) or (typ is not set and list(r["value"]) != [a, b, c])]
        if bad:
            led.fail("C02-R4", key, where(walker, walker.node), f"returns {bad[0].get('value')!r} for [a, b, c]")
        else:
            led.ok("C02-R4", key, where(walker, walker.node), "elements evaluated in order into the same container type")
    if "Call" in acc:
        # positional and keyword arguments, over every callable of the allow-list (first one shown; all enumerated)
        safe = _safe_function_names(p, mito)
        badp, badk, n = [], [], 0
        for fname in safe:
            n += 1
            for r in W.paths(ast.Call(ast.Name(fname, ast.Load()), [C(a), C(b)], [])):
                if r["kind"] == "ok" and isinstance(r["value"], Unknown) and "(" in r["value"].sym and not r["value"].sym.endswith("(a, b)"):
                    badp.append(f"{fname}(a, b) evaluates to {r['value']!r}")
            for r in W.paths(ast.Call(ast.Name(fname, ast.Load()), [C(a)], [ast.keyword("kw", C(b))])):
                if r["kind"] == "ok":
                    v = r["value"]
                    if not (isinstance(v, Unknown) and "kw=b" in v.sym):
                        badk.append(f"{fname}(a, kw=b) evaluates to {v!r}: the keyword argument is dropped")
        key = f"{walker.qual} ▸ Call ▸ positional arguments ({n} allow-listed callables)"
        if badp:
            led.fail("C02-R4", key, where(walker, walker.node), badp[0])
        else:
            led.ok("C02-R4", key, where(walker, walker.node), "arguments are passed in order")
        key = f"{walker.qual} ▸ Call ▸ keyword arguments ({n} allow-listed callables)"
        if badk:
            led.fail("C02-R4", key, where(walker, walker.node), f"{len(badk)} callable(s): {badk[0]}", witness="round(2.567, ndigits=2) evaluates to 3, Python gives 2.57")
        else:
            led.ok("C02-R4", key, where(walker, walker.node), "keyword arguments reach the callee (or the call is refused)")
        # a callee that rejects the call is not called again in another form: its exception is the result
        key = f"{walker.qual} ▸ Call ▸ a callee that raises is called once and its exception propagates"
        badr, nr = [], 0
        for fname in safe:
            for exc_name in ("TypeError", "ValueError"):
                for shape, args_, kws_ in (("f(a, kw=b)", [C(a)], [ast.keyword("kw", C(b))]), ("f(a, b)", [C(a), C(b)], [])):
                    calls_seen = []

                    def raising(interp, args, kwargs, _e=exc_name, _log=calls_seen):
                        _log.append((tuple(args), dict(kwargs)))
                        raise PyRaise(ExcVal(_e, ("callee rejects these arguments",)))
                    stubs = {nm_: raising for nm_ in (fname, f"math.{fname}", f"operator.{fname}")}
                    del calls_seen[:]
                    try:
                        rs_ = [r for _, r in explore(lambda o: W.run(o, ast.Call(ast.Name(fname, ast.Load()), args_, kws_), ext_stubs=stubs), max_paths=50)]
                    except Imprecise:
                        continue
                    if not calls_seen:
                        continue        # this table entry is not an external callable (a lambda / constant): nothing to stub
                    nr += 1
                    for r in rs_:
                        if r["kind"] == "ok":
                            badr.append(f"{fname}: {shape} with a callee raising {exc_name} evaluates to {r['value']!r}")
                    if len(calls_seen) > len(rs_):
                        badr.append(f"{fname}: {shape} — the callee raised {exc_name} and was called again ({len(calls_seen)} calls on {len(rs_)} path(s))")
        if badr:
            led.fail("C02-R4", key, where(walker, walker.node), f"{len(badr)} case(s), e.g. {badr[0]}", witness="log(8, base=2) evaluates to 3.0; Python raises TypeError")
        elif nr:
            led.ok("C02-R4", key, where(walker, walker.node), f"{nr} (callable, exception, call shape) cases: one call, the exception is the result")
        # an allow-listed name whose value is not callable (a constant): Python raises TypeError for `pi()`, so must the engine
        consts = []
        for e_ in table_entries(p, mito, "SAFE_FUNCTIONS"):
            if not isinstance(e_.key, str) or e_.key in safe:
                continue
            vals = [r for r in W.paths(ast.Name(e_.key, ast.Load()))]
            if vals and all(r["kind"] == "ok" and isinstance(r["value"], (int, float, str, bytes, type(None))) for r in vals):
                consts.append(e_.key)
        key = f"{walker.qual} ▸ Call ▸ calling an allow-listed constant raises"
        badc = []
        for cname in consts:
            for shape, args_, kws_ in (("()", [], []), ("(a)", [C(a)], []), ("(a, kw=b)", [C(a)], [ast.keyword("kw", C(b))])):
                for r in W.paths(ast.Call(ast.Name(cname, ast.Load()), args_, kws_)):
                    if r["kind"] == "ok":
                        badc.append(f"{cname}{shape} evaluates to {r['value']!r}; Python raises TypeError (the value is not callable)")
        if badc:
            led.fail("C02-R4", key, where(walker, walker.node), f"{len(badc)} case(s), e.g. {badc[0]}", witness="Mitochondria().metabolize('pi()') succeeds with 3.14159…; Python raises TypeError: 'float' object is not callable")
        elif consts:
            led.ok("C02-R4", key, where(walker, walker.node), f"{len(consts)} constant(s) {consts} × 3 call shapes: every path raises")
        key = f"{walker.qual} ▸ Call ▸ **mapping argument"
        rs = W.paths(ast.Call(ast.Name(safe[0], ast.Load()), [C(a)], [ast.keyword(None, C(b))]))
        badm = [r for r in rs if r["kind"] == "ok" and not (isinstance(r["value"], Unknown) and "b" in r["value"].sym)]
        if badm:
            led.fail("C02-R4", key, where(walker, walker.node), f"{safe[0]}(a, **b) evaluates to {badm[0]['value']!r}: the ** argument is dropped")
        else:
            led.ok("C02-R4", key, where(walker, walker.node), "a ** argument is refused (or passed)")

    # ---------------- R6 what a name means does not depend on what was evaluated before
    led.rule("C02-R6", "an expression evaluates the same way on a fresh engine and after earlier evaluations on the same engine, failed ones included (no mode left switched on)", 1)
    met = p.find_method(mito, "metabolize")
    MP = next((ci for lst in p.classes.values() for ci in lst if ci.name == "MetabolicPathway" and ci.module is mito.module), None)
    if met is not None and MP is not None:
        members = [n for n, _ in MP.enum_members()]
        probes = ["true + 1", "[true, 2]", "7 if false else 3", "1 + 2", "not_a_name + 1"]
        priors = [("a failing logic evaluation", "true and undefined_name", "KREBS_CYCLE"), ("a successful logic evaluation", "true and 1 < 2", "KREBS_CYCLE"),
                  ("a failing math evaluation", "undefined_name + 1", "GLYCOLYSIS")]
        bad6, n6 = [], 0

        def outcome(r):
            f = r.fields if isinstance(r, Obj) else {}
            atp = f.get("atp")
            val = atp.fields.get("value") if isinstance(atp, Obj) else None
            return (f.get("success"), repr(val) if f.get("success") else None)
        for pw in [m_ for m_ in ("GLYCOLYSIS", "KREBS_CYCLE", "OXIDATIVE") if m_ in members]:
            for probe in probes:
                def go6(o, _pw=pw, _probe=probe):
                    it = Interp(p, o)
                    fresh = it.instantiate(mito, [], {"silent": True})
                    ref = outcome(it.call_fi(met, [fresh, _probe, it.enum_member(MP, _pw)], {}))
                    outs = {}
                    for label, expr, ppw in priors:
                        if ppw not in members:
                            continue
                        eng = it.instantiate(mito, [], {"silent": True})
                        it.call_fi(met, [eng, expr, it.enum_member(MP, ppw)], {})
                        outs[label] = outcome(it.call_fi(met, [eng, _probe, it.enum_member(MP, _pw)], {}))
                    return ref, outs
                try:
                    res6 = [r for _, r in explore(go6, max_paths=60)]
                except Imprecise as e:
                    led.info(f"history row {probe!r} on {pw} not interpreted ({e})")
                    continue
                except PyRaise as e:
                    bad6.append(f"{probe!r} on {pw}: metabolize raises {e.exc!r}")
                    continue
                for ref, outs in res6:
                    for label, got in outs.items():
                        n6 += 1
                        if got != ref:
                            bad6.append(f"{probe!r} on {pw}: {ref} on a fresh engine, {got} after {label} on the same engine")
        key = "Mitochondria.metabolize ▸ same result on a fresh engine and after earlier evaluations"
        if bad6:
            led.fail("C02-R6", key, where(met, met.node), f"{len(set(bad6))} case(s), e.g. {sorted(set(bad6))[0]}", path=sorted(set(bad6))[:6],
                     witness="metabolize('true and 1/0 > 1', KREBS_CYCLE) fails; then metabolize('true + 1', GLYCOLYSIS) succeeds with 2 (Python: NameError)")
        elif n6:
            led.ok("C02-R6", key, where(met, met.node), f"{n6} comparisons: 5 probe expressions × 3 pathways × 3 kinds of earlier evaluation")

    led.extra["programs"] = counter["programs"]
    led.extra["paths_compared_with_reference"] = counter["paths"]
    led.extra["disagreements_checked"] = sum(1 for o in led.obls if o["status"] == "failed")
    # ---------------- R2 field exhaustiveness (semantic: which attributes of the node the interpreted walker reads)
    from .c01 import minimal_instance
    for cls in acc:
        ac = getattr(ast, cls, None)
        if ac is None:
            continue
        fields = [f for f in ac._fields if f not in ("ctx", "kind", "type_comment")]
        node = minimal_instance(ac)
        rs = [r for r in W.paths(node) if r["kind"] == "ok"]
        read = set()
        for r in rs:
            read |= {f for (c, f) in r["reads"] if c == cls}
        missing = [f for f in fields if f not in read]
        key = f"{walker.qual} ▸ {cls} ▸ fields {fields}"
        if missing:
            led.fail("C02-R2", key, where(walker, walker.node), f"field(s) {missing} of ast.{cls} are never read on any evaluating path: that part of the expression is silently dropped",
                     witness="round(2.567, ndigits=2) → 3" if cls == "Call" else None)
        else:
            led.ok("C02-R2", key, where(walker, walker.node), f"every semantic field is read on the evaluating paths ({len(rs)} path(s))")

    # ---------------- R3 / R5 pathways
    from ..resolve import Resolver
    res = Resolver(p)
    PARSERS = ("ast.parse", "ast.literal_eval", "json.loads")
    module_funcs = [f for f in p.all_funcs if f.module.rel == M]

    def parse_sites(f, depth=0, seen=(), deep=False):
        """calls of a parser in f, or calls of module helpers that (transitively, three levels) hand their argument to one"""
        out_ = [n for n in walk_no_nested(f.node) if isinstance(n, ast.Call) and dotted(n.func) in PARSERS and n.args]
        if out_ or depth >= 3 or not deep:
            return out_
        for c_ in walk_no_nested(f.node):
            if isinstance(c_, ast.Call) and c_.args:
                for g_ in res.resolve_call(f, c_):
                    if g_ is not f and g_.key not in seen and g_.module.rel == M and g_.cls is None and parse_sites(g_, depth + 1, seen + (f.key,), True):
                        out_.append(c_)
        return out_
    pathway_count = 0
    for m in mito.methods.values():
        direct = parse_sites(m)
        via = []
        for c in walk_no_nested(m.node):
            if isinstance(c, ast.Call):
                for g in res.resolve_call(m, c):
                    if g is not m and g.module.rel == M and g.cls in (None, mito) and parse_sites(g, deep=True) and g.name not in ("__init__",):
                        via.append((c, g))
        if not direct and not via:
            continue
        pathway_count += 1
        params = [x for x in m.params() if x != "self"]
        for n in direct:
            why = _derivation(m, n.args[0], params)
            key = f"{m.qual} ▸ {dotted(n.func)}({short(n.args[0])})"
            if why is None:
                led.ok("C02-R3", key, where(m, n), "parsed text is the input itself (identity / strip)")
            else:
                led.fail("C02-R3", key, where(m, n), f"the text is rewritten before parsing ({why}): string-literal contents and identifiers change",
                         witness="'True' == '1' evaluates to True on the logic pathway")
        for c, g in via:
            gparams = [x for x in g.params() if x != "self"]
            key = f"{m.qual} ▸ {short(c, 50)} → {g.qual}"
            probs = []
            for n in parse_sites(g, deep=True):
                w = _derivation(g, n.args[0], gparams)
                if w:
                    probs.append(f"helper rewrites the text before parsing ({w})")
            if c.args:
                w = _derivation(m, c.args[0], params)
                if w:
                    probs.append(f"the text is rewritten before it is handed to the parser helper ({w})")
            cached = [x for x in rewritten_after_cache(p, res, M) if x[0] is m]
            if cached:
                probs.append(f"`{src(cached[0][3])}` shares one parsed tree between calls, pathways and instances while `{cached[0][4]}` rewrites the tree it got from the cache in place: "
                             "after the logic pathway has seen a text, other pathways evaluate a different expression than the one written")
            if probs:
                led.fail("C02-R3", key, where(m, c), "; ".join(probs), witness="metabolize('true + 1', KREBS_CYCLE) then metabolize('true + 1', GLYCOLYSIS) → 2, where Python raises NameError" if cached else None)
            else:
                led.ok("C02-R3", key, where(m, c), "helper parses its argument unchanged; a fresh tree per call")
    if pathway_count < 3:
        raise AnchorError(f"only {pathway_count} pathway method(s) reach a parser")
    led.floors["C02-R3"] = (3, "three parsing pathways")
    for m in mito.methods.values():
        # R5: post-processing of the walker's value
        for n in walk_no_nested(m.node):
            if isinstance(n, ast.Return) and n.value is not None and m.key not in W.cluster():
                calls = [c for c in ast.walk(n.value) if isinstance(c, ast.Call) and is_self_attr(c.func, walker.name)]
                if getattr(walker, "curried", False):
                    # the value is the *application* of what the walker returns: `self.h(x)(x)`
                    calls = [c for c in ast.walk(n.value) if isinstance(c, ast.Call) and isinstance(c.func, ast.Call) and is_self_attr(c.func.func, walker.name)]
                if calls:
                    key = f"{m.qual} ▸ result of the walker"
                    v = n.value
                    if v is calls[0]:
                        led.ok("C02-R5", key, where(m, n), "returned unchanged")
                    elif isinstance(v, ast.Call) and isinstance(v.func, ast.Name) and v.func.id == "bool" and v.args and v.args[0] is calls[0] and _is_logic_pathway(m):
                        led.ok("C02-R5", key, where(m, n), "coerced with bool() on the logic pathway, as the statement allows")
                    else:
                        led.fail("C02-R5", key, where(m, n), f"the evaluated value is post-processed by `{short(v)}`")


# ----------------------------------------------------------------------
def rewritten_after_cache(p, res, M):
    """[(caller, call, cached helper, decorator, transformer class)]: a tree obtained from a memoised parse helper is handed to
    a NodeTransformer of the module by the *caller* — rewritten in place after it came out of the cache, so the cache now
    serves the rewritten tree.  (Rewriting inside the memoised helper, keyed on whether to rewrite, or on a copy, is fine.)"""
    rewriters = {ci.name for lst in p.classes.values() for ci in lst if ci.module.rel == M and "NodeTransformer" in ci.bases}
    out = []
    if not rewriters:
        return out
    helpers = {}
    for f in p.all_funcs:
        if f.module.rel != M:
            continue
        cached = [d for d in getattr(f.node, "decorator_list", []) if any(k in src(d) for k in ("cache", "memo"))]
        if cached and any(isinstance(n, ast.Call) and dotted(n.func) == "ast.parse" for n in walk_no_nested(f.node)):
            helpers[f.key] = (f, cached[0])
    # thin wrappers that return the helper's result unchanged count as the helper
    grew = True
    while grew:
        grew = False
        for f in p.all_funcs:
            if f.module.rel != M or f.key in helpers:
                continue
            rets = [n for n in walk_no_nested(f.node) if isinstance(n, ast.Return) and n.value is not None]
            if rets and all(isinstance(r.value, ast.Call) and any(t.key in helpers for t in res.resolve_call(f, r.value)) for r in rets):
                helpers[f.key] = (f, helpers[next(t.key for t in res.resolve_call(f, rets[0].value) if t.key in helpers)][1])
                grew = True
    for f in p.all_funcs:
        if f.module.rel != M or f.key in helpers:
            continue
        from_cache = set()
        for n in ast.walk(f.node):
            if isinstance(n, ast.Assign) and isinstance(n.value, ast.Call) and any(t.key in helpers for t in res.resolve_call(f, n.value)):
                from_cache |= {t.id for t in n.targets if isinstance(t, ast.Name)}
        for n in ast.walk(f.node):
            if isinstance(n, ast.Call) and isinstance(n.func, ast.Attribute) and n.func.attr in ("visit", "generic_visit") and isinstance(n.func.value, ast.Call) \
                    and (dotted(n.func.value.func) or "").split(".")[-1] in rewriters and n.args:
                a = n.args[0]
                direct = isinstance(a, ast.Call) and any(t.key in helpers for t in res.resolve_call(f, a))
                if direct or (isinstance(a, ast.Name) and a.id in from_cache):
                    hk = next(iter(helpers.values()))
                    out.append((f, n, hk[0], hk[1], (dotted(n.func.value.func) or "").split(".")[-1]))
    return out


def _safe_function_names(p, mito):
    out = []
    for e in table_entries(p, mito, "SAFE_FUNCTIONS"):
        if isinstance(e.key, str) and e.kind in ("ext", "lambda"):
            # callables only (constants such as pi are not called)
            if e.dotted in ("math.pi", "math.e", "math.tau", "math.inf", "math.nan"):
                continue
            out.append(e.key)
    return out



def _derivation(m, e, params, seen=None):
    """None if e derives from a parameter by identity / .strip() only; else a description of the rewriting"""
    seen = set() if seen is None else seen
    if isinstance(e, ast.Attribute) and isinstance(e.value, ast.Name):
        # a field of a value object built in this function: `req = _Request(expression=expression, …)` … `req.expression`
        defs = [n for n in walk_no_nested(m.node) if isinstance(n, ast.Assign) and any(isinstance(t, ast.Name) and t.id == e.value.id for t in n.targets)]
        cands, opaque = [], False
        for d in defs:
            c = d.value
            if not isinstance(c, ast.Call):
                opaque = True
                continue
            kw = [k.value for k in c.keywords if k.arg == e.attr]
            is_replace = isinstance(c.func, ast.Attribute) and c.func.attr in ("_replace",) and isinstance(c.func.value, ast.Name) and c.func.value.id == e.value.id
            is_dc_replace = (dotted(c.func) or "").split(".")[-1] == "replace" and c.args and isinstance(c.args[0], ast.Name) and c.args[0].id == e.value.id
            if kw:
                cands.extend(kw)
            elif is_replace or is_dc_replace:
                continue            # the field is carried over unchanged
            else:
                opaque = True
        if defs and not opaque and cands:
            for v in cands:
                w = _derivation(m, v, params, seen)
                if w:
                    return w
            return None
        if e.value.id in params:
            # a field of a value object received as a parameter: judged at the construction site by the caller's check
            return None
    if isinstance(e, ast.Name):
        defs = [n for n in walk_no_nested(m.node) if isinstance(n, ast.Assign) and any(isinstance(t, ast.Name) and t.id == e.id for t in n.targets)]
        todo = [d for d in defs if id(d) not in seen]
        if not defs:
            return None if e.id in params else f"`{e.id}` is not the input"
        for d in todo:
            seen.add(id(d))
            w = _derivation(m, d.value, params, seen)
            if w:
                return w
        if not todo and e.id not in params and not defs:
            return f"`{e.id}` is not the input"
        return None
    if isinstance(e, ast.Call) and isinstance(e.func, ast.Attribute) and e.func.attr in ("strip", "lstrip", "rstrip") and not e.args:
        return _derivation(m, e.func.value, params, seen)
    if isinstance(e, ast.Call) and (dotted(e.func) or "") in ("str", "str.__str__", "str.strip") and len(e.args) == 1 and not e.keywords:
        return _derivation(m, e.args[0], params, seen)        # the same text as a plain str (normalising a str subclass)
    if isinstance(e, ast.Call) and isinstance(e.func, ast.Attribute):
        return f".{e.func.attr}(…)"
    return f"`{short(e, 40)}`"


def _is_logic_pathway(m):
    return "krebs" in m.name or "logic" in m.name
