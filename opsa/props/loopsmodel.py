"""Shared abstract-interpretation harness for CoherentFeedForwardLoop (C07, C08).

The loop's source is interpreted by fdai with its two agents replaced by
stubs that return an ActionProtein of a chosen verdict class (or raise):
the agents are the adversary of the statement ("all pairs of agent verdict
types"), everything else is the repo's own code."""
from __future__ import annotations

import ast

from ..fdai import Interp, Obj, PyRaise, Unknown, ExcVal, explore, freeze, Imprecise
from ..loader import AnchorError, src, walk_no_nested

LOOPS = "operon_ai/topology/loops.py"
SPEC_ALPHABET = ["EXECUTE", "PERMIT", "BLOCK", "FAILURE", "DEFER", "UNKNOWN"]
OTHER = "⟂OTHER"
EXC = "⟂EXCEPTION"


def alphabet(p):
    """statement's verdict alphabet ∪ every string constant the loop compares an
    action_type with ∪ OTHER (a string equal to none of them)"""
    loop = p.cls("CoherentFeedForwardLoop", LOOPS)
    found = set()
    for m in loop.methods.values():
        for n in ast.walk(m.node):
            if isinstance(n, ast.Compare) and "action_type" in src(n):
                for x in ast.walk(n):
                    if isinstance(x, ast.Constant) and isinstance(x.value, str):
                        found.add(x.value)
    extra = sorted(found - set(SPEC_ALPHABET))
    return SPEC_ALPHABET + extra + [OTHER], extra


def gates(p):
    g = p.cls("GateLogic", LOOPS)
    return [n for n, _ in g.enum_members()]


class Harness:
    def __init__(self, p):
        self.p = p
        self.loop = p.cls("CoherentFeedForwardLoop", LOOPS)
        self.gate = p.cls("GateLogic", LOOPS)
        self.cstate = p.cls("CircuitState", LOOPS)
        self.ap = p.cls("ActionProtein", "operon_ai/core/types.py")
        for m in ("run", "_apply_gate_logic", "_check_circuit", "_record_failure", "_record_success", "reset_circuit_breaker"):
            if p.find_method(self.loop, m) is None:
                raise AnchorError(f"CoherentFeedForwardLoop.{m} not found")

    def build(self, o, gate, breaker, cache, state="CLOSED", verdicts=("EXECUTE", "PERMIT"), prompt=None, silent=True, interp_cls=None):
        """returns (interp, loop object).  verdicts: (executor, assessor) — each a verdict string or EXC"""
        p = self.p
        it = (interp_cls or Interp)(p, o)
        calls = []

        def bio_init(interp, args, kwargs):
            selfo = args[0]
            selfo.fields["name"] = args[1] if len(args) > 1 else kwargs.get("name")
            selfo.fields["role"] = kwargs.get("role", args[2] if len(args) > 2 else None)
            selfo.fields["atp"] = kwargs.get("atp_store", args[3] if len(args) > 3 else None)
            return None

        def bio_express(interp, args, kwargs):
            selfo = args[0]
            role = selfo.fields.get("role")
            interp.event("express", role)
            v = verdicts[0] if role == "Executor" else verdicts[1]
            if v == EXC:
                raise PyRaise(ExcVal("RuntimeError", ("agent crashed",)))
            return interp.instantiate(self.ap, [v, Unknown(f"payload_{role}"), Unknown(f"confidence_{role}")], {})

        it.stubs["BioAgent.__init__"] = bio_init
        it.stubs["BioAgent.express"] = bio_express
        it.trace_calls = {"CoherentFeedForwardLoop._record_failure", "CoherentFeedForwardLoop._record_success",
                          "CoherentFeedForwardLoop._check_cache", "CoherentFeedForwardLoop._check_circuit"}
        budget = Obj(None, {}, tag="budget")
        obj = it.instantiate(self.loop, [], dict(
            budget=budget, gate_logic=it.enum_member(self.gate, gate) if isinstance(gate, str) else gate,
            enable_circuit_breaker=breaker, failure_threshold=Unknown("failure_threshold"),
            recovery_timeout_seconds=Unknown("recovery_timeout_seconds"), enable_cache=cache,
            cache_ttl_seconds=Unknown("cache_ttl_seconds"), silent=silent, on_block=None, on_permit=None))
        obj.fields["_circuit_state"] = it.enum_member(self.cstate, state)
        for f in ("_failure_count", "_success_count", "_last_failure", "_trips_count"):
            obj.fields[f] = Unknown(f)
        it.events.clear()
        it.decisions.clear()
        it.watch_fields = {("CoherentFeedForwardLoop", "_circuit_state"), ("CoherentFeedForwardLoop", "_failure_count"),
                           ("CoherentFeedForwardLoop", "_last_failure"), ("CoherentFeedForwardLoop", "_trips_count")}
        return it, obj

    def run_once(self, o, gate, breaker, cache, state, verdicts, times=1):
        it, obj = self.build(o, gate, breaker, cache, state, verdicts)
        runm = self.p.find_method(self.loop, "run")
        prompt = Unknown("user_prompt")
        results = []
        for _ in range(times):
            mark = len(it.events)
            try:
                r = it.call_fi(runm, [obj, prompt], {})
                results.append(dict(kind="return", obj=r, fields=dict(r.fields) if isinstance(r, Obj) else None, events=it.events[mark:], snap=freeze(r)))
            except PyRaise as e:
                results.append(dict(kind="raise", exc=repr(e.exc), events=it.events[mark:]))
        return dict(results=results, final_state=obj.fields["_circuit_state"], decisions=list(it.decisions), loop=obj, assessor_name=_name(obj, "assessor"))


def _name(obj, who):
    a = obj.fields.get(who)
    return a.fields.get("name") if isinstance(a, Obj) else None


def sname(v):
    return getattr(v, "name", None) or repr(v)
