"""Shared abstract-interpretation harness for CoherentFeedForwardLoop (C07, C08).

The loop's source is interpreted by fdai with its two agents replaced by
stubs that return an ActionProtein of a chosen verdict class (or raise):
the agents are the adversary of the statement ("all pairs of agent verdict
types"), everything else is the repo's own code."""
from __future__ import annotations

import ast

from ..fdai import Interp, Obj, PyRaise, Unknown, ExcVal, explore, freeze, Imprecise, SkipPath
from ..loader import AnchorError, is_self_attr, src, walk_no_nested
from ..resolve import Resolver
from ..rules import dict_key_field

LOOPS = "operon_ai/topology/loops.py"
SPEC_ALPHABET = ["EXECUTE", "PERMIT", "BLOCK", "FAILURE", "DEFER", "UNKNOWN"]
OTHER = "⟂OTHER"
EXC = "⟂EXCEPTION"


NEAR_MISSES = ["", "PERM", "EXEC", "PERMITTED"]


def alphabet(p):
    """statement's verdict alphabet ∪ every string constant the loop compares an
    action_type with ∪ OTHER (a string equal to none of them)"""
    found = set()
    # package-wide: the loop may judge a verdict through a helper of the protein class (is_success(), is_blocked(), …)
    for m in p.all_funcs:
        for n in ast.walk(m.node):
            if isinstance(n, ast.Compare) and "action_type" in src(n):
                for x in ast.walk(n):
                    if isinstance(x, ast.Constant) and isinstance(x.value, str):
                        found.add(x.value)
    extra = sorted(found - set(SPEC_ALPHABET))
    # near misses of the approving verdicts: unknown verdicts all the same ("any unknown verdict … yields blocked"), but
    # the ones a sloppy membership test lets through — the empty string and a proper prefix (substring test against a
    # string instead of a tuple), a longer word (startswith / `"PERMIT" in verdict`)
    near = [x for x in NEAR_MISSES if x not in SPEC_ALPHABET and x not in extra]
    return SPEC_ALPHABET + extra + [OTHER] + near, extra


def gates(p):
    g = p.cls("GateLogic", LOOPS)
    return [n for n, _ in g.enum_members()]


class LoopNames:
    """Private fields and methods of the loop, identified by role instead of by name:
    fields through the public accessor that exposes them (get_circuit_breaker_stats), methods through what they do
    (who moves the breaker to HALF_OPEN, who counts a failure, who closes it again) and where they sit below run()."""

    def __init__(self, p, loop, cstate):
        self.p, self.loop = p, loop
        g = lambda k: dict_key_field(p, loop, "get_circuit_breaker_stats", k)
        self.state, self.count, self.successes, self.last_failure, self.trips = g("state"), g("failure_count"), g("success_count"), g("last_failure"), g("trips_count")
        for nm, v in (("state", self.state), ("failure_count", self.count), ("last_failure", self.last_failure), ("trips_count", self.trips)):
            if v is None:
                raise AnchorError(f"CoherentFeedForwardLoop: the field behind get_circuit_breaker_stats().{nm} could not be identified")
        res = self.res = Resolver(p)
        run = p.find_method(loop, "run")
        if run is None:
            raise AnchorError("CoherentFeedForwardLoop.run not found")
        below = [f for f in res.reachable_from(run) if f.cls is loop and f.key != run.key]
        reach = {f.key: {x.key for x in res.reachable_from(f)} for f in below}

        # roles by *behaviour*: every zero-argument method below run() (that does not reach the agents) is interpreted from
        # each breaker state with the counters unknown, and classified by what it can write — however the writes are
        # spelled (literal assignments, a transition table applied by a helper, a shared _trip routine)
        calls_agents = {f.key for f in below if any(isinstance(n, ast.Call) and isinstance(n.func, ast.Attribute) and n.func.attr == "express" for n in ast.walk(f.node))}
        zero_arg = [f for f in below if [a for a in f.params() if a != "self"] == [] and not (reach[f.key] & calls_agents) and f.key not in calls_agents
                    and not any(isinstance(d, ast.Name) and d.id in ("property", "staticmethod", "classmethod") for d in f.node.decorator_list)]
        behaviour = {}
        for f in zero_arg:
            beh = dict(half_open=False, closes=False, counts=False, opens=False, bool_ret=True)
            for start in ("CLOSED", "OPEN", "HALF_OPEN"):
                def go(o, _f=f, _start=start):
                    it = Interp(p, o)
                    it.stubs["BioAgent.__init__"] = lambda interp, args, kwargs: None
                    try:
                        obj = it.instantiate(loop, [], dict(budget=Obj(None, {}, tag="budget"), enable_circuit_breaker=True, failure_threshold=Unknown("failure_threshold", kind="int"),
                                                            recovery_timeout_seconds=Unknown("recovery_timeout_seconds", kind="real"), silent=True, on_block=None, on_permit=None))
                    except PyRaise as e_:
                        raise SkipPath(f"the constructor rejects this configuration: {e_.exc!r}")
                    obj.fields[self.state] = it.enum_member(cstate, _start)
                    for fld in (self.count, self.successes, self.last_failure, self.trips):
                        if fld is not None:
                            obj.fields[fld] = Unknown(fld)
                    for k_, v_ in list(obj.fields.items()):
                        if v_ is None and k_.startswith("_"):
                            obj.fields[k_] = Unknown(k_)          # any timestamp the breaker keeps
                    it.events.clear()
                    it.watch_fields = {("CoherentFeedForwardLoop", self.state), ("CoherentFeedForwardLoop", self.count)}
                    try:
                        r = it.call_fi(_f, [obj], {})
                    except PyRaise:
                        r = "raise"
                    return (r, [e for e in it.events if e[0] == "write"])
                try:
                    paths = explore(go, max_paths=300)
                except Imprecise:
                    paths = []
                for _, (r, writes) in paths:
                    if not isinstance(r, bool):
                        beh["bool_ret"] = False
                    for w in writes:
                        if w[2] == self.state:
                            nm_ = getattr(w[4], "name", None)
                            if nm_ == "HALF_OPEN":
                                beh["half_open"] = True
                            if nm_ == "CLOSED" and getattr(w[3], "name", None) != "CLOSED":
                                beh["closes"] = True
                            if nm_ == "OPEN":
                                beh["opens"] = True
                        if w[2] == self.count and "Add 1" in repr(w[4]):
                            beh["counts"] = True
            behaviour[f.key] = beh
        role_of = {"admit": lambda b_: b_["half_open"] and b_["bool_ret"] and not b_["counts"],
                   "failure": lambda b_: b_["counts"],
                   "success": lambda b_: b_["closes"] and not b_["counts"] and not b_["half_open"]}
        self.roles = {}
        for role, pred in role_of.items():
            cands = [f for f in zero_arg if pred(behaviour[f.key])]
            if not cands:
                raise AnchorError(f"CoherentFeedForwardLoop: no zero-argument method below run() behaves as the breaker's '{role}' operation (state field self.{self.state}, counter self.{self.count})")
            outer = [f for f in cands if not any(f.key in reach[g.key] for g in cands if g.key != f.key)]
            if len(outer) != 1:
                raise AnchorError(f"CoherentFeedForwardLoop: breaker role '{role}' is played by {[f.qual for f in outer]} (one expected)")
            self.roles[role] = outer[0]
        self.admit, self.rec_failure, self.rec_success = self.roles["admit"], self.roles["failure"], self.roles["success"]
        self.reset = p.find_method(loop, "reset_circuit_breaker")
        if self.reset is None:
            raise AnchorError("CoherentFeedForwardLoop.reset_circuit_breaker (public) not found")
        self.run = run
        # cache lookup: the method below run() that itself tests an entry's age against the public `cache_ttl`
        cc = [f for f in below if any(isinstance(n, ast.Compare) and any(is_self_attr(x, "cache_ttl") for x in ast.walk(n)) for n in walk_no_nested(f.node))]
        self.cache_check = cc[0] if len(cc) == 1 else None
        # every method that belongs to the breaker (may write its fields)
        self.breaker_methods = {"__init__", self.reset.name}
        init = p.find_method(loop, "__init__")
        if init is not None:
            # construction helpers: reachable from __init__ and from nowhere else
            others = {g.key for f in loop.methods.values() if f.name != "__init__" for g in res.reachable_from(f) if g.key != f.key}
            self.breaker_methods |= {g.name for g in res.reachable_from(init) if g.cls is loop and g.key not in others}
        for f in (self.admit, self.rec_failure, self.rec_success):
            self.breaker_methods |= {x.name for x in res.reachable_from(f) if x.cls is loop}

    def describe(self):
        return dict(state=self.state, failure_count=self.count, last_failure=self.last_failure, trips=self.trips, admission=self.admit.qual,
                    failure_recorder=self.rec_failure.qual, success_recorder=self.rec_success.qual, cache_lookup=self.cache_check.qual if self.cache_check else None)


def _returns_bool(f):
    ann = f.node.returns
    if ann is not None and src(ann) == "bool":
        return True
    rets = [n.value for n in walk_no_nested(f.node) if isinstance(n, ast.Return)]
    return bool(rets) and all(isinstance(v, ast.Constant) and isinstance(v.value, bool) or isinstance(v, (ast.Compare, ast.BoolOp)) or (isinstance(v, ast.UnaryOp) and isinstance(v.op, ast.Not)) for v in rets)


class Harness:
    def __init__(self, p):
        self.p = p
        self.loop = p.cls("CoherentFeedForwardLoop", LOOPS)
        self.gate = p.cls("GateLogic", LOOPS)
        self.cstate = p.cls("CircuitState", LOOPS)
        self.ap = p.cls("ActionProtein", "operon_ai/core/types.py")
        self.names = N = LoopNames(p, self.loop, self.cstate)
        self.CALL = {k: ("call", f.qual) for k, f in (("admit", N.admit), ("failure", N.rec_failure), ("success", N.rec_success))}
        self.CALL["cache"] = ("call", N.cache_check.qual) if N.cache_check else None

    def build(self, o, gate, breaker, cache, state="CLOSED", verdicts=("EXECUTE", "PERMIT"), prompt=None, silent=True, interp_cls=None):
        """returns (interp, loop object).  verdicts: (executor, assessor) — each a verdict string or EXC"""
        p = self.p
        it = (interp_cls or Interp)(p, o)
        calls = []

        def bio_init(interp, args, kwargs):
            selfo = args[0]
            selfo.fields["name"] = args[1] if len(args) > 1 else kwargs.get("name")
            selfo.fields["role"] = kwargs.get("role", args[2] if len(args) > 2 else None)
            selfo.fields["atp"] = kwargs.get("atp_store", args[3] if len(args) > 3 else None)
            return None

        def bio_express(interp, args, kwargs):
            selfo = args[0]
            role = selfo.fields.get("role")
            interp.event("express", role)
            cur = it._verdicts["v"]
            v = cur[0] if role == "Executor" else cur[1]
            if v == EXC:
                raise PyRaise(ExcVal("RuntimeError", ("agent crashed",)))
            return interp.instantiate(self.ap, [v, Unknown(f"payload_{role}"), Unknown(f"confidence_{role}")], {})

        it._verdicts = {"v": verdicts}      # the adversary's answers for the current request (can be changed between runs)
        it.stubs["BioAgent.__init__"] = bio_init
        it.stubs["BioAgent.express"] = bio_express
        N = self.names
        it.trace_calls = {f.qual for f in (N.admit, N.rec_failure, N.rec_success, N.cache_check) if f is not None}
        budget = Obj(None, {}, tag="budget")
        try:
            obj = self._construct(it, budget, gate, breaker, cache, silent)
        except PyRaise:
            raise SkipPath()          # the constructor rejects this configuration: not a loop to study
        return self._finish_build(it, obj, state)

    def _construct(self, it, budget, gate, breaker, cache, silent):
        obj = it.instantiate(self.loop, [], dict(
            budget=budget, gate_logic=it.enum_member(self.gate, gate) if isinstance(gate, str) else gate,
            enable_circuit_breaker=breaker, failure_threshold=Unknown("failure_threshold", kind="int"),
            recovery_timeout_seconds=Unknown("recovery_timeout_seconds", kind="real"), enable_cache=cache,
            cache_ttl_seconds=Unknown("cache_ttl_seconds", kind="real"), silent=silent, on_block=None, on_permit=None))
        return obj

    def _finish_build(self, it, obj, state):
        N = self.names
        # the configuration as the loop will read it: whatever the constructor did with the arguments (validation,
        # normalisation, clamping), the studied loop has an arbitrary valid threshold / timeouts
        for fld in list(obj.fields):
            for stem, kind in (("failure_threshold", "int"), ("recovery_timeout", "real"), ("cache_ttl", "real")):
                if stem in fld and not callable(obj.fields[fld]):
                    obj.fields[fld] = Unknown(stem + ("_seconds" if stem != "failure_threshold" else ""), kind=kind)
        obj.fields[N.state] = it.enum_member(self.cstate, state)
        for f in (N.count, N.successes, N.last_failure, N.trips):
            if f is not None:
                obj.fields[f] = Unknown(f)
        if N.last_failure is not None and state != "CLOSED":
            # state invariant (C08-R1 checks that whoever opens the breaker stamps the time): an OPEN / HALF_OPEN breaker has
            # a recorded failure time — arbitrary, but never None
            obj.fields[N.last_failure] = Unknown(N.last_failure, kind="datetime")
        it.events.clear()
        it.decisions.clear()
        it.watch_fields = {("CoherentFeedForwardLoop", f) for f in (N.state, N.count, N.last_failure, N.trips)}
        return it, obj

    def run_once(self, o, gate, breaker, cache, state, verdicts, times=1, verdict_seq=None):
        """verdict_seq: one (executor, assessor) pair per run, for histories in which the agents change their minds"""
        it, obj = self.build(o, gate, breaker, cache, state, verdicts)
        runm = self.p.find_method(self.loop, "run")
        prompt = Unknown("user_prompt", kind="str")
        results = []
        for i_ in range(len(verdict_seq) if verdict_seq else times):
            if verdict_seq:
                it._verdicts["v"] = verdict_seq[i_]
            mark = len(it.events)
            try:
                r = it.call_fi(runm, [obj, prompt], {})
                results.append(dict(kind="return", obj=r, fields=dict(r.fields) if isinstance(r, Obj) else None, events=it.events[mark:], snap=freeze(r)))
            except PyRaise as e:
                results.append(dict(kind="raise", exc=repr(e.exc), events=it.events[mark:]))
        return dict(results=results, final_state=obj.fields[self.names.state], decisions=list(it.decisions), loop=obj, assessor_name=_name(obj, "assessor"))


def _name(obj, who):
    a = obj.fields.get(who)
    return a.fields.get("name") if isinstance(a, Obj) else None


def sname(v):
    return getattr(v, "name", None) or repr(v)
