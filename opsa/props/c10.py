"""C10 — prompt-injection gates block every signature hit, stay blocked, and never crash."""
from __future__ import annotations

import ast
import re

try:                                   # CPython's regex parser (Python ≥ 3.11: re._parser, before: sre_parse)
    from re import _parser as sre_parse
except ImportError:                    # pragma: no cover
    import sre_parse

from ..fdai import Interp, Obj, PyRaise, Unknown, explore, Imprecise
from ..loader import AnchorError, dotted, is_self_attr, parent, short, src, walk_no_nested
from ..locks import held_at, class_locks, regions
from ..mayraise import Escapes
from ..resolve import Resolver
from ..rules import attr_writes, dict_key_field, cfg_of, guard_facts, package_attr_writes, resolved_src, where

MB = "operon_ai/organelles/membrane.py"
IN = "operon_ai/surveillance/innate.py"
FILES = [MB, IN]


def nm(v):
    return getattr(v, "name", None) or repr(v)


def _symv(v):
    from ..fdai import _sym
    return _sym(v)


def _shared_memos(p, led, res, rid, files, what, witness):
    led.rule(rid, "no memo that outlives the object is filled under a key that omits instance settings the memoised computation reads", 0)
    from ..rules import stale_shared_memos
    hits = stale_shared_memos(p, res, set(files))
    for fi, n, name, missing in hits:
        led.fail(rid, f"{fi.qual} ▸ `{short(n, 60)}`", where(fi, n),
                 f"`{name}` lives at module level (shared by every instance) and is filled under a key that does not cover {', '.join('self.' + a for a in missing[:4])}, which the computation reads: {what}",
                 witness=witness)
    if not hits:
        led.ok(rid, "module-level memos", files[0], "no module-level memo is filled by a method under a key that omits instance state", nontrivial=False)


def run(p, led, tier):
    res = Resolver(p)
    _shared_memos(p, led, res, "C10-R8", FILES, "a gate with other settings is answered with a verdict computed under these",
                  "a strict validator (max_depth=2) sees a deep payload first; a lenient one (max_depth=5) then reads the clipped depth 3 from the shared memo and admits what it must refuse")
    mem = p.cls("Membrane", MB)
    tsig = p.cls("ThreatSignature", MB)
    TL = p.cls("ThreatLevel", MB)
    inn = p.cls("InnateImmunity", IN)
    tlr = p.cls("TLRPattern", IN)
    levels = [n for n, _ in TL.enum_members()]
    lv = {n: v.value for n, v in TL.enum_members() if isinstance(v, ast.Constant)}
    led.explanation = (
        "R1/R2/R4: finite-domain abstract interpretation of Membrane.filter and InnateImmunity.check with the stores "
        "filled through the real registration API (add_signature / learn_threat / import_antibodies / constructor / "
        "add_pattern), every signature's match outcome Unknown (explored both ways) and levels/thresholds enumerated: "
        "allowed ⇔ max matched level < threshold (innate: also no structural error), reported level = max, the audit "
        "trail grows by exactly the returned record on every path, a blocked content hash is remembered and refuses "
        "the same content after the rules are relaxed. R3: the rate window's test-and-append is one critical section "
        "with >= and append only on the admitting edge. R5: may-raise analysis (stdlib calls on hostile strings, "
        "exception classes matched against handlers) of both gates, both matchers and the shipped validators. "
        "R6: shipped matchers compile with IGNORECASE, search (not match), lower-case both operands of the substring "
        "arm, and no shipped regex is anchored or uses look-behind (parsed with the interpreter's regex parser).")
    led.exhaustive = True
    led.not_decided = ["embedding/case stability of user-supplied regexes", "time on 100k-character inputs", "\\b-anchored shipped patterns glued to word characters"]
    led.assumptions = ["A3 user-supplied validators / callbacks may raise (outside 'shipped')", "hash collisions between contents are ignored"]
    led.rule("C10-R1", "allowed ⇔ no matched signature at/above the threshold (and no structural error); reported level is the maximum over matches; every store written by a registration API is scanned", 64)
    led.rule("C10-R2", "a blocked input's hash is remembered, only ever added, and refuses the same content after rules are relaxed", 3)
    led.rule("C10-R3", "rate window: test-and-append is one critical section, >= against the limit, append only when admitting", 3)
    led.rule("C10-R4", "every decision (rate-limited, replayed, scanned) appends exactly its record to the audit trail", 3)
    led.rule("C10-R5", "no exception escapes filter / check / the matchers / the shipped validators on hostile input", 6)
    led.rule("C10-R6", "shipped matchers are case-insensitive and unanchored (search, IGNORECASE, lower() on both operands, no ^ $ \\A \\Z or look-behind in shipped regexes)", 6)
    filt = p.find_method(mem, "filter")
    chk = p.find_method(inn, "check")
    if filt is None or chk is None:
        raise AnchorError("Membrane.filter / InnateImmunity.check not found")
    sigcls = p.cls("Signal", "operon_ai/core/types.py")
    # private fields, identified through the public statistics / accessors that expose them
    AUDIT = dict_key_field(p, mem, "get_audit_log", None) if False else None
    ga = p.find_method(mem, "get_audit_log")
    if ga is not None:
        for n in walk_no_nested(ga.node):
            if isinstance(n, ast.Return) and n.value is not None:
                for x in ast.walk(n.value):
                    if is_self_attr(x):
                        AUDIT = x.attr
    BLOCKED = dict_key_field(p, mem, "get_statistics", "blocked_hashes")
    LEARNED = dict_key_field(p, mem, "get_statistics", "learned_patterns")
    for nm_, v_ in (("get_audit_log()", AUDIT), ("get_statistics()['blocked_hashes']", BLOCKED), ("get_statistics()['learned_patterns']", LEARNED)):
        if v_ is None:
            raise AnchorError(f"Membrane: the field behind {nm_} could not be identified")
    led.extra["fields"] = dict(audit_log=AUDIT, blocked_hashes=BLOCKED, learned_patterns=LEARNED)

    # ---------------- R1/R4 Membrane
    def build(o, T, L1, L2, L3, rate=None):
        it = Interp(p, o)
        scanned = []

        def _matches(interp, args, kwargs):
            scanned.append(_symv(args[1]) if len(args) > 1 else "?")
            return Unknown(f"match({args[0].fields.get('pattern')})")
        it.stubs["ThreatSignature.matches"] = _matches
        it.scanned_text = scanned
        it.stubs["ThreatSignature.__post_init__"] = lambda interp, args, kwargs: None
        m = it.instantiate(mem, [], dict(threshold=it.enum_member(TL, T), rate_limit=rate, silent=True, on_threat=None, enable_adaptive=True))
        m.fields["signatures"] = []          # drop the built-ins: the scan loop treats them like any other entry
        s1 = it.instantiate(tsig, ["p1", it.enum_member(TL, L1), "custom"], {})
        s3 = it.instantiate(tsig, ["p3", it.enum_member(TL, L3), "imported"], {})
        it.call_fi(p.find_method(mem, "add_signature"), [m, s1], {})
        it.call_fi(p.find_method(mem, "learn_threat"), [m, "p2", it.enum_member(TL, L2), "learned"], {})
        it.call_fi(p.find_method(mem, "import_antibodies"), [m, [s3]], {})
        sig = it.instantiate(sigcls, [], dict(content=Unknown("content")))
        it.decisions.clear()
        it.events.clear()
        return it, m, sig

    def outcome(it, m, r, n_log_before):
        dec = {d[2]: d[3] for d in it.decisions}
        log = m.fields[AUDIT]
        return dict(scanned=sorted(set(getattr(it, "scanned_text", []))), allowed=r.fields["allowed"], level=nm(r.fields["threat_level"]), matched=[x.fields["pattern"] for x in r.fields["matched_signatures"]],
                    dec=dec, log_delta=len(log) - n_log_before, logged_same=(len(log) > n_log_before and log[-1] is r),
                    remembered=any(isinstance(h, Unknown) and "content" in h.sym for h in m.fields[BLOCKED]))
    cells = 0
    bad = []
    audit_bad = []
    for T in levels:
        for L1 in levels:
            for L2 in levels:
                for L3 in (levels[-1], levels[0]):
                    def go(o):
                        it, m, sig = build(o, T, L1, L2, L3)
                        n0 = len(m.fields[AUDIT])
                        try:
                            r = it.call_fi(filt, [m, sig], {})
                        except PyRaise as e:
                            return dict(raised=repr(e.exc))
                        return outcome(it, m, r, n0)
                    try:
                        paths = [r for _, r in explore(go, max_paths=200)]
                    except Imprecise as e:
                        raise AnchorError(f"Membrane.filter could not be interpreted: {e}")
                    cells += 1
                    for r in paths:
                        if "raised" in r:
                            bad.append(f"T={T} levels=({L1},{L2},{L3}): raised {r['raised']}")
                            continue
                        hit = [(pn, L) for pn, L in (("p1", L1), ("p2", L2), ("p3", L3)) if r["dec"].get(f"match({pn})")]
                        unseen = [pn for pn in ("p1", "p2", "p3") if f"match({pn})" not in r["dec"]]
                        want_level = max([lv[L] for _, L in hit], default=min(lv.values()))
                        want_allowed = want_level < lv[T]
                        if unseen:
                            bad.append(f"signature store entry {unseen} is never consulted (T={T})")
                        if r["scanned"] and r["scanned"] != ["content"]:
                            bad.append(f"signatures are matched against {r['scanned']}, not the whole input text")
                        if r["allowed"] is not want_allowed:
                            bad.append(f"T={T} matched={[f'{a}:{b}' for a, b in hit]}: allowed={r['allowed']} but the statement requires {want_allowed}")
                        if lv.get(r["level"]) != want_level:
                            bad.append(f"T={T} matched={[f'{a}:{b}' for a, b in hit]}: reported level {r['level']}, maximum is {want_level}")
                        if sorted(r["matched"]) != sorted(a for a, _ in hit):
                            bad.append(f"matched_signatures {r['matched']} ≠ signatures that matched {[a for a, _ in hit]}")
                        if r["log_delta"] != 1 or not r["logged_same"]:
                            audit_bad.append(f"T={T}: audit trail grew by {r['log_delta']} (record identical: {r['logged_same']})")
                        if r["allowed"] is False and not r["remembered"]:
                            bad.append(f"T={T}: blocked content is not added to the replay memory")
    key = f"Membrane.filter ▸ decision table ({cells} threshold × level cells, 3 stores, all match outcomes)"
    if bad:
        led.fail("C10-R1", key, where(filt, filt.node), f"{len(bad)} discrepancy(ies), e.g. {bad[0]}", path=sorted(set(bad))[:10])
    else:
        led.ok("C10-R1", key, where(filt, filt.node), "allowed ⇔ max matched level < threshold; level = maximum; matched list exact; custom, learned and imported stores all scanned")
    led.floors["C10-R1"] = (2, "membrane + innate tables")
    key = "Membrane.filter ▸ audit on the scan path"
    if audit_bad:
        led.fail("C10-R4", key, where(filt, filt.node), audit_bad[0])
    else:
        led.ok("C10-R4", key, where(filt, filt.node), f"every path of {cells} cells appends exactly the returned record")

    # a listener on blocked inputs that raises (A3): by then the decision must already be in the audit trail and the content
    # in the replay memory — the block may not be forgotten because its notification failed
    lbad, ln = [], 0
    for T in levels[1:]:
        def go_l(o, _T=T):
            it, m, sig = build(o, _T, levels[-1], "SAFE" if "SAFE" in levels else levels[0], levels[0])
            for fld in [k for k in m.fields if k == "on_threat"]:
                m.fields[fld] = Unknown("on_threat")
            n0 = len(m.fields[AUDIT])
            try:
                it.call_fi(filt, [m, sig], {})
                return None
            except PyRaise as e:
                if "on_threat" not in repr(e.exc):
                    return dict(other=repr(e.exc))
                return dict(log_delta=len(m.fields[AUDIT]) - n0, remembered=any(isinstance(h_, Unknown) and "content" in h_.sym for h_ in m.fields[BLOCKED]))
        try:
            for _, r in explore(go_l, max_paths=200):
                if r is None:
                    continue
                ln += 1
                if "other" in r:
                    lbad.append(f"T={T}: raises {r['other']}")
                elif r["log_delta"] != 1:
                    lbad.append(f"T={T}: the on_threat listener raised and the audit trail grew by {r['log_delta']}: the block decision is not recorded")
                elif not r["remembered"]:
                    lbad.append(f"T={T}: the on_threat listener raised and the blocked content is not in the replay memory: it is admitted once the rules are relaxed")
        except Imprecise as e:
            raise AnchorError(f"Membrane.filter with a listener could not be interpreted: {e}")
    key = "Membrane.filter ▸ a raising on_threat listener does not lose the block (audit + replay memory first)"
    if lbad:
        led.fail("C10-R4", key, where(filt, filt.node), sorted(set(lbad))[0], path=sorted(set(lbad))[:4])
    elif ln:
        led.ok("C10-R4", key, where(filt, filt.node), f"{ln} path(s) on which the listener raises: the record is appended and the content remembered beforehand")

    # rate-limited and replay paths: audit + refusal
    def go_rate(o):
        it, m, sig = build(o, "DANGEROUS", "SAFE", "SAFE", "SAFE", rate=Unknown("rate_limit"))
        n0 = len(m.fields[AUDIT])
        r = it.call_fi(filt, [m, sig], {})
        out = outcome(it, m, r, n0)
        out["limited"] = any("rate_limit" in k and v is False for k, v in out["dec"].items()) or any("rate_limit" in d[2] and ">=" in d[0] and d[1] for d in it.decisions)
        return out
    paths = [r for _, r in explore(go_rate, max_paths=100)]
    lim = [r for r in paths if r["allowed"] is False and not r["matched"]]
    key = "Membrane.filter ▸ audit on the rate-limited path"
    if not lim:
        led.fail("C10-R4", key, where(filt, filt.node), "no path refuses on the rate limit")
    elif any(r["log_delta"] != 1 or not r["logged_same"] for r in paths):
        led.fail("C10-R4", key, where(filt, filt.node), "a rate-limit decision is returned without being appended to the audit trail")
    else:
        led.ok("C10-R4", key, where(filt, filt.node), f"{len(paths)} path(s), {len(lim)} refusing: each appends its record")

    def go_replay(o, relax):
        it, m, sig = build(o, "SUSPICIOUS", "CRITICAL", "SAFE", "SAFE")
        r1 = it.call_fi(filt, [m, sig], {})
        first_blocked = r1.fields["allowed"] is False
        if relax:
            it.call_fi(p.find_method(mem, "set_threshold"), [m, it.enum_member(TL, "CRITICAL")], {})
            it.call_fi(p.find_method(mem, "forget_threat"), [m, "p2"], {})
            m.fields["signatures"] = []
            m.fields[LEARNED].clear()
        n0 = len(m.fields[AUDIT])
        r2 = it.call_fi(filt, [m, sig], {})
        return dict(first_blocked=first_blocked, second_allowed=r2.fields["allowed"], log_delta=len(m.fields[AUDIT]) - n0, same=m.fields[AUDIT][-1] is r2)
    for relax in (False, True):
        paths = [r for _, r in explore(lambda o: go_replay(o, relax), max_paths=200)]
        rel = [r for r in paths if r["first_blocked"]]
        key = f"Membrane.filter ▸ same content after a block ▸ rules {'relaxed (threshold raised, patterns forgotten)' if relax else 'unchanged'}"
        badr = [r for r in rel if r["second_allowed"] is not False]
        if not rel:
            led.fail("C10-R2", key, where(filt, filt.node), "no path blocks the first request")
        elif badr:
            led.fail("C10-R2", key, where(filt, filt.node), f"{len(badr)}/{len(rel)} path(s): content blocked once is admitted the second time")
        else:
            led.ok("C10-R2", key, where(filt, filt.node), f"{len(rel)} path(s): refused again")
        if relax:
            key = "Membrane.filter ▸ audit on the replay path"
            if any(r["log_delta"] != 1 or not r["same"] for r in rel):
                led.fail("C10-R4", key, where(filt, filt.node), "a replay refusal is not appended to the audit trail")
            else:
                led.ok("C10-R4", key, where(filt, filt.node), "replay refusals append their record")
    # signatures are distinct when their texts are distinct — letter case included (`\\d` and `\\D` are different regexes):
    # learning / importing / forgetting one spelling must not replace or remove another
    def go_case(o):
        it, m, sig = build(o, "DANGEROUS", "SAFE", "SAFE", "SAFE")
        m.fields["signatures"] = []
        m.fields[LEARNED].clear()
        crit, susp = it.enum_member(TL, "CRITICAL"), it.enum_member(TL, levels[1])
        it.call_fi(p.find_method(mem, "learn_threat"), [m, "\\d+q", crit, "digits"], {})
        it.call_fi(p.find_method(mem, "learn_threat"), [m, "\\D+Q", susp, "non-digits"], {})
        other = it.instantiate(tsig, ["\\D+q", susp, "imported twin"], {})
        it.call_fi(p.find_method(mem, "import_antibodies"), [m, [other]], {})
        it.call_fi(p.find_method(mem, "forget_threat"), [m, "\\d+Q"], {})       # a spelling that was never learned
        it.decisions.clear()
        it.call_fi(filt, [m, sig], {})
        return {d[2] for d in it.decisions}
    try:
        seen_c = set().union(*[r for _, r in explore(go_case, max_paths=200)])
    except Imprecise as e:
        raise AnchorError(f"Membrane learn/import/forget history could not be interpreted: {e}")
    key = "Membrane ▸ signatures differing only in letter case are distinct (learn, import, forget)"
    missing = [pt for pt in ("\\d+q", "\\D+Q", "\\D+q") if f"match({pt})" not in seen_c]
    if missing:
        led.fail("C10-R1", key, where(filt, filt.node), f"after learning `\\d+q`, `\\D+Q`, importing `\\D+q` and forgetting the never-learned `\\d+Q`, the signature(s) {missing} are no longer consulted: an active signature was overwritten or removed by a different one",
                 witness="learn_threat(r'\\d+q', CRITICAL) then learn_threat(r'\\D+Q', SUSPICIOUS): '123q' is admitted")
    else:
        led.ok("C10-R1", key, where(filt, filt.node), "all three spellings are still scanned after the history")

    # a store changed through the API *after* an input was admitted must be consulted the next time the same input arrives
    for api0 in ("add_signature", "learn_threat", "import_antibodies", "set_threshold", "learn_threat ▸ pattern already known at a lower level", "import_antibodies ▸ pattern already known at a lower level"):
        api = api0.split(" ▸ ")[0]
        known_before = " ▸ " in api0

        def go_hist(o, api=api, known_before=known_before):
            it, m, sig = build(o, "DANGEROUS", "SAFE", "SAFE", "SAFE")
            m.fields["signatures"] = []
            m.fields[LEARNED].clear()
            if known_before:
                # the same pattern was learned earlier as merely SUSPICIOUS (below the blocking threshold): learning it again
                # as CRITICAL is a new, stricter rule — the reported level is the maximum over what matches
                it.call_fi(p.find_method(mem, "learn_threat"), [m, "late", it.enum_member(TL, "SUSPICIOUS"), "seen once"], {})
            r1 = it.call_fi(filt, [m, sig], {})
            if r1.fields["allowed"] is not True:
                return None
            new = it.instantiate(tsig, ["late", it.enum_member(TL, "CRITICAL"), "added later"], {})
            if api == "add_signature":
                it.call_fi(p.find_method(mem, api), [m, new], {})
            elif api == "learn_threat":
                it.call_fi(p.find_method(mem, api), [m, "late", it.enum_member(TL, "CRITICAL"), "added later"], {})
            elif api == "import_antibodies":
                it.call_fi(p.find_method(mem, api), [m, [new]], {})
            else:
                m.fields["signatures"] = [new]
                it.call_fi(p.find_method(mem, api), [m, it.enum_member(TL, "SAFE")], {})
            it.decisions.clear()
            r2 = it.call_fi(filt, [m, sig], {})
            dec = {d[2]: d[3] for d in it.decisions}
            return dict(consulted="match(late)" in dec, matched=dec.get("match(late)"), allowed=r2.fields["allowed"])
        paths = [r for _, r in explore(go_hist, max_paths=200) if r is not None]
        key = f"Membrane.filter ▸ same input again after {api0 if known_before else api + '()'}"
        badh = []
        for r in paths:
            if api != "set_threshold":
                if not r["consulted"]:
                    badh.append("the newly registered signature is not consulted for an input that was admitted before")
                elif r["matched"] and r["allowed"] is not False:
                    badh.append("the new CRITICAL signature matches but the input is still admitted")
            else:
                if r["allowed"] is not False:
                    badh.append("threshold lowered to SAFE but a previously admitted input is still admitted")
        if badh:
            led.fail("C10-R1", key, where(filt, filt.node), badh[0], witness="filter(x) admitted; import_antibodies([sig matching x]); filter(x) admitted again")
        else:
            led.ok("C10-R1", key, where(filt, filt.node), f"{len(paths)} path(s): the second decision reflects the changed rules")
    shrink = [(fi, k, n) for fi, k, n in package_attr_writes(p, BLOCKED, None) if not k.endswith(":add") and not (fi.cls is mem and fi.name == "__init__")]
    key = "package ▸ replay memory only grows"
    if shrink:
        led.fail("C10-R2", key, where(shrink[0][0], shrink[0][2]), f"`{short(shrink[0][2])}` removes/replaces remembered hashes: a blocked input can be admitted later")
    else:
        led.ok("C10-R2", key, MB, "the only writer of the blocked-hash set outside construction is `.add`")

    # ---------------- R1 innate
    def go_in(o, s1, s2, thr, with_err):
        it = Interp(p, o)
        scanned = []

        def _matches(interp, args, kwargs):
            scanned.append(_symv(args[1]) if len(args) > 1 else "?")
            return Unknown(f"match({args[0].fields.get('pattern')})")
        it.stubs["TLRPattern.matches"] = _matches
        it.stubs["TLRPattern.__post_init__"] = lambda interp, args, kwargs: None
        vcls = p.cls("LengthValidator", IN)
        it.stubs["LengthValidator.validate"] = lambda interp, args, kwargs: ((False, "too long") if with_err else (True, None))
        P1 = it.instantiate(tlr, ["q1", Unknown("cat"), "d1"], dict(severity=s1))
        P2 = it.instantiate(tlr, ["q2", Unknown("cat"), "d2"], dict(severity=s2))
        I = it.instantiate(inn, [], dict(patterns=[P1], validators=[it.instantiate(vcls, [], {})], severity_threshold=thr, silent=True, on_inflammation=None))
        I.fields["patterns"] = [P1]
        it.call_fi(p.find_method(inn, "add_pattern"), [I, P2], {})
        it.decisions.clear()
        try:
            r = it.call_fi(chk, [I, Unknown("content")], {})
        except PyRaise as e:
            return dict(raised=repr(e.exc))
        dec = {d[2]: d[3] for d in it.decisions}
        return dict(scanned=sorted(set(scanned)), allowed=r.fields["allowed"], dec=dec, matched=[x.fields["pattern"] for x in r.fields["matched_patterns"]], errs=len(r.fields["structural_errors"]),
                    infl=nm(r.fields["inflammation"].fields["level"]))
    badi, ncell = [], 0
    for s1 in (1, 3, 5):
        for s2 in (2, 4):
            for thr in (1, 3, 5):
                for with_err in (False, True):
                    ncell += 1
                    try:
                        paths = [r for _, r in explore(lambda o: go_in(o, s1, s2, thr, with_err), max_paths=300)]
                    except Imprecise as e:
                        raise AnchorError(f"InnateImmunity.check could not be interpreted: {e}")
                    for r in paths:
                        if "raised" in r:
                            badi.append(f"raised {r['raised']}")
                            continue
                        hit = [s for pn, s in (("q1", s1), ("q2", s2)) if r["dec"].get(f"match({pn})")]
                        unseen = [pn for pn in ("q1", "q2") if f"match({pn})" not in r["dec"]]
                        if unseen:
                            badi.append(f"pattern {unseen} (added through the API) is never consulted")
                        if r["scanned"] and r["scanned"] != ["content"]:
                            badi.append(f"patterns are matched against {r['scanned']}, not the whole input text: a signature beyond the scanned part is missed")
                        must_block = any(s >= thr for s in hit) or with_err
                        if must_block and r["allowed"] is not False:
                            badi.append(f"severities matched {hit}, threshold {thr}, structural error {with_err}: allowed={r['allowed']}")
                        if not must_block and r["allowed"] is False and r["infl"] != "ACUTE":
                            badi.append(f"severities matched {hit}, threshold {thr}, no structural error, inflammation {r['infl']}: blocked without cause")
                        if with_err and r["errs"] != 1:
                            badi.append("a validator rejection is not recorded in structural_errors")
    key = f"InnateImmunity.check ▸ decision table ({ncell} severity × threshold × validator cells, all match outcomes)"
    if badi:
        led.fail("C10-R1", key, where(chk, chk.node), f"{len(badi)} discrepancy(ies), e.g. {badi[0]}", path=sorted(set(badi))[:10])
    else:
        led.ok("C10-R1", key, where(chk, chk.node), "a matched pattern at/above the threshold or a validator rejection always blocks; nothing else does except ACUTE inflammation; API-added patterns are scanned")

    # ---------------- R3 rate window
    # anchor by role: the method below filter() that compares len(self.<window>) with self.rate_limit
    rl, WIN = None, None
    for f in res.reachable_from(filt):
        if f.cls is not mem:
            continue
        # local aliases of the limit (`limit = self.rate_limit  # read once`)
        lim_alias = {t.id for a_ in walk_no_nested(f.node) if isinstance(a_, ast.Assign) and is_self_attr(a_.value, "rate_limit") for t in a_.targets if isinstance(t, ast.Name)}
        for n in walk_no_nested(f.node):
            if isinstance(n, ast.Compare) and any(is_self_attr(x, "rate_limit") or (isinstance(x, ast.Name) and x.id in lim_alias) for x in ast.walk(n)):
                for x in ast.walk(n):
                    if isinstance(x, ast.Call) and isinstance(x.func, ast.Name) and x.func.id == "len" and x.args and is_self_attr(x.args[0]):
                        rl, WIN = f, x.args[0].attr
    if rl is None:
        raise AnchorError("Membrane: no method below filter() compares len(self.<window>) with self.rate_limit")
    led.extra["rate_window"] = dict(method=rl.qual, field=WIN)
    locks = class_locks(mem)
    # (a) exact admission rule, by abstract interpretation over window sizes × limits × which old entries are still inside the window
    probs, npaths = [], 0
    for limit in (1, 2, 3):
        for k in range(0, 5):
            def go_r(o, _limit=limit, _k=k):
                it = Interp(p, o)
                m = it.instantiate(mem, [], dict(threshold=it.enum_member(TL, levels[-1]), rate_limit=_limit, silent=True, on_threat=None, enable_adaptive=True))
                old = [Unknown(f"t{i}") for i in range(_k)]
                m.fields[WIN] = list(old)
                try:
                    r = it.call_fi(rl, [m], {})
                except PyRaise as e:
                    return dict(raised=repr(e.exc))
                w = m.fields[WIN]
                if not isinstance(w, list):
                    return dict(raised=f"window became {type(w).__name__}")
                kept = [x for x in w if any(x is y for y in old)]
                new_ = [x for x in w if not any(x is y for y in old)]
                return dict(ret=r, kept=len(kept), added=len(new_))
            try:
                paths = [r for _, r in explore(go_r, max_paths=400)]
            except Imprecise as e:
                raise AnchorError(f"{rl.qual} could not be interpreted: {e}")
            npaths += len(paths)
            for r in paths:
                if "raised" in r:
                    probs.append(f"limit={limit}, {k} earlier admission(s): raises {r['raised']}")
                    continue
                limited = r["ret"]
                if not isinstance(limited, bool):
                    probs.append(f"limit={limit}: verdict {limited!r} is not a boolean")
                    continue
                want_limited = r["kept"] >= limit
                if limited != want_limited:
                    probs.append(f"rate_limit={limit}, {r['kept']} admission(s) still inside the window: request is {'refused' if limited else 'admitted'}"
                                 + (" — more than rate_limit inputs pass per window" if not limited else " — fewer than rate_limit inputs pass"))
                if (not limited) and r["added"] != 1:
                    probs.append(f"an admitted request adds {r['added']} entries to the window (exactly one expected)")
                if limited and r["added"] != 0:
                    probs.append("a refused request is recorded in the window: refused requests consume the budget")
    key = f"{rl.qual} ▸ admits exactly while fewer than rate_limit admissions are inside the window"
    if probs:
        led.fail("C10-R3", key, where(rl, rl.node), sorted(set(probs))[0], path=sorted(set(probs))[:8], witness="rate_limit=2: a third request inside the window is admitted")
    else:
        led.ok("C10-R3", key, where(rl, rl.node), f"{npaths} path(s) over limits 1–3 × 0–4 earlier admissions × every subset still inside the window: refused ⇔ kept ≥ limit; admitted ⇒ one entry added; refused ⇒ none")
    key = f"{rl.qual} ▸ append only when admitting"
    if any("adds" in x or "recorded in the window" in x for x in probs):
        led.fail("C10-R3", key, where(rl, rl.node), [x for x in probs if "adds" in x or "recorded in the window" in x][0])
    else:
        led.ok("C10-R3", key, where(rl, rl.node), "the window grows by one exactly on admitting paths")
    # (b) one critical section: every access to the window in the check lies in one and the same region of the class's lock
    key = f"{rl.qual} ▸ one critical section"
    acc = [n for n in walk_no_nested(rl.node) if is_self_attr(n, WIN)]
    regs = regions(rl, locks)

    def region_of(n):
        q = n
        while q is not None and q is not rl.node:
            for rg, a_ in regs:
                if q is rg:
                    return rg
            q = parent(q)
        return None
    owners = {id(region_of(n)) for n in acc}
    out_of_lock = [n for n in acc if region_of(n) is None or not held_at(n, locks)]
    if acc and not out_of_lock and len(owners) == 1:
        led.ok("C10-R3", key, where(rl, acc[0]), f"all {len(acc)} accesses to self.{WIN} are inside one region of self.{regs[0][1]}")
    else:
        led.fail("C10-R3", key, where(rl, (out_of_lock or [rl.node])[0]), "the window is read or written outside a single lock region: concurrent requests can both pass the test")
    others = [(fi, k, n) for fi, k, n in package_attr_writes(p, WIN, None) if fi is not rl and not (fi.cls is mem and fi.name == "__init__")]
    # a private helper of the membrane that is entered only from call sites holding the window's lock (pruning shared by the
    # check and a read-only query) writes the window under that lock all the same; so does a write inside a region of it
    if others and regs:
        from ..locks import LockAnalysis
        la_ = LockAnalysis(p, res, mem)
        held_ = la_.held_on_entry(regs[0][1]) if regs[0][1] in la_.locks else set()
        others = [(fi, k, n) for fi, k, n in others if not (fi.cls is mem and (fi.key in held_ or regs[0][1] in held_at(n, locks)))]
    if others:
        led.fail("C10-R3", "package ▸ other writers of the rate window", where(others[0][0], others[0][2]), "the rate window is modified outside the locked check")

    # ---------------- R5 totality
    esc = Escapes(res)
    targets = [("Membrane.filter", filt), ("ThreatSignature.matches", p.find_method(tsig, "matches")), ("InnateImmunity.check", chk), ("TLRPattern.matches", p.find_method(tlr, "matches"))]
    for vn in ("JSONValidator", "LengthValidator", "CharacterSetValidator"):
        if p.has_cls(vn, IN):
            targets.append((f"{vn}.validate", p.find_method(p.cls(vn, IN), "validate")))
    for name, fi in targets:
        if fi is None:
            raise AnchorError(f"{name} not found")
        e = esc.of(fi)
        # user-supplied validator objects / callbacks are outside 'shipped': arbitrary-exception from them is assumption A3
        e_real = {x for x in e if x != "*"}
        star_from_user = "*" in e
        key = f"{name} ▸ never raises on hostile input"
        if e_real:
            led.fail("C10-R5", key, where(fi, fi.node), f"{sorted(e_real)} can escape to the caller", path=esc.paths.get(fi.key),
                     witness={"Membrane.filter": "filter(Signal(content='\\ud800')) raises UnicodeEncodeError (lone surrogate, strict encode)",
                              "JSONValidator.validate": "JSONValidator().validate('[' * 50000) raises RecursionError"}.get(name))
        else:
            led.ok("C10-R5", key, where(fi, fi.node), "with the may-raise table applied no exception class reaches the exceptional exit" + (" (user-supplied validators/callbacks excepted, A3)" if star_from_user else ""))

    # ---------------- R6 matchers
    for cls_, rel, table in ((tsig, MB, ("Membrane", "INNATE_SIGNATURES")), (tlr, IN, ("InnateImmunity", "DEFAULT_PATTERNS"))):
        m = p.find_method(cls_, "matches")
        post = p.find_method(cls_, "__post_init__")
        comp = [c for f in (post, m) if f is not None for c in walk_no_nested(f.node) if isinstance(c, ast.Call) and dotted(c.func) == "re.compile"]
        key = f"{cls_.name} ▸ regex compiled case-insensitively"
        if comp and all(any("IGNORECASE" in src(a) or src(a) in ("re.I",) for a in list(c.args[1:]) + [k.value for k in c.keywords]) for c in comp):
            led.ok("C10-R6", key, where(post or m, comp[0]), f"`{short(comp[0])}`")
        else:
            led.fail("C10-R6", key, where(m, m.node), "regex signatures are compiled without IGNORECASE: a case change evades them")
        calls = [c for c in walk_no_nested(m.node) if isinstance(c, ast.Call) and isinstance(c.func, ast.Attribute) and c.func.attr in ("search", "match", "fullmatch")]
        key = f"{cls_.name}.matches ▸ regex arm searches"
        if calls and all(c.func.attr == "search" for c in calls):
            led.ok("C10-R6", key, where(m, calls[0]), "uses .search: a hit embedded in surrounding text still matches")
        else:
            led.fail("C10-R6", key, where(m, m.node), "regex arm uses match/fullmatch: surrounding benign text evades the signature")
        ins = [n for n in walk_no_nested(m.node) if isinstance(n, ast.Compare) and isinstance(n.ops[0], ast.In)]
        key = f"{cls_.name}.matches ▸ substring arm lower-cases both operands"
        okk = ins and all(any(f in resolved_src(m, n.left) and f in resolved_src(m, n.comparators[0]) for f in (".lower()", ".casefold()")) for n in ins)
        if okk:
            led.ok("C10-R6", key, where(m, ins[0]), f"`{short(ins[0])}`")
        else:
            # the normalisation may sit behind a helper or a memo: decide by folding the matcher on literal witnesses
            # (constant propagation through the repo's own code; no symbolic part) — case changes on either side and
            # embedding in other text must still match, an unrelated text must not
            wit = [("Drop Table", "xx DROP TABLE yy", True), ("drop table", "Drop tAbLe", True), ("DROP", "please drop it", True), ("ignore previous", "IGNORE PREVIOUS instructions", True),
                   ("ß", "STRASSE", None), ("abc", "abd", False), ("abc", "", False)]
            bad_w = []
            for pat_, content_, want in wit:
                if want is None:
                    continue
                def go_w(o, _p=pat_, _c=content_):
                    it = Interp(p, o)
                    sg = it.instantiate(cls_, [_p] + ([it.enum_member(TL, levels[-1]), "w"] if cls_ is tsig else [Unknown("cat"), "w"]), {})
                    return it.call_fi(m, [sg, _c], {})
                try:
                    outs = {r for _, r in explore(go_w, max_paths=20)}
                except (Imprecise, PyRaise) as e_:
                    outs = {f"not decidable: {e_}"}
                if outs != {want}:
                    bad_w.append(f"pattern {pat_!r} on {content_!r}: {sorted(map(str, outs))}, expected {want}")
            if bad_w:
                led.fail("C10-R6", key, where(m, m.node), "substring arm compares without normalising the case of both operands: " + bad_w[0])
            else:
                led.ok("C10-R6", key, where(m, m.node), "folded on literal witnesses: case changes of pattern and content and embedding in other text still match")
        # shipped regexes
        owner = p.cls(table[0], rel)
        lst = owner.assigns.get(table[1])
        if not isinstance(lst, ast.List):
            raise AnchorError(f"{table[0]}.{table[1]} is not a list literal")
        nreg, badre = 0, []
        for e in lst.elts:
            if not isinstance(e, ast.Call):
                continue
            kws = {k.arg: k.value for k in e.keywords}
            is_re = kws.get("is_regex")
            if len(e.args) >= 4 and is_re is None:
                is_re = e.args[3]
            if isinstance(is_re, ast.Constant) and is_re.value is True and e.args and isinstance(e.args[0], ast.Constant):
                nreg += 1
                why = _anchored(e.args[0].value)
                if why:
                    badre.append(f"{e.args[0].value!r}: {why}")
        key = f"{table[0]}.{table[1]} ▸ shipped regexes unanchored ({nreg})"
        if badre:
            led.fail("C10-R6", key, f"{rel}:{lst.lineno}", f"{badre[0]} — the signature no longer matches when embedded in other text")
        else:
            led.ok("C10-R6", key, f"{rel}:{lst.lineno}", f"{nreg} regex(es) parsed: no ^ $ \\A \\Z anchors, no look-behind")
    _depth_table(p, led)


def _depth_table(p, led):
    """C10-R7: the shipped JSON structure validator rejects exactly the documents nested deeper than its max_depth —
    decided by interpreting validate() on every JSON shape of depth ≤ 4 and width ≤ 2 built from scalars, empty and
    non-empty arrays / objects (json.loads of a literal text is folded by the host parser)"""
    import json as _json
    from ..fdai import Interp, Obj, PyRaise, ExcVal, explore, Imprecise
    cands = [ci for lst in p.classes.values() for ci in lst if ci.module.rel == IN and "validate" in ci.methods and "__init__" in ci.methods
             and any(a.arg == "max_depth" for a in ci.methods["__init__"].node.args.args)]
    led.rule("C10-R7", "the JSON structure validator rejects a document exactly when its nesting (empty containers included) is deeper than max_depth", 0)
    if not cands:
        led.info("no shipped validator takes a max_depth: C10-R7 has no instance")
        return
    val = cands[0]
    vm = val.methods["validate"]

    def shapes(d):
        if d == 0:
            return [1]
        out = []
        for c in shapes(d - 1):
            out += [[c], {"k": c}, [1, c]]
        return out
    docs = [1, [], {}] + [x for d in range(1, 5) for x in shapes(d)] + [[[]], [[[]]], {"a": {}}, {"a": {"b": {}}}, [1, [2, [3, []]]], [[], 1], {"a": 1, "b": {"c": []}}, [[[[[]]]]], [[[[{}]]]]]

    def depth(x):
        if isinstance(x, dict):
            return 1 + max([depth(v) for v in x.values()] or [0])
        if isinstance(x, list):
            return 1 + max([depth(v) for v in x] or [0])
        return 0
    bad, n = [], 0
    for md in (0, 1, 2, 3):
        for doc in docs:
            text = _json.dumps(doc)

            def go(o, _md=md, _text=text):
                it = Interp(p, o)
                it.ext_stubs["json.loads"] = lambda interp, args, kwargs: _json.loads(args[0])
                v = it.instantiate(val, [], dict(max_depth=_md))
                try:
                    r = it.call_fi(vm, [v, _text], {})
                except PyRaise as e:
                    return ("raise", repr(e.exc))
                return ("ret", r[0] if isinstance(r, tuple) else r)
            try:
                outs = [r for _, r in explore(go, max_paths=50)]
            except Imprecise as e:
                led.undecided("C10-R7", f"{val.name}.validate ▸ depth table", where(vm, vm.node), f"not interpretable: {e}")
                return
            for kind, ok_ in outs:
                n += 1
                want = depth(doc) <= md
                if kind == "raise":
                    bad.append(f"max_depth={md}, document {text}: raises {ok_}")
                elif ok_ is not want:
                    bad.append(f"max_depth={md}, document {text} (nesting {depth(doc)}): {'accepted' if ok_ else 'rejected'}")
    key = f"{val.name}.validate ▸ accepted ⇔ nesting ≤ max_depth"
    if bad:
        led.fail("C10-R7", key, where(vm, vm.node), f"{len(bad)} of {n} cell(s), e.g. {bad[0]}", path=bad[:8], witness="InnateImmunity(validators=[JSONValidator(max_depth=10)]).check('[' * 40 + ']' * 40) is allowed")
    else:
        led.ok("C10-R7", key, where(vm, vm.node), f"{n} cells: {len(docs)} documents (depth ≤ 5, empty and non-empty arrays / objects) × max_depth 0–3")


def _anchored(pattern):
    try:
        tree = sre_parse.parse(pattern, re.IGNORECASE)
    except Exception as e:
        return f"does not compile ({e})"
    AT_BAD = {"AT_BEGINNING", "AT_BEGINNING_STRING", "AT_END", "AT_END_STRING", "AT_BEGINNING_LINE", "AT_END_LINE"}

    def walk(items):
        for op, av in items:
            name = str(op)
            if name == "AT" and str(av) in AT_BAD:
                return f"anchor {av}"
            if name in ("ASSERT", "ASSERT_NOT") and av[0] == -1:
                return "look-behind"
            if name in ("SUBPATTERN",):
                r = walk(av[3])
                if r:
                    return r
            elif name in ("BRANCH",):
                for alt in av[1]:
                    r = walk(alt)
                    if r:
                        return r
            elif name in ("MAX_REPEAT", "MIN_REPEAT", "POSSESSIVE_REPEAT"):
                r = walk(av[2])
                if r:
                    return r
            elif name in ("ASSERT", "ASSERT_NOT"):
                r = walk(av[1])
                if r:
                    return r
        return None
    return walk(tree)
