"""C18 — healing and tool loops stop within their budgets against any generator."""
from __future__ import annotations

import ast

from ..loader import AnchorError, dotted, is_self_attr, parent, short, src, walk_no_nested
from ..resolve import Resolver
from ..rules import cfg_of, guard_facts, in_cycle, mentions_name, where

FILES = ["operon_ai/healing/chaperone_loop.py", "operon_ai/healing/regenerative_swarm.py", "operon_ai/organelles/nucleus.py"]


# ---------------------------------------------------------------- affine forms over names
def affine(e):
    """{symbol: coeff, '': const} for expressions built from names/attributes, ints, +, - ; None if not affine"""
    if isinstance(e, ast.Constant) and isinstance(e.value, int) and not isinstance(e.value, bool):
        return {"": e.value}
    if isinstance(e, (ast.Name, ast.Attribute)):
        d = dotted(e)
        if d is None:
            return None
        return {d.replace("self.", ""): 1}
    if isinstance(e, ast.BinOp) and isinstance(e.op, (ast.Add, ast.Sub)):
        a, b = affine(e.left), affine(e.right)
        if a is None or b is None:
            return None
        out = dict(a)
        sgn = 1 if isinstance(e.op, ast.Add) else -1
        for k, v in b.items():
            out[k] = out.get(k, 0) + sgn * v
        return {k: v for k, v in out.items() if v != 0 or k == ""}
    if isinstance(e, ast.BinOp) and isinstance(e.op, ast.Mult):
        a, b = affine(e.left), affine(e.right)
        if a is not None and b is not None:
            if set(a) <= {""}:
                return {k: v * a.get("", 0) for k, v in b.items()}
            if set(b) <= {""}:
                return {k: v * b.get("", 0) for k, v in a.items()}
    return None


def aff_add(a, k):
    out = dict(a)
    out[""] = out.get("", 0) + k
    return out


def aff_le(a, b):
    """a <= b for all non-negative symbol values?  (coefficient-wise)"""
    keys = set(a) | set(b)
    return all(a.get(k, 0) <= b.get(k, 0) for k in keys)


def aff_str(a):
    parts = []
    for k, v in sorted(a.items()):
        if k == "":
            continue
        parts.append(f"{'' if v == 1 else str(v) + '*'}{k}")
    c = a.get("", 0)
    if c or not parts:
        parts.append(str(c))
    return " + ".join(parts)


# ---------------------------------------------------------------- loop bounds
def loop_bound(fi, loop, cfg, cls_methods=()):
    """(affine bound on the number of iterations, explanation) or (None, why)"""
    if isinstance(loop, ast.For):
        it = loop.iter
        if isinstance(it, ast.Call) and isinstance(it.func, ast.Name) and it.func.id == "range" and len(it.args) == 1:
            b = affine(it.args[0])
            if b is None:
                return None, f"range argument `{short(it.args[0])}` is not affine"
            return b, f"for … in range({short(it.args[0])}): range is evaluated once"
        return None, f"for-loop over `{short(it)}` has no static bound"
    # while
    t = loop.test
    if (isinstance(t, ast.Compare) and len(t.ops) == 1 and isinstance(t.ops[0], (ast.Lt, ast.LtE)) and isinstance(t.left, ast.Call)
            and isinstance(t.left.func, ast.Name) and t.left.func.id == "len" and t.left.args and isinstance(t.left.args[0], ast.Name)):
        return _history_bound(fi, loop, cfg, t)
    if not (isinstance(t, ast.Compare) and len(t.ops) == 1 and isinstance(t.left, ast.Name) and isinstance(t.ops[0], (ast.Lt, ast.LtE))):
        return None, f"while condition `{short(t)}` is not `counter < bound` / `counter <= bound`"
    c = t.left.id
    bound = affine(t.comparators[0])
    if bound is None:
        return None, f"bound `{short(t.comparators[0])}` is not affine"
    # initialisation: single assignment to c outside the loop, to a constant
    inits = [n for n in walk_no_nested(fi.node) if isinstance(n, ast.Assign) and any(isinstance(x, ast.Name) and x.id == c for x in n.targets) and not _inside(n, loop)]
    if len(inits) != 1 or not (isinstance(inits[0].value, ast.Constant) and isinstance(inits[0].value.value, int)):
        return None, f"counter `{c}` is not initialised exactly once to a constant before the loop"
    c0 = inits[0].value.value
    # writes in the loop: only `c += k` with k >= 1
    incs = []
    for n in ast.walk(loop):
        if isinstance(n, ast.AugAssign) and isinstance(n.target, ast.Name) and n.target.id == c:
            if isinstance(n.op, ast.Add) and isinstance(n.value, ast.Constant) and isinstance(n.value.value, int) and n.value.value >= 1:
                incs.append(n)
            else:
                return None, f"counter `{c}` is updated by `{short(n)}`"
        elif isinstance(n, ast.Assign) and any(isinstance(x, ast.Name) and x.id == c for x in n.targets):
            return None, f"counter `{c}` is reassigned inside the loop (`{short(n)}`)"
        elif isinstance(n, (ast.For,)) and any(isinstance(x, ast.Name) and x.id == c for x in ast.walk(n.target)):
            return None, f"counter `{c}` is rebound by an inner for"
    if not incs:
        return None, f"counter `{c}` is never incremented in the loop"
    head = cfg.node_of(t)
    inc_nodes = {cfg.node_of(n) for n in incs}
    seen = cfg.reach(start_edges=[(head, m, l) for m, l in head.succ if l == "T"], avoid=inc_nodes)
    if head in seen:
        return None, f"a path returns to the loop test without incrementing `{c}`: " + " → ".join(cfg.fmt_path(cfg.witness(seen, head))[-4:])
    # bound expression stable: its symbols not assigned in the function, attributes not stored by the class's methods called in the loop
    for sym in bound:
        if not sym:
            continue
        leaf = sym.split(".")[-1]
        for n in walk_no_nested(fi.node):
            if isinstance(n, (ast.Assign, ast.AugAssign)):
                tg = n.targets if isinstance(n, ast.Assign) else [n.target]
                for x in tg:
                    if (isinstance(x, ast.Name) and x.id == leaf) or (isinstance(x, ast.Attribute) and x.attr == leaf):
                        return None, f"bound symbol `{sym}` is assigned at line {n.lineno}"
        for m in cls_methods:
            for n in walk_no_nested(m.node):
                if isinstance(n, (ast.Assign, ast.AugAssign)):
                    tg = n.targets if isinstance(n, ast.Assign) else [n.target]
                    if any(is_self_attr(x, leaf) for x in tg) and m.name != "__init__" and m.name != "__post_init__":
                        return None, f"bound attribute `{sym}` is written by {m.qual}"
    k = bound
    iters = aff_add(k, -c0) if isinstance(t.ops[0], ast.Lt) else aff_add(k, 1 - c0)
    return iters, f"while {c} {'<' if isinstance(t.ops[0], ast.Lt) else '<='} {short(t.comparators[0])}: {c} starts at {c0}, +≥1 on every path back to the test, bound not written"


def _history_bound(fi, loop, cfg, t):
    """`while len(L) < / <= bound` with L a local list that only grows by one append on every path back to the test"""
    L = t.left.args[0].id
    bound = affine(t.comparators[0])
    if bound is None:
        return None, f"bound `{short(t.comparators[0])}` is not affine"
    inits = [n for n in walk_no_nested(fi.node) if isinstance(n, (ast.Assign, ast.AnnAssign)) and _targets_name(n, L) and not _inside(n, loop)]
    if len(inits) != 1 or not (isinstance(inits[0].value, ast.List) and not inits[0].value.elts):
        return None, f"history list `{L}` is not initialised exactly once to [] before the loop"
    appends = []
    for n in ast.walk(loop):
        if isinstance(n, ast.Call) and isinstance(n.func, ast.Attribute) and isinstance(n.func.value, ast.Name) and n.func.value.id == L:
            if n.func.attr == "append":
                appends.append(n)
            elif n.func.attr in ("pop", "remove", "clear", "extend", "insert", "sort", "reverse"):
                if n.func.attr in ("pop", "remove", "clear"):
                    return None, f"history list `{L}` shrinks inside the loop (`{short(n)}`)"
        if isinstance(n, (ast.Assign, ast.AugAssign)) and _targets_name(n, L) if not isinstance(n, ast.AugAssign) else (isinstance(n.target, ast.Name) and n.target.id == L):
            return None, f"history list `{L}` is rebound inside the loop"
    if not appends:
        return None, f"history list `{L}` never grows inside the loop"
    head = cfg.node_of(t)
    app_nodes = {cfg.node_of(n) for n in appends}
    seen = cfg.reach(start_edges=[(head, m, l) for m, l in head.succ if l == "T"], avoid=app_nodes)
    if head in seen:
        return None, f"a path returns to the loop test without appending to `{L}` (the loop variant does not advance): " + " → ".join(cfg.fmt_path(cfg.witness(seen, head))[-5:])
    iters = dict(bound) if isinstance(t.ops[0], ast.Lt) else aff_add(bound, 1)
    return iters, f"while len({L}) {'<' if isinstance(t.ops[0], ast.Lt) else '<='} {short(t.comparators[0])}: `{L}` starts empty and grows by ≥1 on every path back to the test"


def _inside(n, anc):
    q = parent(n)
    while q is not None:
        if q is anc:
            return True
        q = parent(q)
    return False


def _enclosing_loop(n, fn):
    q = parent(n)
    while q is not None and q is not fn:
        if isinstance(q, (ast.For, ast.While)):
            return q
        q = parent(q)
    return None


def calls_per_iteration(cfg, loop, call_nodes):
    """max number of the given call nodes on one iteration path: 1 if no call node can reach another (or itself) without passing the head"""
    head = cfg.node_of(loop.iter if isinstance(loop, ast.For) else loop.test)
    for a in call_nodes:
        seen = cfg.reach(start_edges=cfg.out_edges(a), cut=lambda x, y, l: y is head)
        for b in call_nodes:
            if b in seen:
                return 2, (a, b)
    return 1, None


def check_bounded_calls(led, rule, fi, cfg, call_pred, what, stated, cls_methods=(), extra_after=None):
    """every call matching call_pred inside fi must sit in exactly one loop with a static bound ≤ stated"""
    calls = [c for c in walk_no_nested(fi.node) if isinstance(c, ast.Call) and call_pred(c)]
    key = f"{fi.qual} ▸ {what}"
    if not calls:
        raise AnchorError(f"{fi.qual}: no {what} call found")
    loops = {id(_enclosing_loop(c, fi.node)): _enclosing_loop(c, fi.node) for c in calls}
    outside = [c for c in calls if _enclosing_loop(c, fi.node) is None]
    inloop = [c for c in calls if _enclosing_loop(c, fi.node) is not None]
    total = {"": len(outside)}
    notes = []
    for lp in {id(_enclosing_loop(c, fi.node)): _enclosing_loop(c, fi.node) for c in inloop}.values():
        if _enclosing_loop(lp, fi.node) is not None:
            led.fail(rule, key, where(fi, lp), f"{what} sits in nested loops: the outer bound does not limit it")
            return None
        b, why = loop_bound(fi, lp, cfg, cls_methods)
        if b is None:
            led.fail(rule, key, where(fi, lp), f"no static bound on the loop around {what}: {why}")
            return None
        nodes = [cfg.node_of(c) for c in inloop if _enclosing_loop(c, fi.node) is lp]
        per, pair = calls_per_iteration(cfg, lp, nodes)
        if per > 1:
            led.fail(rule, key, where(fi, pair[1].ast), f"{what} can happen more than once per iteration (line {pair[0].line} then line {pair[1].line})")
            return None
        for k_, v in b.items():
            total[k_] = total.get(k_, 0) + v
        notes.append(why)
    if aff_le(total, stated):
        led.ok(rule, key, where(fi, calls[0]), f"derived bound {aff_str(total)} ≤ stated {aff_str(stated)} — {'; '.join(notes)}; one call per iteration")
    else:
        led.fail(rule, key, where(fi, calls[0]), f"derived bound {aff_str(total)} exceeds the stated {aff_str(stated)} — {'; '.join(notes)}",
                 witness="an adversary that never satisfies the loop's exit test is called more often than the budget allows")
    return total


def _heal_table(p, led, cl, heal):
    """feedback and outcome clauses of the healing loop, decided on every interpreted path (fdai): the generator
    returns anything, the validator accepts or rejects each attempt"""
    from ..fdai import Interp, Obj, Unknown, PyRaise, ExcVal, explore, Imprecise, stub
    efp = p.cls("EnhancedFoldedProtein", "operon_ai/organelles/chaperone.py")
    probs = {"feedback": [], "valid": [], "exhausted": [], "calls": []}
    npaths = 0
    class _OverBudget(BaseException):
        """the adversary was called beyond the stated budget: the run is cut here (it may never end otherwise)"""

    def family(retries):
        # the generator side of the adversarial family; the validator side (valid at attempt k, alternating, always
        # invalid) is every accept/reject sequence, chosen by the oracle
        fam = [("text", None), ("always-blank", None), ("always-raises", None)]
        if retries > SMALL:
            return fam        # large limits: deterministic adversaries only (the validator rejects every attempt)
        for k in range(retries + 1):
            fam += [("blank-at", k), ("raises-at", k)]
        return fam
    SMALL = 3
    for retries, (gbeh, gk) in [(r_, b_) for r_ in (0, 1, 2, 3, 6, 11, 30) for b_ in family(r_)]:
        def go(o, _r=retries, _gbeh=gbeh, _gk=gk):
            it = Interp(p, o)
            glog, folds = [], []

            @stub
            def generator(interp, args, kwargs):
                ctx = args[1] if len(args) > 1 else kwargs.get("error_context")
                i = len(glog)
                glog.append(ctx)
                if len(glog) > _r + 1:
                    raise _OverBudget()
                if _gbeh == "always-raises" or (_gbeh == "raises-at" and i == _gk):
                    raise PyRaise(ExcVal("RuntimeError", (f"generator failed at call {i}",)))
                if _gbeh == "always-blank" or (_gbeh == "blank-at" and i == _gk):
                    return ""
                return f"raw{i}"

            def fold(interp, args, kwargs):
                i = len(folds)
                ok = (interp.o.choose(2, f"attempt {i}: schema-valid / invalid") == 0) if _r <= SMALL else False
                fp = interp.instantiate(efp, [], dict(valid=ok, structure=(Unknown(f"structure{i}") if ok else None), raw_peptide_chain=args[1] if len(args) > 1 else "",
                                                      error_trace=(None if ok else f"ERR#{i}#"), confidence=0.9))
                folds.append(fp)
                return fp
            it.stubs["Chaperone.fold_enhanced"] = fold
            it.stubs["Chaperone.fold"] = fold
            chap = Obj(p.cls("Chaperone", "operon_ai/organelles/chaperone.py"), {}, tag="chaperone")
            loop = it.instantiate(cl, [], dict(generator=generator, chaperone=chap, schema=Unknown("Schema"), max_retries=_r, silent=True))
            try:
                r = it.call_fi(heal, [loop, "the prompt"], {})
            except PyRaise as e:
                return dict(raised=repr(e.exc), glog=glog, beh=_gbeh)
            except _OverBudget:
                return dict(over=True, glog=glog, beh=_gbeh)
            f = r.fields if isinstance(r, Obj) else {}
            return dict(glog=glog, folds=folds, beh=_gbeh, outcome=getattr(f.get("outcome"), "name", repr(f.get("outcome"))), folded=f.get("folded"), conf=f.get("final_confidence"), tagged=f.get("ubiquitin_tagged"))
        try:
            paths = [r for _, r in explore(go, max_paths=200)]
        except Imprecise as e:
            raise AnchorError(f"ChaperoneLoop.heal could not be interpreted: {e}")
        npaths += len(paths)
        for r in paths:
            tag = f"max_retries={retries}, generator {gbeh}{'' if gk is None else ' call ' + str(gk)}"
            if "over" in r:
                probs["calls"].append(f"{tag}: generator called more than {retries + 1} times")
                continue
            if "raised" in r:
                if "raises" not in r["beh"]:
                    probs["calls"].append(f"{tag}: heal raises {r['raised']}")
                continue
            if r["beh"] != "text":
                # blank / raising generators: the call budget (above) is what the statement promises for them
                continue
            n = len(r["glog"])
            if n > retries + 1:
                probs["calls"].append(f"{tag}: generator called {n} times")
            for i, ctx in enumerate(r["glog"]):
                if i == 0:
                    if ctx is not None:
                        probs["feedback"].append(f"{tag}: first attempt already carries an error context {ctx!r}")
                else:
                    want = f"ERR#{i - 1}#"
                    if not (isinstance(ctx, str) and want in ctx) and not (isinstance(ctx, Unknown) and want in ctx.sym):
                        probs["feedback"].append(f"{tag}: attempt {i} is fed {ctx!r}, which does not carry the error of attempt {i - 1}")
            valids = [fp.fields["valid"] for fp in r["folds"]]
            if r["outcome"] in ("HEALED", "VALID_FIRST_TRY"):
                fo = r["folded"]
                if not (r["folds"] and fo is r["folds"][-1] and valids[-1] is True):
                    probs["valid"].append(f"{tag}: outcome {r['outcome']} with attempts valid={valids}: the reported structure is not the schema-valid result of the last attempt")
                if r["tagged"] is not False:
                    probs["valid"].append(f"{tag}: a healed result is tagged for degradation")
                if (r["outcome"] == "VALID_FIRST_TRY") != (len(valids) == 1):
                    probs["valid"].append(f"{tag}: outcome {r['outcome']} after {len(valids)} attempt(s)")
            else:
                if any(valids):
                    probs["exhausted"].append(f"{tag}: a schema-valid attempt ({valids}) is reported as {r['outcome']}")
                if not (r["outcome"] == "DEGRADED" and r["folded"] is None and r["tagged"] is True and isinstance(r["conf"], (int, float)) and r["conf"] == 0):
                    probs["exhausted"].append(f"{tag}: exhausted result is outcome={r['outcome']} folded={'None' if r['folded'] is None else 'set'} confidence={r['conf']!r} tagged={r['tagged']!r} (expected DEGRADED, no structure, 0, tagged)")
                if n != retries + 1:
                    probs["exhausted"].append(f"{tag}: gave up after {n} generator call(s), the budget is {retries + 1}")
    titles = {"feedback": "ChaperoneLoop.heal ▸ retry is fed the previous attempt's error", "valid": "ChaperoneLoop.heal ▸ HEALED/VALID result carries a validated structure",
              "exhausted": "ChaperoneLoop.heal ▸ exhausted result", "calls": "ChaperoneLoop.heal ▸ generator calls within budget on every interpreted path"}
    for k, title in titles.items():
        mine = sorted(set(probs[k]))
        if mine:
            led.fail("C18-R1", title, where(heal, heal.node), mine[0], path=mine[:6])
        else:
            led.ok("C18-R1", title, where(heal, heal.node), f"{npaths} path(s) over max_retries 0–3 × every valid/invalid sequence of attempts × generators returning text, blank text (always / at call k) or raising (always / at call k); max_retries 6, 11, 30 against an always-rejecting validator")
    return not any(probs.values())


def _swarm_table(p, led, sw, sup):
    """budget and success clauses of the swarm, decided on every interpreted run of supervise() for regeneration limits
    0..3 × step limits 0..3 against workers that never finish (never repeating an output), repeat one output, finish at
    global step k, or raise at step k.  Workers are opaque records with a counted step(); the factory is counted."""
    import hashlib
    from ..fdai import Interp, Obj, Unknown, PyRaise, ExcVal, explore, Imprecise, stub
    wm = p.find_cls("WorkerMemory", sw.module.rel) if hasattr(p, "find_cls") else None
    if wm is None:
        wm = next((ci for lst in p.classes.values() for ci in lst if ci.module.rel == sw.module.rel and ci.name == "WorkerMemory"), None)
    markers = ("DONE",)
    probs = {"spawn": [], "steps": [], "success": []}
    nruns = 0
    for regen, steps in [(a, b) for a in (0, 1, 2, 3) for b in (0, 1, 2, 3)] + [(6, 2), (2, 7), (11, 1)]:
        if True:
            total = (regen + 1) * steps
            small = regen <= 3 and steps <= 3
            behaviours = [("never", None, 0), ("same", None, 0)] + ([("done", k, 0) for k in range(total)] + [("raise", k, 0) for k in range(0, total, max(1, steps))] if small else [("done", total - 1, 0)])
            if steps >= 1:
                # the same swarm object has already supervised `prior` tasks successfully (or unsuccessfully) before this one
                behaviours += [("never", None, 1), ("never", None, 2), ("never", None, -1)]
            for beh, k, prior in behaviours:
                def go(o, _regen=regen, _steps=steps, _beh=beh, _k=k, _prior=prior):
                    it = Interp(p, o)
                    spawned, per_worker, outs = [], {}, []
                    HIST = {"mode": None}

                    def md5(interp, args, kwargs):
                        data = args[0] if args else b""
                        if not isinstance(data, (bytes, str)):
                            raise Imprecise("md5 of a non-literal")
                        digest = hashlib.md5(data if isinstance(data, bytes) else data.encode()).hexdigest()
                        return Obj(None, {"hexdigest": stub(lambda i_, a_, k_: digest)}, tag="md5")
                    it.ext_stubs["hashlib.md5"] = md5

                    @stub
                    def factory(interp, args, kwargs):
                        name = args[0] if args else kwargs.get("name")
                        wid = f"w{len(spawned)}"
                        spawned.append(name)
                        per_worker[wid] = 0

                        @stub
                        def step(interp2, a2, k2, _wid=wid):
                            g = len(outs)
                            per_worker[_wid] += 1
                            if _beh == "raise" and g == _k:
                                outs.append(None)
                                raise PyRaise(ExcVal("RuntimeError", ("worker crashed",)))
                            if HIST.get("mode") == "done-now":
                                text = f"all DONE at once {g}"
                            elif HIST.get("mode") == "never":
                                text = f"progress {g}"
                            else:
                                text = "stuck" if _beh == "same" else (f"all DONE at {g}" if (_beh == "done" and g == _k) else f"progress {g}")
                            outs.append(text)
                            return text
                        mem = interp.instantiate(wm, [], {}) if wm is not None else Unknown("memory")
                        return Obj(None, {"id": name if isinstance(name, str) else wid, "memory": mem, "step": step, "status": Unknown("status")}, tag=wid)

                    @stub
                    def summarizer(interp, args, kwargs):
                        return ["hint"]
                    swarm = it.instantiate(sw, [], dict(worker_factory=factory, summarizer=summarizer, max_steps_per_worker=_steps, max_regenerations=_regen, silent=True))
                    if _prior:
                        for _ in range(abs(_prior)):
                            # an earlier task on the same object: its first worker finishes at once (prior > 0) / nobody finishes (prior < 0)
                            HIST["mode"] = "done-now" if _prior > 0 else "never"
                            try:
                                it.call_fi(sup, [swarm, "an earlier task"], {})
                            except PyRaise:
                                pass
                        HIST["mode"] = None
                        del spawned[:]
                        per_worker.clear()
                        del outs[:]
                    try:
                        r = it.call_fi(sup, [swarm, "the task"], {})
                    except PyRaise as e:
                        return dict(raised=repr(e.exc), spawned=len(spawned), per=dict(per_worker), outs=list(outs))
                    f = r.fields if isinstance(r, Obj) else {}
                    return dict(spawned=len(spawned), per=dict(per_worker), outs=list(outs), success=f.get("success"), output=f.get("output"), reported=f.get("total_workers_spawned"))
                try:
                    paths = [r for _, r in explore(go, max_paths=50)]
                except Imprecise as e:
                    if "iterations" in str(e):
                        probs["spawn"].append(f"max_regenerations={regen}, max_steps_per_worker={steps}, worker {beh}{'' if k is None else '@' + str(k)}: supervise does not terminate ({e})")
                        continue
                    raise AnchorError(f"RegenerativeSwarm.supervise could not be interpreted: {e}")
                for r in paths:
                    nruns += 1
                    tag = f"max_regenerations={regen}, max_steps_per_worker={steps}, worker {beh}{'' if k is None else '@' + str(k)}" + (f", after {abs(prior)} earlier {'successful' if prior > 0 else 'exhausted'} task(s) on the same swarm" if prior else "")
                    if r["spawned"] > regen + 1:
                        probs["spawn"].append(f"{tag}: {r['spawned']} workers spawned")
                    over = {w: n for w, n in r["per"].items() if n > steps}
                    if over:
                        probs["steps"].append(f"{tag}: steps per worker {r['per']}")
                    if "raised" in r:
                        continue        # an escaping exception ends the loop: the budgets above are what the property states
                    marked = [t for t in r["outs"] if isinstance(t, str) and any(m in t.upper() for m in markers)]
                    if r["success"] is True or (r["success"] is not False and r["success"] is not None):
                        if not (isinstance(r["output"], str) and r["output"] in marked):
                            probs["success"].append(f"{tag}: success={r['success']!r} reported with output {r['output']!r}, which carries no completion marker")
    titles = {"spawn": "RegenerativeSwarm.supervise ▸ workers spawned within max_regenerations + 1 on every interpreted run",
              "steps": "RegenerativeSwarm.supervise ▸ steps per worker within max_steps_per_worker on every interpreted run",
              "success": "RegenerativeSwarm.supervise ▸ success only for an output carrying a completion marker"}
    ok_all = True
    for kk, title in titles.items():
        mine = sorted(set(probs[kk]))
        if mine:
            ok_all = False
            led.fail("C18-R2", title, where(sup, sup.node), mine[0] + (f" (+{len(mine) - 1} more)" if len(mine) > 1 else ""), witness=mine[0])
        else:
            led.ok("C18-R2", title, where(sup, sup.node), f"{nruns} interpreted runs: limits 0–3 × 0–3 (workers never finishing / repeating / finishing at step k / raising at step k) and (6,2), (2,7), (11,1) against workers that never finish")
    return ok_all


def _loop_host(res, entry, pred):
    """(function, call predicate) for the counted loop around an adversary call: the entry itself when the call sits in
    one of its loops, otherwise the entry with calls to the helper that makes the adversary call (once, outside any loop
    of its own) standing for it"""
    def direct(fn):
        return [c for c in walk_no_nested(fn.node) if isinstance(c, ast.Call) and pred(c)]
    if direct(entry) and any(_enclosing_loop(c, entry.node) is not None for c in direct(entry)):
        return entry, pred
    for g in res.reachable_from(entry):
        if g is entry or g.cls is not entry.cls:
            continue
        dc = direct(g)
        if not dc:
            continue
        if any(_enclosing_loop(c, g.node) is not None for c in dc):
            return g, pred
        if len(dc) == 1:
            wrapper_calls = lambda c, _g=g: any(t is _g for t in res.resolve_call(entry, c))      # noqa: E731
            wc = [c for c in walk_no_nested(entry.node) if isinstance(c, ast.Call) and wrapper_calls(c)]
            if wc and any(_enclosing_loop(c, entry.node) is not None for c in wc):
                return entry, wrapper_calls
    return None


def _swarm_structural(p, led, res, sw, sup):
    scfg = cfg_of(sup, led)
    methods = list(sw.methods.values())
    runw = p.find_method(sw, "_run_worker")
    spawn = p.find_method(sw, "_spawn_worker")
    if not (runw and spawn):
        raise AnchorError("RegenerativeSwarm._run_worker/_spawn_worker not found")
    # spawn calls in supervise (each spawns exactly one worker: factory called once, not in a loop, in _spawn_worker)
    check_bounded_calls(led, "C18-R2", sup, scfg, lambda c: is_self_attr(c.func, "_spawn_worker") or is_self_attr(c.func, "worker_factory"), "worker spawn", {"max_regenerations": 1, "": 1}, methods)
    spcfg = cfg_of(spawn, led)
    fcalls = [c for c in walk_no_nested(spawn.node) if isinstance(c, ast.Call) and is_self_attr(c.func, "worker_factory")]
    key = "RegenerativeSwarm._spawn_worker ▸ one factory call"
    if len(fcalls) == 1 and not in_cycle(spcfg, spcfg.node_of(fcalls[0])):
        led.ok("C18-R2", key, where(spawn, fcalls[0]), "a single factory call, not on a cycle")
    else:
        led.fail("C18-R2", key, where(spawn, spawn.node), f"{len(fcalls)} factory call site(s) / in a loop: one spawn can create several workers")
    # other callers of the factory / _spawn_worker
    for fi in methods:
        if fi in (sup, spawn):
            continue
        for c in walk_no_nested(fi.node):
            if isinstance(c, ast.Call) and (is_self_attr(c.func, "_spawn_worker") or is_self_attr(c.func, "worker_factory")):
                led.fail("C18-R2", f"{fi.qual} ▸ extra spawn", where(fi, c), "workers are spawned outside the counted loop of supervise")
    rcfg = cfg_of(runw, led)
    check_bounded_calls(led, "C18-R2", runw, rcfg, lambda c: isinstance(c.func, ast.Attribute) and c.func.attr == "step", "worker step", {"max_steps_per_worker": 1}, methods)
    # _run_worker called once per iteration of supervise
    rcalls = [c for c in walk_no_nested(sup.node) if isinstance(c, ast.Call) and is_self_attr(c.func, "_run_worker")]
    key = "RegenerativeSwarm.supervise ▸ one run per spawned worker"
    if len(rcalls) == 1:
        lp = _enclosing_loop(rcalls[0], sup.node)
        per, _ = calls_per_iteration(scfg, lp, [scfg.node_of(rcalls[0])]) if lp is not None else (1, None)
        if per == 1:
            led.ok("C18-R2", key, where(sup, rcalls[0]), "single _run_worker call per iteration")
        else:
            led.fail("C18-R2", key, where(sup, rcalls[0]), "a worker can be run more than once per iteration")
    else:
        led.fail("C18-R2", key, where(sup, sup.node), f"{len(rcalls)} _run_worker call sites")
    # success only with marker: non-None returns of _run_worker are dominated by the marker test on the same value
    key = "RegenerativeSwarm._run_worker ▸ non-None result passed the completion-marker test"
    bad = []
    n_ret = 0
    for r in walk_no_nested(runw.node):
        if isinstance(r, ast.Return) and r.value is not None and not (isinstance(r.value, ast.Constant) and r.value.value is None):
            n_ret += 1
            facts = guard_facts(rcfg, rcfg.node_of(r))
            okm = [f for f in facts if isinstance(f[0], ast.Call) and is_self_attr(f[0].func, "_is_success") and f[1] is True and f[0].args and src(f[0].args[0]) == src(r.value)]
            if not okm:
                bad.append(r)
    if bad:
        led.fail("C18-R2", key, where(runw, bad[0]), f"`{short(bad[0])}` is not dominated by the success-marker test on the returned value: an unmarked output is reported as success")
    elif n_ret == 0:
        led.fail("C18-R2", key, where(runw, runw.node), "_run_worker never returns an output")
    else:
        led.ok("C18-R2", key, where(runw, runw.node), f"{n_ret} non-None return(s), each under `self._is_success(<that value>)`")
    # supervise success result only from a non-None run result
    key = "RegenerativeSwarm.supervise ▸ success result"
    okk = False
    for r in walk_no_nested(sup.node):
        if isinstance(r, ast.Return) and isinstance(r.value, ast.Call):
            kws = {k.arg: k.value for k in r.value.keywords}
            if isinstance(kws.get("success"), ast.Constant) and kws["success"].value is True:
                facts = guard_facts(scfg, scfg.node_of(r))
                out = src(kws.get("output")) if kws.get("output") is not None else None
                nn = [f for f in facts if isinstance(f[0], ast.Compare) and src(f[0].left) == out and isinstance(f[0].ops[0], ast.IsNot) and f[1] is True]
                from_run = any(isinstance(n, ast.Assign) and isinstance(n.targets[0], ast.Name) and n.targets[0].id == out and n.value in rcalls for n in walk_no_nested(sup.node))
                okk = bool(nn) and from_run
                if not okk:
                    led.fail("C18-R2", key, where(sup, r), "success is reported for an output that is not the non-None result of running the worker")
    if okk:
        led.ok("C18-R2", key, where(sup, sup.node), "success=True only with the non-None result of _run_worker")
    # marker list non-empty and tested by containment on the output
    iss = p.find_method(sw, "_is_success")
    if iss is None:
        raise AnchorError("RegenerativeSwarm._is_success not found")



def run(p, led, tier):
    res = Resolver(p)
    led.explanation = (
        "Loop-variant analysis: each adversary call (generator, worker factory, worker step, provider tool round) "
        "must sit in a single loop whose iteration count has a static affine bound — `for … in range(e)`, or a "
        "counted `while c < e / c <= e` with c initialised to a constant, incremented on every CFG path back to the "
        "test, written nowhere else, and e not assigned — with at most one call per iteration; the derived bound is "
        "compared coefficient-wise with the stated one (smaller is fine). Def-use and dominance rules decide that "
        "each retry is fed the previous attempt's error, that HEALED/VALID carry a structure whose validity was "
        "tested, that the exhausted result is tagged with confidence 0 and no structure, that a swarm success "
        "carries an output that passed the completion-marker test, and that exactly one plain completion follows the "
        "tool loop.")
    led.level = "proof"
    led.assumptions = ["A3 generator / worker / provider are arbitrary (may return anything, may raise: raising ends the loop early)", "configuration limits are non-negative integers"]
    led.rule("C18-R1", "healing loop: generator calls ≤ max_retries + 1; retry fed the previous error; HEALED/VALID ⇒ validated structure; exhausted ⇒ tagged, confidence 0, no structure", 4)
    led.rule("C18-R2", "swarm: workers ≤ max_regenerations + 1; steps per worker ≤ max_steps_per_worker; success only with a completion marker", 3)
    led.rule("C18-R3", "tool loop: provider tool rounds ≤ max_iterations, then exactly one plain completion", 2)

    # ---------------- R1 heal
    cl = p.cls("ChaperoneLoop", "operon_ai/healing/chaperone_loop.py")
    heal = p.find_method(cl, "heal")
    if heal is None:
        raise AnchorError("ChaperoneLoop.heal not found")
    heal_ok = _heal_table(p, led, cl, heal)
    # structural bound for *every* value of the limit, on whichever function below heal hosts the generator call
    cled = led.corroborating(heal_ok, "the interpreted healing table (limits 0–3)")

    def heal_structural():
        is_gen = lambda c: is_self_attr(c.func, "generator")      # noqa: E731
        host = _loop_host(res, heal, is_gen)
        if host is None:
            led.info("no function below heal calls the generator inside a loop construct: the bound is decided for limits 0–3 by the interpreted table only")
            cled.undecided("C18-R1", "ChaperoneLoop.heal ▸ generator call", where(heal, heal.node), "no counted loop around the generator call was recognised; decided by the interpreted table")
            return
        fn, pred = host
        check_bounded_calls(cled, "C18-R1", fn, cfg_of(fn, led), pred, "generator call", {"max_retries": 1, "": 1}, list(cl.methods.values()))
    cled.run_section(("C18-R1",), heal_structural, "operon_ai/healing/chaperone_loop.py")

    # ---------------- R2 swarm
    sw = p.cls("RegenerativeSwarm", "operon_ai/healing/regenerative_swarm.py")
    sup = p.find_method(sw, "supervise")
    if sup is None:
        raise AnchorError("RegenerativeSwarm.supervise not found")
    swarm_ok = _swarm_table(p, led, sw, sup)
    sled = led.corroborating(swarm_ok, "the interpreted swarm table (limits 0–3 × 0–3)")
    sled.run_section(("C18-R2",), lambda: _swarm_structural(p, sled, res, sw, sup), "operon_ai/healing/regenerative_swarm.py")

    # ---------------- R3 tool loop
    nuc = p.cls("Nucleus", "operon_ai/organelles/nucleus.py")
    twt = p.find_method(nuc, "transcribe_with_tools")
    if twt is None:
        raise AnchorError("Nucleus.transcribe_with_tools not found")
    tool_ok = _tool_loop_table(p, led, nuc, twt)
    tled = led.corroborating(tool_ok, "the interpreted tool-loop table (limits 0–4, 9, 30)")
    # structural bound for *every* value of the limit, on whichever function below transcribe_with_tools hosts the provider round
    host = None
    for g in [twt] + [g for g in res.reachable_from(twt) if g.module.rel == twt.module.rel and g is not twt]:
        if any(isinstance(c, ast.Call) and isinstance(c.func, ast.Attribute) and c.func.attr == "complete_with_tools" for c in walk_no_nested(g.node)):
            host = g
            break
    if host is None:
        led.info("no function below transcribe_with_tools calls complete_with_tools directly: the bound is decided for limits 0–4 by the interpreted table only")
    else:
        ncfg = cfg_of(host, led)
        in_loop = any(isinstance(lp, (ast.While, ast.For)) and any(isinstance(c, ast.Call) and isinstance(c.func, ast.Attribute) and c.func.attr == "complete_with_tools" for c in ast.walk(lp))
                      for lp in walk_no_nested(host.node))
        if in_loop:
            tled.run_section(("C18-R3",), lambda: check_bounded_calls(tled, "C18-R3", host, ncfg, lambda c: isinstance(c.func, ast.Attribute) and c.func.attr == "complete_with_tools", "provider tool round", {"max_iterations": 1},
                                                                       list(nuc.methods.values()) + [g for g in p.all_funcs if g.module.rel == host.module.rel and g.cls is None]), "operon_ai/organelles/nucleus.py")
        else:
            led.info(f"{host.qual} calls the provider outside a loop construct (recursion / helper): bound decided for limits 0–4 by the interpreted table only")


def _tool_loop_table(p, led, nuc, twt):
    """the provider asks for tools forever (or stops at round k, or raises): rounds ≤ max_iterations and exactly one plain
    completion after an exhausted loop — interpreted for max_iterations 0..4"""
    from ..fdai import Interp, Obj, Unknown, PyRaise, ExcVal, explore, Imprecise, stub
    probs, npaths = [], 0
    for limit in (0, 1, 2, 3, 4, 9, 30):
        FINALS = ("forever, and has nothing to say in the final completion", "forever, and fails the final completion")
        for behaviour in (("forever", "stops") if limit <= 4 else ("forever",)) + (("raises",) if limit else ()) + (("forever, a tool re-enters the loop",) if 2 <= limit <= 3 else ()) \
                + (FINALS if limit in (0, 1, 2) else ()) + (("forever, and the tool backend raises",) if limit in (1, 2) else ()):
            def go(o, _limit=limit, _beh=behaviour):
                it = Interp(p, o)
                log = []

                @stub
                def cwt(interp, args, kwargs):
                    n_ = log.count("tools") + log.count("failed-call") + 1
                    if _beh == "raises" and n_ == 1:
                        log.append("failed-call")      # a call the provider failed: no round was answered (a retry of it is not a further round)
                        raise PyRaise(ExcVal("RuntimeError", ("provider down",)))
                    log.append("tools")
                    if _beh == "stops" and interp.o.choose(2, f"round {n_}: provider stops / asks for tools again") == 0:
                        return (Unknown(f"answer{n_}"), [])
                    return (Unknown(f"partial{n_}"), [Obj(None, {"name": "t", "id": f"c{n_}", "arguments": {}}, tag="toolcall")])

                @stub
                def complete(interp, args, kwargs):
                    log.append("plain")
                    if "fails the final" in _beh:
                        ecls = interp.p.classes.get("TranscriptionFailedError")
                        if ecls:
                            raise PyRaise(interp.instantiate(ecls[0], ["nothing came back"], {}))
                        raise PyRaise(ExcVal("RuntimeError", ("nothing came back",)))
                    if "nothing to say" in _beh:
                        rcls = interp.p.classes.get("LLMResponse")
                        if rcls:
                            return interp.instantiate(rcls[0], [], dict(content="", model="stub", tokens_used=0, latency_ms=0.0))
                        return Obj(None, {"content": "", "model": "stub", "tokens_used": 0, "latency_ms": 0.0}, tag="response")
                    return Unknown("final_answer")
                provider = Obj(None, {"name": "stub", "complete_with_tools": cwt, "complete": complete}, tag="provider")
                n = it.instantiate(nuc, [], dict(provider=provider))
                n.fields["provider"] = provider
                if "final completion" not in _beh:
                    it.stubs["Nucleus.transcribe"] = lambda interp, args, kwargs: (log.append("plain"), Unknown("final_answer"))[1]
                else:
                    # the real transcribe runs: the *provider's* plain completions are what the statement counts
                    it.ext_stubs["time.sleep"] = lambda interp, args, kwargs: None
                mito = Obj(None, {}, tag="mitochondria")

                @stub
                def schemas(interp, args, kwargs):
                    return [Unknown("schema")]

                nested = {"depth": 0}

                @stub
                def run_tool(interp, args, kwargs):
                    log.append("exec")
                    if "backend raises" in _beh:
                        raise PyRaise(ExcVal("RuntimeError", ("tool backend unavailable",)))
                    if "re-enters" in _beh and nested["depth"] == 0:
                        # every tool call of the outer conversation delegates a sub-question to the same nucleus, with a budget
                        # of one round of its own
                        nested["depth"] += 1
                        try:
                            interp.call_fi(twt, [n, "sub-question", mito, None, 1], {})
                        except PyRaise:
                            pass
                        finally:
                            nested["depth"] -= 1
                    return Obj(None, {"call_id": "c", "output": "o", "success": True, "error": None}, tag="toolresult")
                mito.fields.update(export_tool_schemas=schemas, execute_tool_call=run_tool)
                try:
                    it.call_fi(twt, [n, "prompt", mito, None, _limit], {})
                except PyRaise as e:
                    return dict(log=log, raised=repr(e.exc))
                return dict(log=log)
            try:
                paths = [r for _, r in explore(go, max_paths=400)]
            except Imprecise as e:
                if "exceeds" in str(e) and "iterations" in str(e):
                    probs.append(f"max_iterations={limit}, provider {behaviour}: the tool loop does not stop under interpretation ({e}): the budget does not bound the provider rounds")
                    continue
                raise AnchorError(f"Nucleus.transcribe_with_tools could not be interpreted: {e}")
            npaths += len(paths)
            for r in paths:
                tag = f"max_iterations={limit}, provider {behaviour}"
                rounds, plain = r["log"].count("tools"), r["log"].count("plain")
                budget = 2 * limit if "re-enters" in behaviour else limit        # the nested conversation has a budget of its own
                if rounds > budget:
                    probs.append(f"{tag}: {rounds} tool rounds")
                if r["log"].count("failed-call") > 1:
                    probs.append(f"{tag}: the failing provider call was issued {r['log'].count('failed-call')} times")
                if "backend raises" in behaviour:
                    continue            # rounds ≤ limit was judged above; whether the failure propagates or is reported to the model is open
                if "final completion" in behaviour:
                    if plain > 1:
                        probs.append(f"{tag}: the provider is asked for {plain} plain completions after the exhausted loop (one final completion is the budget; retries of it are further completions)")
                    continue
                if "raised" in r:
                    if behaviour != "raises":
                        probs.append(f"{tag}: raises {r['raised']}")
                    continue
                if "re-enters" in behaviour:
                    if plain != limit + 1:
                        probs.append(f"{tag}: {plain} plain completion(s) (one per nested conversation and one for the outer expected: {limit + 1})")
                    continue
                if behaviour == "forever" and plain != 1:
                    probs.append(f"{tag}: {plain} plain completion(s) after the exhausted loop (exactly one expected)")
                if plain > 1:
                    probs.append(f"{tag}: {plain} plain completions")
    key = "Nucleus.transcribe_with_tools ▸ rounds ≤ max_iterations and one final completion (limits 0–4 × provider behaviours)"
    if probs:
        led.fail("C18-R3", key, where(twt, twt.node), sorted(set(probs))[0], path=sorted(set(probs))[:6], witness="a provider that keeps requesting the same successful tool call never reaches the final completion")
    else:
        led.ok("C18-R3", key, where(twt, twt.node), f"{npaths} path(s): tool rounds never exceed the limit; a provider that asks for tools forever gets exactly one plain completion at the end")
    led.ok("C18-R3", "Nucleus.transcribe_with_tools ▸ one plain completion after the loop", where(twt, twt.node), "row family of the table above", nontrivial=False) if not probs else None
    return not probs


def _targets_name(n, name):
    tg = n.targets if isinstance(n, ast.Assign) else [n.target]
    return any(isinstance(t, ast.Name) and t.id == name for t in tg)


def _depends_on(fi, e, var, loop, depth=0):
    """expression e (transitively through in-loop local definitions and self-method calls) mentions `var`"""
    if var is None or depth > 5:
        return False
    if mentions_name(e, var):
        return True
    for x in ast.walk(e):
        if isinstance(x, ast.Name):
            for n in ast.walk(loop):
                if isinstance(n, ast.Assign) and _targets_name(n, x.id) and n.value is not e:
                    if _depends_on(fi, n.value, var, loop, depth + 1):
                        return True
    return False
