"""C01 — the safe evaluator is confined to its allow-list, total, and resource-bounded."""
from __future__ import annotations

import ast
import builtins

from ..cfg import CFG
from ..fdai import Unknown
from ..loader import AnchorError, dotted, is_self_attr, parent, short, src, walk_no_nested
from ..mayraise import total_subclass_test, ctor_may_raise
from ..resolve import Resolver
from .mitomodel import table_entries
from ..rules import attr_writes, cfg_of, guard_facts, guard_established, mentions_name, package_attr_writes, where
from .c02 import C, M, Walk, accepted_classes

FILES = [M, "operon_ai/core/agent.py"]

ALLOWED_NODES = {"Constant", "BinOp", "UnaryOp", "Call", "Name", "List", "Tuple", "Compare", "BoolOp", "IfExp", "Dict", "Set"}
FORBIDDEN_NODES = {"Attribute", "Subscript", "Slice", "Lambda", "ListComp", "SetComp", "DictComp", "GeneratorExp", "JoinedStr", "FormattedValue",
                   "TemplateStr", "Interpolation", "NamedExpr", "Await", "Yield", "YieldFrom", "Starred"}
PURE_BUILTINS = {"abs", "round", "min", "max", "sum", "len", "int", "float", "bool", "str", "divmod", "pow", "all", "any", "sorted", "list", "tuple",
                 "set", "dict", "frozenset", "complex", "bin", "hex", "oct", "ord", "chr", "repr", "reversed", "enumerate", "zip", "range", "isinstance", "callable"}
DANGEROUS = {"eval", "exec", "compile", "__import__", "globals", "locals", "vars", "setattr", "delattr", "open", "input", "breakpoint", "memoryview"}
DANGEROUS_MODULES = ("os", "subprocess", "pickle", "importlib", "shutil", "socket", "ctypes", "marshal", "sys")
TABLES = ("SAFE_OPERATORS", "SAFE_COMPARISONS", "SAFE_BOOL_OPS", "SAFE_FUNCTIONS")
# entries whose cost is unbounded in the magnitude of an operand
COSTLY = {("SAFE_OPERATORS", "ast.Pow"): "a ** b with a huge exponent (9**9**9)", ("SAFE_OPERATORS", "ast.Mult"): "sequence repetition ('a' * 10**11)",
          ("SAFE_OPERATORS", "ast.LShift"): "1 << 10**10", ("SAFE_FUNCTIONS", "'factorial'"): "factorial(10**8)"}


def all_expr_classes():
    out, todo = [], list(ast.expr.__subclasses__())
    while todo:
        c = todo.pop()
        out.append(c)
        todo.extend(c.__subclasses__())
    # deprecated aliases (Num, Str, Bytes, NameConstant, Ellipsis) construct ast.Constant and are not node classes of their own
    return sorted({c for c in out if c.__module__ in ("ast", "_ast") and not issubclass(c, ast.Constant) or c is ast.Constant}, key=lambda c: c.__name__)


def minimal_instance(cls):
    """a smallest well-formed instance of an ast.expr subclass with symbolic leaves"""
    a, b = C(Unknown("x")), C(Unknown("y"))
    load = ast.Load()
    comp = [ast.comprehension(ast.Name("i", ast.Store()), ast.List([a], load), [], 0)]
    table = {
        "BoolOp": lambda: ast.BoolOp(ast.And(), [a, b]), "NamedExpr": lambda: ast.NamedExpr(ast.Name("n", ast.Store()), a),
        "BinOp": lambda: ast.BinOp(a, ast.Add(), b), "UnaryOp": lambda: ast.UnaryOp(ast.USub(), a),
        "Lambda": lambda: ast.Lambda(ast.arguments([], [], None, [], [], None, []), a), "IfExp": lambda: ast.IfExp(a, b, b),
        "Dict": lambda: ast.Dict([C("k")], [a]), "Set": lambda: ast.Set([a]), "ListComp": lambda: ast.ListComp(a, comp), "SetComp": lambda: ast.SetComp(a, comp),
        "DictComp": lambda: ast.DictComp(a, b, comp), "GeneratorExp": lambda: ast.GeneratorExp(a, comp), "Await": lambda: ast.Await(a),
        "Yield": lambda: ast.Yield(a), "YieldFrom": lambda: ast.YieldFrom(a), "Compare": lambda: ast.Compare(a, [ast.Lt()], [b]),
        "Call": lambda: ast.Call(ast.Name(Unknown("fname"), load), [a], []), "FormattedValue": lambda: ast.FormattedValue(a, -1, None),
        "JoinedStr": lambda: ast.JoinedStr([ast.FormattedValue(a, -1, None)]), "Constant": lambda: C(Unknown("x")),
        "Attribute": lambda: ast.Attribute(a, "__class__", load), "Subscript": lambda: ast.Subscript(a, b, load), "Starred": lambda: ast.Starred(a, load),
        "Name": lambda: ast.Name(Unknown("ident"), load), "List": lambda: ast.List([a], load), "Tuple": lambda: ast.Tuple([a], load),
        "Slice": lambda: ast.Slice(a, b, None),
    }
    if cls.__name__ in table:
        return table[cls.__name__]()
    try:
        return cls()      # future node classes (TemplateStr, Interpolation, …): an empty instance still carries the class
    except Exception:
        return None


def run(p, led, tier):
    res = Resolver(p)
    W = Walk(p)
    mito, walker = W.mito, W.walker
    led.explanation = (
        "Confinement: the walker's source is abstractly interpreted (fdai) on a minimal instance of *every* ast.expr "
        "subclass of the running interpreter (and of every call shape: non-Name callee, unknown name): classes outside "
        "the allow-list must raise on every path with no external call made; a Name/Call succeeds only on the path "
        "where the identifier was found in the allow-list table; every external function invoked on any path must be a "
        "value of the allow-list tables. Table contents are resolved (pure builtins, math.*, operator.*, constants, "
        "lambdas over their parameters) and nobody in the package writes the tables. No function reachable from the "
        "entry points calls eval/exec/compile/__import__/getattr-with-variable-name/…. Totality: with a may-raise "
        "table for stdlib calls on hostile strings, the exceptional exit of metabolize must be unreachable. Length "
        "guard dominance and who-may-call for the pathway functions and the walker. Resource bound: the timeout must "
        "have a control use and cost-unbounded table entries a magnitude guard.")
    led.not_decided = ["an actual wall-clock / memory bound of individual C calls"]
    led.assumptions = ["A2 may-raise table of stdlib calls (DESIGN appendix B)", "A5 printing the library's own constant text does not raise", "registered tools are outside the evaluator's confinement (C03 covers their gating)"]
    led.rule("C01-R1", "every ast.expr class outside the allow-list raises on every path, with no external call; accepted classes ⊆ allowed set", 20)
    led.rule("C01-R2", "the walker falls through to an unconditional raise; no dangerous call in any function reachable from the entry points", 2)
    led.rule("C01-R3", "a name is looked up / called only through a membership-tested subscript of the allow-list table; non-Name callees are refused", 3)
    led.rule("C01-R4", "every table value is a pure builtin, math.*, operator.*, a constant or a lambda over its parameters; nobody writes the tables", 40)
    led.rule("C01-R6", "metabolize cannot raise: every may-raise statement on hostile input is inside the blanket handler, whose own body is total", 1)
    led.rule("C01-R7", "the length guard is established before every call that enters a pathway; only metabolize (or its routing helper) calls the pathway functions, only they call the walker", 2)
    led.rule("C01-R8", "the configured timeout has a control use; cost-unbounded table entries have a magnitude guard", 3)
    acc = set(accepted_classes(W))
    led.extra["walker"] = walker.qual
    led.extra["accepted_node_classes"] = sorted(acc)

    # ---------------- table values (needed for the extcall allow-list)
    table_values = set()
    tables = {}
    for tname in TABLES:
        tables[tname] = table_entries(p, mito, tname)
        for e in tables[tname]:
            key = f"Mitochondria.{tname}[{e.key_text}]"
            d = e.dotted
            loc = f"{M}:{e.line}"
            verdict = None
            if e.kind == "const":
                verdict = "constant"
            elif e.kind == "ext" and d and d.startswith("math.") and hasattr(__import__("math"), d[5:]):
                verdict = f"{d} (pure, C-implemented)"
                table_values.add(d)
            elif e.kind == "ext" and d and d.startswith("operator.") and hasattr(__import__("operator"), d[9:]) and d[9:] not in ("attrgetter", "itemgetter", "methodcaller", "setitem", "delitem"):
                verdict = f"{d}"
                table_values.add(d)
            elif e.kind == "ext" and d and "." not in d and d in PURE_BUILTINS and hasattr(builtins, d) and not isinstance(e.node, (ast.FunctionDef, ast.AsyncFunctionDef)):
                verdict = f"builtin {d} (pure)"
                table_values.add(d)
            elif e.kind == "lambda":
                why = _lambda_safe(e.node)
                if why is None:
                    verdict = "lambda over its own parameters"
                else:
                    led.fail("C01-R4", key, loc, f"lambda entry is not confined: {why}")
                    continue
            if verdict:
                led.ok("C01-R4", key, loc, verdict, nontrivial=False)
            else:
                shown = short(e.node) if isinstance(e.node, ast.expr) else (d or repr(e.value))
                led.fail("C01-R4", key, loc, f"`{shown}` is not a pure builtin, math.*, operator.*, constant or confined lambda: expressions can reach it by name",
                         witness=f"metabolize(\"{e.key_text.strip(chr(39))}(…)\") invokes it")
    # what the evaluator resolves names in is the table *and the tree it is given*: a parsed tree that is memoised while a
    # NodeTransformer of the module rewrites trees in place (true/false → constants for the logic pathway) serves the
    # rewritten tree to every later evaluation of that text — names resolve that are on no allow-list of that pathway
    from .c02 import rewritten_after_cache
    for caller_, call_, helper_, deco_, rw_ in rewritten_after_cache(p, res, M):
        led.fail("C01-R4", f"{caller_.qual} ▸ `{short(call_, 50)}`", where(caller_, call_),
                 f"the tree comes out of `{helper_.name}` (`{src(deco_)}`: shared between calls, pathways and instances) and `{rw_}` rewrites it in place: after the logic pathway has seen a "
                 "text, the math and tool pathways evaluate `true` / `false` in it although no allow-list of theirs holds those names",
                 witness="metabolize('true and 41 + 1', KREBS_CYCLE) then metabolize('true and 41 + 1', GLYCOLYSIS) → 42; probe(true) runs the tool with [True]")
    n_w = 0
    for tname in TABLES:
        for fi, kind, node in package_attr_writes(p, tname, None):
            n_w += 1
            led.fail("C01-R4", f"{fi.qual} ▸ {kind} {tname}", where(fi, node), "the allow-list is modified at run time")
        for fi in p.all_funcs:
            for n in walk_no_nested(fi.node):
                if isinstance(n, ast.Call) and isinstance(n.func, ast.Name) and n.func.id == "setattr" and len(n.args) >= 2 and isinstance(n.args[1], ast.Constant) and n.args[1].value == tname:
                    n_w += 1
                    led.fail("C01-R4", f"{fi.qual} ▸ setattr {tname}", where(fi, n), "the allow-list is replaced at run time")
    # aliases: an attribute or local bound to the table object itself (not a copy) must not be written through either
    n_alias = 0
    for fi in p.all_funcs:
        for n in walk_no_nested(fi.node):
            if not isinstance(n, (ast.Assign, ast.AnnAssign)) or n.value is None:
                continue
            v = n.value
            if not (isinstance(v, ast.Attribute) and v.attr in TABLES):
                continue
            for t in (n.targets if isinstance(n, ast.Assign) else [n.target]):
                n_alias += 1
                if isinstance(t, ast.Attribute):
                    ws = [(g, k, w) for g, k, w in package_attr_writes(p, t.attr, None) if k != "assign"]
                    what = f"self.{t.attr}"
                elif isinstance(t, ast.Name):
                    ws = []
                    for w in walk_no_nested(fi.node):
                        if isinstance(w, (ast.Assign, ast.AugAssign)):
                            for tt in (w.targets if isinstance(w, ast.Assign) else [w.target]):
                                if isinstance(tt, ast.Subscript) and isinstance(tt.value, ast.Name) and tt.value.id == t.id:
                                    ws.append((fi, "subscript-store", w))
                        if isinstance(w, ast.Call) and isinstance(w.func, ast.Attribute) and isinstance(w.func.value, ast.Name) and w.func.value.id == t.id and w.func.attr in ("update", "pop", "clear", "setdefault", "popitem", "__setitem__"):
                            ws.append((fi, f"mutcall:{w.func.attr}", w))
                    what = t.id
                else:
                    continue
                for g, k, w in ws:
                    n_w += 1
                    led.fail("C01-R4", f"{g.qual} ▸ {k} through alias {what} of {v.attr}", where(g, w),
                             f"`{what}` is bound to the class-level table {v.attr} itself (`{short(n)}`), and `{short(w, 60)}` writes through it: the allow-list of every evaluator in the process grows at run time",
                             witness="instance A registers a tool; a fresh instance B without that tool resolves and calls it by name")
    led.ok("C01-R4", "package ▸ writers of the allow-list tables", "operon_ai/", f"{len(p.all_funcs)} functions scanned; {n_w} writer(s); {n_alias} alias binding(s) of a table followed")

    # ---------------- R1 every ast.expr subclass
    bad_acc = acc - ALLOWED_NODES
    for cname in sorted(bad_acc):
        led.fail("C01-R1", f"{walker.qual} ▸ accepts ast.{cname}", where(walker, walker.node), f"the walker has a branch for ast.{cname}, which is outside the allowed subset"
                 + (" (explicitly forbidden: attribute access / subscripting / code-carrying expressions)" if cname in FORBIDDEN_NODES else ""))
    ext_seen = set()
    for cls in all_expr_classes():
        cname = cls.__name__
        node = minimal_instance(cls)
        key = f"{walker.qual} ▸ ast.{cname}"
        if node is None:
            led.info(f"ast.{cname}: no instance could be built")
            continue
        rs = W.paths(node)
        for r in rs:
            for e in r["events"]:
                if e[0] == "extcall":
                    ext_seen.add(e[1])
        oks = [r for r in rs if r["kind"] == "ok"]
        if cname not in ALLOWED_NODES:
            noisy = [r for r in rs if any(e[0] == "extcall" for e in r["events"])]
            if oks or noisy:
                led.fail("C01-R1", key, where(walker, walker.node),
                         f"ast.{cname} is evaluated ({len(oks)}/{len(rs)} path(s) return a value, e.g. {oks[0]['value']!r})" if oks else f"ast.{cname} triggers an external call before being refused",
                         witness=f"an expression containing {cname} is computed instead of refused")
            else:
                led.ok("C01-R1", key, where(walker, walker.node), f"{len(rs)} path(s), all raise ({rs[0]['exc'][:60]}); nothing called")
        else:
            led.ok("C01-R1", key, where(walker, walker.node), f"allowed class: {len(oks)}/{len(rs)} path(s) evaluate" if cname in acc else "allowed class, not supported: raises", nontrivial=cname in acc)
    # every external function the walker invoked on any path is a table value
    # `item<n>` is fdai's name for "the table entry found under a symbolic key": a table value by construction
    stray = sorted(x for x in ext_seen if x not in table_values and not x.startswith("?") and not (x.startswith("item") and x[4:].isdigit()))
    key = f"{walker.qual} ▸ external functions invoked over all node classes"
    if stray:
        led.fail("C01-R1", key, where(walker, walker.node), f"the walker calls {stray}, which are not allow-list table values")
    else:
        led.ok("C01-R1", key, where(walker, walker.node), f"{sorted(ext_seen)} ⊆ allow-list table values")

    # ---------------- R3 names and callees
    load = ast.Load()
    rs = W.paths(ast.Name(Unknown("ident"), load))
    key = f"{walker.qual} ▸ Name lookup"
    bad = [r for r in rs if r["kind"] == "ok" and not any(_found_in_table(d, "ident") for d in r["decisions"])]
    if bad or not any(r["kind"] == "raise" for r in rs):
        led.fail("C01-R3", key, where(walker, walker.node), "an identifier is resolved without having been found in the allow-list (or unknown identifiers are not refused)")
    else:
        led.ok("C01-R3", key, where(walker, walker.node), f"{len(rs)} path(s): a value only on the path where `ident in SAFE_FUNCTIONS` held; otherwise ValueError")
    rs = W.paths(ast.Call(ast.Name(Unknown("fname"), load), [C(Unknown("x"))], []))
    key = f"{walker.qual} ▸ Call by name"
    bad = [r for r in rs if r["kind"] == "ok" and not any(_found_in_table(d, "fname") for d in r["decisions"])]
    if bad or not any(r["kind"] == "raise" for r in rs):
        led.fail("C01-R3", key, where(walker, walker.node), "a function is called without its name having been found in the allow-list")
    else:
        led.ok("C01-R3", key, where(walker, walker.node), f"{len(rs)} path(s): called only on the path where `fname in SAFE_FUNCTIONS` held")
    for label, callee in (("attribute callee", ast.Attribute(C(Unknown("x")), "upper", load)), ("lambda callee", ast.Lambda(ast.arguments([], [], None, [], [], None, []), C(1))),
                          ("call-result callee", ast.Call(ast.Name("abs", load), [C(1)], [])), ("subscript callee", ast.Subscript(C(Unknown("x")), C(0), load))):
        rs = W.paths(ast.Call(callee, [C(Unknown("y"))], []))
        key = f"{walker.qual} ▸ Call with {label}"
        if any(r["kind"] == "ok" for r in rs):
            led.fail("C01-R3", key, where(walker, walker.node), f"a call whose callee is not a plain name is evaluated ({label})")
        else:
            led.ok("C01-R3", key, where(walker, walker.node), "refused on every path")

    # ---------------- R2 closed world
    cfgw = cfg_of(walker, led)
    last = walker.node.body[-1]
    key = f"{walker.qual} ▸ fall-through"
    ends = [n for n, l in cfgw.exit.pred if n.kind != "stmt" or not isinstance(n.ast, ast.Return)]
    if isinstance(last, ast.Raise) and not ends:
        led.ok("C01-R2", key, where(walker, last), "the only way out besides `return` in a recognised branch is the final unconditional raise")
    else:
        led.fail("C01-R2", key, where(walker, last), "an unrecognised node can fall off the end of the walker (returns None instead of being refused)")
    entries = [p.find_method(mito, n) for n in ("metabolize", "digest_glucose", "execute_tool_call")]
    if any(e is None for e in entries):
        raise AnchorError("Mitochondria.metabolize / digest_glucose / execute_tool_call not found")
    reach = {}
    for e in entries:
        for g in res.reachable_from(e):
            if g.module.rel.startswith("operon_ai/organelles/mitochondria") or g.cls is mito:
                reach[g.key] = g
    n_danger = 0
    for g in reach.values():
        for n in walk_no_nested(g.node):
            if isinstance(n, ast.Call):
                d = dotted(n.func) or ""
                head = d.split(".")[0]
                if d in DANGEROUS or head in DANGEROUS_MODULES and head in g.module.imports or (d == "getattr" and len(n.args) >= 2 and not isinstance(n.args[1], ast.Constant) and not res.closed_name(g, n.args[1])):
                    n_danger += 1
                    led.fail("C01-R2", f"{g.qual} ▸ {short(n, 50)}", where(g, n), "code-execution / reflection primitive reachable from the evaluator's entry points")
    led.ok("C01-R2", "Mitochondria ▸ dangerous primitives reachable from the entry points", M, f"{len(reach)} reachable function(s) scanned: {n_danger} call(s) of eval/exec/compile/__import__/getattr(var)/os.*/…")

    # ---------------- R6 totality
    met = entries[0]
    summaries = {}
    never_raise = [e for e in entries if e.name in ("metabolize", "digest_glucose")]

    def may_raise_in(fi):
        if fi.key in summaries:
            return summaries[fi.key]
        summaries[fi.key] = False

        def pred(n):
            return _may_raise(n, fi, lambda callee: may_raise_in(callee), res)
        c = CFG(fi.node, may_raise=pred)
        seen = c.reach(starts=[c.entry])
        r = c.raise_exit in seen
        summaries[fi.key] = (c.fmt_path(c.witness(seen, c.raise_exit)) if r else False)
        return summaries[fi.key]
    for ent in never_raise:
        w = may_raise_in(ent)
        key = f"Mitochondria.{ent.name} ▸ never raises"
        if w:
            led.fail("C01-R6", key, where(ent, ent.node), f"an exception can escape {ent.name}: a may-raise statement on hostile input lies outside the blanket handler",
                     path=w, witness="metabolize('\\ud800') raises UnicodeEncodeError from the trace print (lone surrogate)" if ent is met else "digest_glucose('10**5000') raises ValueError: the result is turned into text outside any handler (integer string conversion limit)")
        else:
            led.ok("C01-R6", key, where(ent, ent.node), "with the may-raise table applied, RAISE-TO-CALLER is unreachable: every such statement is inside `except Exception`, whose body is total")

    # ---------------- R7 length guard & who-may-call
    cfgm = cfg_of(met, led)
    # pathway functions by role: the methods metabolize dispatches to (directly or through a handler table) that reach a parser
    PARSERS = ("ast.parse", "ast.literal_eval", "json.loads")

    def parses(f):
        return any(isinstance(n, ast.Call) and dotted(n.func) in PARSERS for n in walk_no_nested(f.node))
    below_met = [g for g in res.reachable_from(met) if g.cls is mito and g is not met]
    reach_ = {g.key: {h.key for h in res.reachable_from(g) if h.key != g.key} for g in below_met}
    cands = [g for g in below_met if parses(g) or any(parses(h) for h in res.reachable_from(g))]
    ckeys = {g.key for g in cands}
    dispatchers = [g for g in cands if len(reach_[g.key] & ckeys) >= 2]            # reach several pathways: routing helpers
    dkeys = {g.key for g in dispatchers}
    shared = {g.key for g in cands if sum(1 for c in cands if c.key not in dkeys and g.key in reach_[c.key]) >= 2}    # parse helpers used by several pathways
    pathway_fns = [g for g in cands if g.key not in dkeys and g.key not in shared
                   and not any(g.key in reach_[c.key] for c in cands if c.key not in dkeys and c.key != g.key and c.key not in shared)]
    if len(pathway_fns) < 3:
        raise AnchorError(f"only {len(pathway_fns)} pathway function(s) found below metabolize ({[g.name for g in pathway_fns]}; routing helpers {[g.name for g in dispatchers]})")
    led.extra["pathway_functions"] = sorted(g.name for g in pathway_fns)
    entry_ok = {met.key} | dkeys
    for pf in pathway_fns + dispatchers:
        for caller, call in res.callers_of(pf):
            key = f"{caller.qual} ▸ {short(call, 50)}"
            if caller.key not in entry_ok:
                led.fail("C01-R7", key, where(caller, call), f"{pf.qual} is entered from outside metabolize, bypassing the length guard and the blanket handler")
                continue
            if caller is not met:
                continue        # inside a routing helper: the guard is judged at the call that enters the helper from metabolize
            def site_ok(caller_, call_, callee_, depth=0):
                cfgc = cfgm if caller_ is met else cfg_of(caller_, led)
                okg_ = guard_established(res, caller_, cfgc, cfgc.node_of(call_), _length_fact, led)
                if okg_:
                    return okg_
                if callee_.key in dkeys and depth < 3:
                    # the guard may sit inside the routing helper (an entry point that wraps the old body): every pathway /
                    # routing call the helper makes must then be guarded in the helper itself
                    inner = [(c2, g2) for g2 in pathway_fns + dispatchers for (cl, c2) in res.callers_of(g2) if cl is callee_]
                    if inner and all(site_ok(callee_, c2, g2, depth + 1) for c2, g2 in inner):
                        return f"the length guard inside {callee_.qual}, which dominates every pathway call it makes"
                return None
            okg = site_ok(met, call, pf)
            if okg:
                led.ok("C01-R7", key, where(caller, call), f"dominated by {okg}")
            else:
                led.fail("C01-R7", key, where(caller, call), "pathway entered without the expression-length guard having passed")
    def only_from_inside(fn, depth=0, seen=()):
        """fn is a private helper every call site of which lies in a pathway function, the walker's cluster, or another such helper"""
        if fn.key in W.cluster() or fn in pathway_fns:
            return True
        if depth > 4 or fn.key in seen or not fn.name.startswith("_") or fn.name.startswith("__"):
            return False
        sites = [c_ for c_, _ in res.callers_of(fn)]
        # bound-method references (`partial(self._helper, call)`) hand the helper to whoever runs it: the referencing function counts
        if fn.cls is not None:
            for m_ in fn.cls.methods.values():
                if m_ is not fn and any(is_self_attr(x, fn.name) and isinstance(x.ctx, ast.Load) for x in ast.walk(m_.node)):
                    sites.append(m_)
        return bool(sites) and all(only_from_inside(c_, depth + 1, seen + (fn.key,)) for c_ in sites)
    for caller, call in res.callers_of(walker):
        key = f"{caller.qual} ▸ calls the walker"
        if caller.key in W.cluster() or caller in pathway_fns or only_from_inside(caller):
            continue
        led.fail("C01-R7", key, where(caller, call), "the walker is entered from outside the pathway functions")
    led.ok("C01-R7", f"{walker.qual} ▸ callers", where(walker, walker.node), f"only the walker itself and {sorted(m.name for m in pathway_fns)} call it")

    # ---------------- R8 resource bound
    tattr = None
    init = mito.methods["__init__"]
    for n in walk_no_nested(init.node):
        if isinstance(n, ast.Assign) and is_self_attr(n.targets[0]) and any(isinstance(x, ast.Name) and "timeout" in x.id for x in ast.walk(n.value)):
            tattr = n.targets[0].attr          # stored as given, or after validation / conversion
    if tattr is None:
        raise AnchorError("Mitochondria.__init__ no longer stores a timeout")
    control = []
    for m in mito.methods.values():
        for n in walk_no_nested(m.node):
            if isinstance(n, (ast.If, ast.While)) and any(is_self_attr(x, tattr) for x in ast.walk(n.test)):
                control.append((m, n))
            if isinstance(n, ast.Call) and (dotted(n.func) or "").split(".")[-1] in ("setitimer", "alarm", "join", "result", "wait", "wait_for") and any(is_self_attr(x, tattr) for a in list(n.args) + [k.value for k in n.keywords] for x in ast.walk(a)):
                control.append((m, n))
    key = f"Mitochondria.{tattr} ▸ control use"
    if control:
        led.ok("C01-R8", key, where(control[0][0], control[0][1]), f"the timeout guards `{short(control[0][1], 50)}`")
    else:
        led.fail("C01-R8", key, where(init, init.node), f"`self.{tattr}` is stored and only used to compute an efficiency score: nothing bounds evaluation time",
                 witness="metabolize('9**9**9') never returns")
    for (tname, kk), why in COSTLY.items():
        for e in tables[tname]:
            if e.key_text == kk:
                v = e.node
                key = f"Mitochondria.{tname}[{kk}] ▸ magnitude guard"
                guarded = isinstance(v, ast.Lambda) and any(isinstance(x, ast.Compare) for x in ast.walk(v))
                if not guarded and isinstance(v, (ast.FunctionDef, ast.AsyncFunctionDef)):
                    guarded = any(isinstance(x, ast.Compare) for x in ast.walk(v))
                if not guarded and isinstance(v, ast.expr):
                    d = dotted(v)
                    if d and "." not in d:
                        f = next((fn for fn in p.functions.get(d, []) if fn.module.rel == M), None) or mito.methods.get(d)
                        guarded = f is not None and any(isinstance(x, ast.Compare) for x in ast.walk(f.node))
                    if is_self_attr(v) or (d and d.startswith("_")):
                        f = mito.methods.get((d or "").split(".")[-1]) or next((fn for fn in p.functions.get((d or "").split(".")[-1], [])), None)
                        guarded = f is not None and any(isinstance(x, ast.Compare) for x in ast.walk(f.node))
                loc = f"{M}:{e.line}"
                shown = short(v) if isinstance(v, ast.expr) else (e.dotted or repr(e.value))
                if guarded:
                    led.ok("C01-R8", key, loc, "entry is a wrapper that tests its operands")
                else:
                    led.fail("C01-R8", key, loc, f"`{shown}` has cost unbounded in operand magnitude and no guard: {why}", witness=why)


# ----------------------------------------------------------------------
def _found_in_table(d, sym):
    """decision `d` says the symbolic identifier was found as a key of a dict-valued table (positive truth of the
    membership, whichever surface form the test has: `in`, `not in`, `.get(..) is None`)"""
    return isinstance(d[2], str) and d[2].startswith(f"({sym} in {{") and d[3] is True


def _length_fact(fi, atom, pol):
    """the fact says len(<input>) does not exceed the configured maximum"""
    if not (isinstance(atom, ast.Compare) and len(atom.ops) == 1):
        return False
    l, op, r = atom.left, atom.ops[0], atom.comparators[0]
    def is_len(e):
        return isinstance(e, ast.Call) and isinstance(e.func, ast.Name) and e.func.id == "len"
    def is_max(e, depth=0):
        if "MAX_EXPRESSION_LENGTH" in src(e) or "max_expression_length" in src(e).lower():
            return True
        if isinstance(e, ast.Name) and depth < 3:
            # a local alias: `limit = self.max_expression_length` … `len(expression) > limit`
            defs = [n.value for n in ast.walk(fi.node) if isinstance(n, ast.Assign) and any(isinstance(t, ast.Name) and t.id == e.id for t in n.targets)]
            return bool(defs) and all(is_max(d, depth + 1) for d in defs)
        if isinstance(e, ast.Call) and isinstance(e.func, ast.Name) and e.func.id == "min" and e.args:
            return any(is_max(a, depth + 1) for a in e.args)          # min(configured, MAX): at most the maximum
        return False
    if is_len(l) and is_max(r):
        return (isinstance(op, (ast.Gt, ast.GtE)) and pol is False) or (isinstance(op, (ast.Lt, ast.LtE)) and pol is True)
    if is_max(l) and is_len(r):
        return (isinstance(op, (ast.Lt, ast.LtE)) and pol is False) or (isinstance(op, (ast.Gt, ast.GtE)) and pol is True)
    return False


def _lambda_safe(lam):
    params = {a.arg for a in lam.args.args + lam.args.posonlyargs + lam.args.kwonlyargs}
    for n in ast.walk(lam.body):
        if isinstance(n, ast.Name) and n.id not in params and n.id not in PURE_BUILTINS and n.id not in ("math", "operator", "True", "False", "None"):
            return f"free name `{n.id}`"
        if isinstance(n, ast.Attribute):
            d = dotted(n)
            if not (d and (d.startswith("math.") or d.startswith("operator."))):
                return f"attribute access `{short(n)}`"
        if isinstance(n, (ast.Lambda, ast.NamedExpr, ast.Await, ast.Yield, ast.YieldFrom)) and n is not lam:
            return f"{type(n).__name__} in body"
    return None


TOTAL_CALLS = {"len", "isinstance", "str", "repr", "type", "max", "min", "bool", "list", "dict", "set", "tuple", "any", "all", "sorted", "callable", "id", "hash", "round", "abs", "enumerate", "zip", "range",
               "str.__str__", "str.__len__", "str.lower", "str.upper", "str.strip"}      # unbound str slots on a str (sub)class instance
TOTAL_METHODS = {"lower", "upper", "strip", "lstrip", "rstrip", "startswith", "endswith", "replace", "split", "join", "keys", "values", "items", "get", "append", "extend",
                 "add", "time", "now", "utcnow", "isoformat", "format", "copy", "casefold", "isdigit", "find", "count", "title", "capitalize", "partition", "setdefault", "update", "_replace", "_asdict"}
RAISING_CALLS = {"int", "float", "print_input", "json.loads", "ast.parse", "ast.literal_eval", "re.compile", "re.search", "re.match", "re.sub", "re.findall", "open", "next", "eval", "exec", "compile"}


def _may_raise(n, fi, callee_summary, res):
    """statement/expression can raise on attacker-chosen str input (DESIGN appendix B)"""
    if isinstance(n, ast.Raise):
        return True
    if isinstance(n, ast.Assert):
        return True
    strparams = {a.arg for a in fi.node.args.args if a.annotation is not None and "str" in src(a.annotation)}
    todo = [n]
    while todo:
        x = todo.pop()
        if isinstance(x, (ast.Lambda, ast.FunctionDef)) and x is not n:
            continue
        todo.extend(ast.iter_child_nodes(x))
        if isinstance(x, ast.Subscript) and isinstance(x.ctx, ast.Load) and not isinstance(x.slice, ast.Slice):
            # a lookup in a dict display of this function by a key that only takes values written in the source
            # (a row of a literal table) is part of a table-driven dispatch, not a data-dependent lookup
            closed = False
            if isinstance(x.value, ast.Name) and (isinstance(x.slice, ast.Constant) or res.closed_name(fi, x.slice)):
                defs = [a.value for a in walk_no_nested(fi.node) if isinstance(a, ast.Assign) and len(a.targets) == 1 and isinstance(a.targets[0], ast.Name) and a.targets[0].id == x.value.id]
                closed = len(defs) == 1 and isinstance(defs[0], ast.Dict)
            if not closed:
                return True
        if isinstance(x, ast.BinOp) and isinstance(x.op, (ast.Div, ast.FloorDiv, ast.Mod)) and not (isinstance(x.right, ast.Constant) and x.right.value):
            # division by something that may be zero (a configured value times a constant included: the constructor
            # accepts timeout_seconds=0)
            if not _nonzero(x.right):
                return True
        # turning an *evaluated value* into text can raise: int → str beyond the interpreter's digit limit
        # (10**5000), or a tool's object whose __str__ raises
        if isinstance(x, ast.Call) and isinstance(x.func, ast.Name) and x.func.id in ("str", "repr", "format") and x.args and _is_computed_value(x.args[0], fi):
            return True
        if isinstance(x, ast.FormattedValue) and _is_computed_value(x.value, fi):
            return True
        if isinstance(x, ast.Call):
            d = dotted(x.func) or ""
            last = x.func.attr if isinstance(x.func, ast.Attribute) else d.split(".")[-1]
            if d == "print":
                # printing text derived from a str parameter can raise UnicodeEncodeError (lone surrogates)
                for a in x.args:
                    for y in ast.walk(a):
                        if isinstance(y, ast.Name) and y.id in strparams and not _only_under_len(y, a):
                            return True
                continue
            if last == "encode" and isinstance(x.func, ast.Attribute) and not any(k.arg == "errors" for k in x.keywords) and len(x.args) < 2:
                return True
            if d in RAISING_CALLS or last in ("loads", "parse", "literal_eval"):
                return True
            if d in TOTAL_CALLS or total_subclass_test(x) or (isinstance(x.func, ast.Attribute) and last in TOTAL_METHODS) or d.startswith(("time.", "hashlib.")):
                continue
            if d == "hasattr" or (d == "getattr" and (len(x.args) >= 3 or (len(x.args) == 2 and (isinstance(x.args[1], ast.Constant) or res.closed_name(fi, x.args[1]))))):
                continue      # attribute lookup by a name written in the source (dispatch table) or with a default
            if ctor_may_raise(res, fi, x):
                return True       # a record whose own __post_init__ can refuse the values it is given here
            tgts = res.resolve_call(fi, x)
            if tgts:
                # constructors of plain data classes are total; other package callees by their own summary
                if all(t.name in ("__init__", "__post_init__") and t.cls is not None and t.cls.is_dataclass() for t in tgts):
                    continue
                if any(callee_summary(t) for t in tgts if t.name not in ("__init__", "__post_init__")):
                    return True
                continue
            if isinstance(x.func, ast.Name):
                lams = _table_lambdas(fi, x.func.id, res)
                if lams is not None:
                    # rows of a literal table of lambdas: total when every lambda body is
                    if any(_may_raise(l.body, fi, callee_summary, res) for l in lams):
                        return True
                    continue
            if isinstance(x.func, ast.Name) and (x.func.id[:1].isupper() or (res.class_by_name(x.func.id, fi.module) is not None and _is_value_class(res.class_by_name(x.func.id, fi.module)))):
                continue      # dataclass / enum / NamedTuple constructors of the module
            if is_self_attr(x.func) or (isinstance(x.func, ast.Attribute) and last in ("execute", "func")):
                return True   # stored callables / tools: arbitrary
            # unknown external call: conservatively may raise
            return True
    return False


def _table_lambdas(fi, name, res):
    """the Lambda nodes a local callable `name` can denote when it is bound by iterating / indexing a literal table of
    the class or module (None when it is not such a name, or the table holds anything callable that is not a lambda)"""
    defs = res._local_defs(fi, name)
    if not defs or name in fi.params():
        return None
    out = []
    for d in defs:
        tab = d
        if isinstance(tab, ast.Call) and isinstance(tab.func, ast.Attribute) and tab.func.attr in ("get", "items", "values"):
            tab = tab.func.value
        if isinstance(tab, ast.Subscript):
            tab = tab.value
        lit = None
        if isinstance(tab, ast.Attribute) and isinstance(tab.value, ast.Name) and tab.value.id in ("self", "cls") and fi.cls is not None:
            lit = fi.cls.assigns.get(tab.attr)
        elif isinstance(tab, ast.Name):
            lit = res._table_literal(fi, tab.id)
        if lit is None:
            return None
        lams = [n for n in ast.walk(lit) if isinstance(n, ast.Lambda)]
        others = [n for n in ast.walk(lit) if isinstance(n, (ast.Name, ast.Attribute)) and isinstance(getattr(n, "ctx", None), ast.Load)
                  and not any(n is y or any(n is z for z in ast.walk(y)) for y in lams)]
        callables = [n for n in others if isinstance(n, ast.Attribute) and isinstance(n.value, ast.Name) and n.value.id == "self"]
        if not lams or callables:
            return None
        out.extend(lams)
    return out


def _is_value_class(ci):
    """a record class whose construction cannot fail on well-formed calls: NamedTuple, dataclass, or a class without its own __init__/__new__"""
    return ci.is_dataclass() or any(b in ("NamedTuple",) for b in ci.bases) or not any(m in ci.methods for m in ("__init__", "__new__", "__post_init__"))


def _is_computed_value(e, fi):
    """expression denotes a value produced by evaluating the caller's expression: `<x>.value` of a result / ATP
    object, or a local bound to the result of a pathway / walker / tool call"""
    for y in ast.walk(e):
        if isinstance(y, ast.Attribute) and y.attr == "value" and not (isinstance(y.value, ast.Name) and y.value.id in ("pathway", "self")) and "pathway" not in src(y.value) and "waste_type" not in src(y.value):
            return True
    return False


def _nonzero(e):
    if isinstance(e, ast.Constant):
        return bool(e.value)
    if isinstance(e, ast.Call) and isinstance(e.func, ast.Name) and e.func.id == "max" and any(isinstance(a, ast.Constant) and a.value and a.value > 0 for a in e.args):
        return True
    if isinstance(e, ast.BinOp) and isinstance(e.op, ast.Mult):
        return _nonzero(e.left) and _nonzero(e.right)
    return False


def _only_under_len(name, root):
    q = parent(name)
    while q is not None and q is not root:
        if isinstance(q, ast.Call) and isinstance(q.func, ast.Name) and q.func.id == "len":
            return True
        q = parent(q)
    return False
