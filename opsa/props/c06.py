"""C06 — quorum decisions follow the votes: no PERMIT without sufficient permit support."""
from __future__ import annotations

import ast
import itertools

from ..fdai import Interp, Iv, Obj, PyRaise, ExcVal, Unknown, explore, Imprecise
from ..loader import AnchorError, short, src, walk_no_nested
from ..rules import where

Q = "operon_ai/topology/quorum.py"
FILES = [Q, "operon_ai/core/agent.py"]


def nm(v):
    return getattr(v, "name", None) or repr(v)


def run(p, led, tier):
    qs = p.cls("QuorumSensing", Q)
    eq = p.cls("EmergencyQuorum", Q)
    VS = p.cls("VotingStrategy", Q)
    VT = p.cls("VoteType", Q)
    vote_cls = p.cls("Vote", Q)
    prof_cls = p.cls("AgentProfile", Q)
    strategies = [n for n, _ in VS.enum_members()]
    agg = p.find_method(qs, "_aggregate_votes")
    p2v = p.find_method(qs, "_protein_to_vote")
    runv = p.find_method(qs, "run_vote")
    if not (agg and p2v and runv):
        raise AnchorError("QuorumSensing._aggregate_votes / _protein_to_vote / run_vote not found")
    max_n = 5 if tier == "thorough" else 3
    led.explanation = (
        "Abstract interpretation (fdai) of the aggregation code over every ballot composition of 1.." + str(max_n) + " voters "
        "(permit / block / abstain / defer counts enumerated), every strategy, default and custom thresholds and the "
        "real constructor constants of EmergencyQuorum, with weights and confidences as *intervals* (sign/interval "
        "arithmetic with same-quantity identities). A verdict is reported only when it is definite for every value in "
        "the intervals: 'no permit vote ⇒ not PERMIT', 'any block defeats UNANIMOUS', 'unanimous permit with positive "
        "weights and full confidence ⇒ PERMIT', 'reported counts = ballots cast'. A comparison the intervals cannot "
        "decide is explored both ways and the cell is recorded as undecided, never as a violation. Classification of "
        "agent outputs and the exception→ABSTAIN path are extracted from run_vote with stubbed agents.")
    led.exhaustive = True
    led.not_decided = ["monotonicity in real-valued weights / confidences", "zero-weight unanimous ballots", "reliability tracking"]
    led.assumptions = ["A4 weights, confidences and thresholds are non-negative; confidence ≤ 1", "interval arithmetic is sound (over-approximate); a verdict is reported only when all concretisations agree"]
    led.rule("C06-R1", "a ballot without a permit vote is never reached/PERMIT (all strategies, thresholds, emergency quorum)", 16)
    led.rule("C06-R2", "any block vote defeats UNANIMOUS", 1)
    led.rule("C06-R3", "a unanimous permit ballot (≥ min voters, positive weights, full confidence, default thresholds) is PERMIT", 7)
    led.rule("C06-R4", "reported counts equal the ballots cast", 7)
    led.rule("C06-R5", "only permit verdicts count as support; failed agents become zero-confidence ABSTAIN", 2)

    def mk_quorum(it, cls_, strategy, threshold, n_colony, min_voters=1):
        it.stubs["BioAgent.__init__"] = lambda interp, args, kwargs: args[0].fields.update(name=args[1], role=args[2]) or None
        if cls_ is eq:
            kw = dict(n_agents=n_colony, budget=Obj(None, {}, tag="budget"), silent=True)
            if threshold is not None:
                kw["emergency_threshold"] = threshold
            return it.instantiate(eq, [], kw)
        return it.instantiate(qs, [], dict(n_agents=n_colony, budget=Obj(None, {}, tag="budget"), strategy=it.enum_member(VS, strategy), threshold=threshold,
                                           min_voters=min_voters, silent=True, on_quorum_reached=None, on_quorum_failed=None))

    def ballots(it, comp, weights, confs):
        out = []
        i = 0
        for vt, k in zip(("PERMIT", "BLOCK", "ABSTAIN", "DEFER"), comp):
            for _ in range(k):
                w = weights if not callable(weights) else weights(i)
                c = confs if not callable(confs) else confs(i)
                out.append(it.instantiate(vote_cls, [], dict(agent_id=f"a{i}", vote_type=it.enum_member(VT, vt), confidence=c, weight=w)))
                i += 1
        return out

    def aggregate(o, cls_, strategy, threshold, comp, wmode, min_voters=1):
        it = Interp(p, o)
        n = sum(comp)
        qo = mk_quorum(it, cls_, strategy, threshold, max(n, 1), min_voters)
        if wmode == "default":
            weights, confs = 1.0, (lambda i: Iv(0.0, 1.0, f"conf{i}"))
        elif wmode == "wide":
            weights, confs = (lambda i: Iv(0.0, 5.0, f"w{i}")), (lambda i: Iv(0.0, 1.0, f"conf{i}"))
        elif wmode == "zero-confidence":
            weights, confs = 1.0, 0.0
        elif wmode == "not-a-number":
            weights, confs = float("nan"), 1.0          # a weight nobody validated: every comparison with the tally is false
        elif wmode == "infinite × zero":
            weights, confs = float("inf"), 0.0          # inf * 0 = nan in the weighted tallies
        else:   # 'full': positive weights, full confidence
            weights, confs = (lambda i: Iv(0.1, 5.0, f"w{i}")), 1.0
        vs = ballots(it, comp, weights, confs)
        try:
            r = it.call_fi(agg, [qo, vs], {})
        except PyRaise as e:
            return dict(raised=repr(e.exc), undecided=it.undecided_numeric)
        return dict(reached=r.fields["reached"], decision=nm(r.fields["decision"]), counts=(r.fields["total_votes"], r.fields["permit_votes"], r.fields["block_votes"], r.fields["abstain_votes"]),
                    undecided=it.undecided_numeric, n_votes_field=len(r.fields["votes"]) if isinstance(r.fields.get("votes"), list) else None)

    def comps(n):
        return [c for c in itertools.product(range(n + 1), repeat=4) if sum(c) == n]

    configs = [(qs, s, None) for s in strategies] + [(qs, s, 0.3) for s in strategies if s != "THRESHOLD"] + [(qs, "THRESHOLD", 2), (qs, "THRESHOLD", 0.3), (eq, "THRESHOLD", None)]
    total_cells = 0
    for cls_, strat, thr in configs:
        label = f"{'EmergencyQuorum' if cls_ is eq else 'QuorumSensing'} {strat} threshold={'default' if thr is None else thr}"
        definite_bad, undecided, okc = [], 0, 0
        bad_counts = []
        for n in range(1, max_n + 1):
            for comp in comps(n):
                if comp[0] != 0:
                    continue
                for wmode in ("default", "wide", "zero-confidence", "not-a-number", "infinite × zero"):
                    total_cells += 1
                    try:
                        paths = [r for _, r in explore(lambda o: aggregate(o, cls_, strat, thr, comp, wmode), max_paths=3000)]
                    except Imprecise as e:
                        raise AnchorError(f"aggregation could not be interpreted for {label} {comp}: {e}")
                    verdicts = set()
                    for r in paths:
                        if "raised" in r:
                            verdicts.add("raised")
                            continue
                        verdicts.add("PERMIT" if (r["reached"] is True or r["decision"] == "PERMIT") else "ok")
                        if r["counts"] != (n, comp[0], comp[1], comp[2]):
                            bad_counts.append(f"ballot p/b/a/d={comp}: reported total/permit/block/abstain={r['counts']}")
                    if verdicts == {"PERMIT"}:
                        definite_bad.append(f"{comp[1]} block / {comp[2]} abstain / {comp[3]} defer, weights {wmode}: PERMIT on every path")
                    elif "PERMIT" in verdicts:
                        undecided += 1
                    else:
                        okc += 1
        key = f"{label} ▸ no permit vote ⇒ not PERMIT"
        where_ = where(agg, agg.node)
        if definite_bad:
            led.fail("C06-R1", key, where_, f"{len(definite_bad)} ballot(s) without any permit vote are decided PERMIT for every admissible weight/confidence, e.g. {definite_bad[0]}",
                     path=definite_bad[:8], witness="EmergencyQuorum(3, budget) with three BLOCK votes → reached=True, decision=PERMIT" if strat == "THRESHOLD" else "three full-confidence BLOCK votes, no PERMIT → BAYESIAN posterior 0.578 > 0.5 → PERMIT")
        elif undecided:
            led.undecided("C06-R1", key, where_, f"{undecided} ballot(s) depend on a comparison the interval domain cannot decide ({okc} decided, none PERMIT)")
        else:
            led.ok("C06-R1", key, where_, f"{okc} ballot/weight cells (1..{max_n} voters, intervals for weights and confidences): reached is definitely False")
        if bad_counts:
            led.fail("C06-R4", f"{label} ▸ counts", where_, bad_counts[0])
    led.extra["cells_no_permit"] = total_cells

    # ---------------- R2 unanimous (whatever custom threshold is configured)
    bad2, n2 = [], 0
    for thr in (None, 0.3, 0.75, 3):
        for n in range(1, max_n + 1):
            for comp in comps(n):
                if comp[1] == 0:
                    continue
                n2 += 1
                for r in [r for _, r in explore(lambda o: aggregate(o, qs, "UNANIMOUS", thr, comp, "wide"), max_paths=500)]:
                    if r.get("reached") is not False:
                        bad2.append(f"custom threshold {thr}, ballot p/b/a/d={comp}: reached={r.get('reached')}")
    key = "QuorumSensing UNANIMOUS ▸ any block defeats it (default and custom thresholds)"
    if bad2:
        led.fail("C06-R2", key, where(agg, agg.node), f"{len(bad2)} ballot(s) with a BLOCK vote are reached, e.g. {bad2[0]}", witness="UNANIMOUS with threshold=0.75 and ballots P,P,P,B → PERMIT")
    else:
        led.ok("C06-R2", key, where(agg, agg.node), f"{n2} ballots with ≥1 block over thresholds None/0.3/0.75/3: never reached")

    # ---------------- R7 a fractional threshold is a *share* of the colony: never reached by fewer permits than that share
    from fractions import Fraction as _F
    led.rule("C06-R7", "with a fractional threshold f the count strategy is never reached by k permit votes out of n when k/n < f (colonies of 1..7)", 3)
    for cls_, thr, label in ((qs, 0.3, "QuorumSensing THRESHOLD 0.3"), (qs, 0.5, "QuorumSensing THRESHOLD 0.5"), (qs, 0.7, "QuorumSensing THRESHOLD 0.7"), (eq, None, "EmergencyQuorum (its own fraction)")):
        frac = _F(str(thr)) if thr is not None else None
        bad7, n7 = [], 0
        for n in range(1, 8):
            for k in range(0, n + 1):
                def go7(o, _n=n, _k=k):
                    it = Interp(p, o)
                    qo = mk_quorum(it, cls_, "THRESHOLD", thr, _n)
                    vs = ballots(it, (_k, _n - _k, 0, 0), 1.0, 1.0)
                    r = it.call_fi(agg, [qo, vs], {})
                    f_ = qo.fields.get("custom_threshold")
                    return (r.fields["reached"], f_)
                for _, (reached, f_) in explore(go7, max_paths=50):
                    n7 += 1
                    fr = frac if frac is not None else (_F(str(f_)) if isinstance(f_, float) and 0 < f_ < 1 else None)
                    if fr is None:
                        continue
                    if reached is True and _F(k, n) < fr:
                        bad7.append(f"{k} of {n} permit ({float(_F(k, n)):.3f} < {float(fr)}): reached")
        key = f"{label} ▸ share semantics"
        if bad7:
            led.fail("C06-R7", key, where(agg, agg.node), f"{len(bad7)} ballot(s) reach the quorum below the configured share, e.g. {bad7[0]}", path=bad7[:6],
                     witness="EmergencyQuorum with 4 voters: one PERMIT and three BLOCK → PERMIT (25 % < 30 %)")
        else:
            led.ok("C06-R7", key, where(agg, agg.node), f"{n7} ballots (n = 1..7, k = 0..n): reached ⇒ k/n ≥ the fraction")

    # ---------------- R6 count criterion follows the *current* colony (membership changed through the API after configuration)
    import math as _math
    add = p.find_method(qs, "add_agent")
    rem = p.find_method(qs, "remove_agent")
    led.rule("C06-R6", "the count strategy's criterion is evaluated against the current colony, also after agents were added or removed", 2)
    for cls_, thr, label in ((qs, None, "QuorumSensing THRESHOLD default"), (eq, None, "EmergencyQuorum (fraction 0.3)")):
        bad6, n6 = [], 0
        for start, end, prior in [(s_, e_, pr_) for (s_, e_) in ((2, 5), (5, 2), (3, 3), (1, 5), (7, 2)) for pr_ in (False, True)]:
            for permits in range(0, end + 1):
                def go6(o):
                    it = Interp(p, o)
                    qo = mk_quorum(it, cls_, "THRESHOLD", thr, start)
                    if prior:
                        # a vote has already been held with the old colony: nothing it left behind may decide the next one
                        it.call_fi(agg, [qo, ballots(it, (start, 0, 0, 0), 1.0, 1.0)], {})
                    if end > start and add is not None:
                        for i in range(end - start):
                            it.call_fi(add, [qo, f"late{i}"], {})
                    if end < start and rem is not None:
                        for prof in list(qo.fields["colony"])[end:]:
                            it.call_fi(rem, [qo, prof.fields["agent"].fields["name"]], {})
                    size = len(qo.fields["colony"])
                    vs = ballots(it, (permits, size - permits, 0, 0), 1.0, 1.0)
                    r = it.call_fi(agg, [qo, vs], {})
                    return (size, r.fields["reached"])
                for _, (size, reached) in explore(go6, max_paths=50):
                    n6 += 1
                    need = max(1, _math.ceil(0.3 * size)) if cls_ is eq else size // 2 + 1
                    if reached is not (permits >= need):
                        bad6.append(f"colony {start}→{size}{' after an earlier vote' if prior else ''}, {permits} permit / {size - permits} block: reached={reached}, criterion needs {need}")
        key = f"{label} ▸ criterion after membership changes"
        if bad6:
            led.fail("C06-R6", key, where(agg, agg.node), f"{len(bad6)} of {n6} ballots decided against the stated criterion, e.g. {bad6[0]}",
                     witness="EmergencyQuorum built with 2 agents, grown to 7: 1 PERMIT vs 6 BLOCK is reported PERMIT")
        else:
            led.ok("C06-R6", key, where(agg, agg.node), f"{n6} ballots over grown / shrunk / unchanged colonies: reached ⇔ permits ≥ required(current size)")

    # ---------------- R3 unanimous permit ⇒ PERMIT ; R4 counts
    for strat in strategies:
        badd, und, okc = [], 0, 0
        badc = []
        for n in range(1, max_n + 1):
            for mv in (1, n):
                comp = (n, 0, 0, 0)
                paths = [r for _, r in explore(lambda o: aggregate(o, qs, strat, None, comp, "full", mv), max_paths=2000)]
                verdicts = {("raised" if "raised" in r else ("PERMIT" if r["reached"] is True and r["decision"] == "PERMIT" else "no")) for r in paths}
                if verdicts == {"PERMIT"}:
                    okc += 1
                elif "PERMIT" in verdicts:
                    und += 1
                else:
                    badd.append(f"{n} permit votes (weights ∈ [0.1,5], confidence 1): {sorted(verdicts)} on every path")
        # counts over mixed ballots
        for n in range(1, max_n + 1):
            for comp in comps(n):
                for r in [r for _, r in explore(lambda o: aggregate(o, qs, strat, None, comp, "default"), max_paths=3000)]:
                    if "raised" in r:
                        continue
                    if r["counts"] != (n, comp[0], comp[1], comp[2]) or (r["n_votes_field"] is not None and r["n_votes_field"] != n):
                        badc.append(f"ballot p/b/a/d={comp}: reported total/permit/block/abstain={r['counts']}, votes listed={r['n_votes_field']}")
        key = f"QuorumSensing {strat} ▸ unanimous permit ⇒ PERMIT"
        if badd:
            led.fail("C06-R3", key, where(agg, agg.node), f"{badd[0]}", witness="three full-confidence PERMIT votes → BAYESIAN posterior 0.42 → BLOCK" if strat == "BAYESIAN" else None)
        elif und:
            led.undecided("C06-R3", key, where(agg, agg.node), f"{und} electorate size(s) depend on a comparison the interval domain cannot decide ({okc} decided PERMIT)")
        else:
            led.ok("C06-R3", key, where(agg, agg.node), f"{okc} cells (n=1..{max_n}, min_voters 1 and n): reached/PERMIT for every positive weight")
        key = f"QuorumSensing {strat} ▸ reported counts = ballots cast"
        if badc:
            led.fail("C06-R4", key, where(agg, agg.node), badc[0])
        else:
            led.ok("C06-R4", key, where(agg, agg.node), f"every composition of 1..{max_n} ballots: total/permit/block/abstain and the vote list match")

    # ---------------- R5 classification and failed agents
    ap = p.cls("ActionProtein", "operon_ai/core/types.py")
    consts = sorted({x.value for n in ast.walk(p2v.node) if isinstance(n, ast.Compare) and "action_type" in src(n) for x in ast.walk(n) if isinstance(x, ast.Constant) and isinstance(x.value, str)})
    alphabet = sorted(set(consts) | {"PERMIT", "EXECUTE", "BLOCK", "DEFER", "FAILURE", "UNKNOWN", "⟂OTHER"})
    badm = []
    for a in alphabet:
        def go(o):
            it = Interp(p, o)
            qo = mk_quorum(it, qs, "MAJORITY", None, 1)
            prof = qo.fields["colony"][0]
            pr = it.instantiate(ap, [a, "payload text", 1.0], {})
            v = it.call_fi(p2v, [qo, pr, prof], {})
            return nm(v.fields["vote_type"])
        outs = {r for _, r in explore(go)}
        want = {"PERMIT": "PERMIT", "EXECUTE": "PERMIT", "BLOCK": "BLOCK", "DEFER": "DEFER"}.get(a, "ABSTAIN")
        if a in ("PERMIT", "EXECUTE"):
            if outs != {"PERMIT"}:
                badm.append(f"{a} → {sorted(outs)}")
        elif "PERMIT" in outs:
            badm.append(f"{a} is counted as PERMIT support")
    key = "QuorumSensing._protein_to_vote ▸ only permit verdicts are support"
    if badm:
        led.fail("C06-R5", key, where(p2v, p2v.node), badm[0])
    else:
        led.ok("C06-R5", key, where(p2v, p2v.node), f"alphabet {alphabet}: PERMIT/EXECUTE → PERMIT, nothing else")

    # a confidence the agent states is the confidence recorded on its ballot — 0 included (a zero-confidence permit must not
    # be counted at full confidence)
    badc = []
    for conf in (0, 0.0, 0.4, 1.0, "absent"):
        def go_c(o, _conf=conf):
            it = Interp(p, o)
            qo = mk_quorum(it, qs, "MAJORITY", None, 1)
            prof = qo.fields["colony"][0]
            payload = {"note": "x"} if _conf == "absent" else {"confidence": _conf, "note": "x"}
            pr = it.instantiate(ap, ["PERMIT", payload, 1.0], {})
            v = it.call_fi(p2v, [qo, pr, prof], {})
            return v.fields["confidence"]
        for _, got in explore(go_c, max_paths=20):
            want = 1.0 if conf == "absent" else float(conf)
            if not (isinstance(got, (int, float)) and float(got) == want):
                badc.append(f"payload confidence {conf!r} is recorded as {got!r}")
    key = "QuorumSensing._protein_to_vote ▸ the stated confidence is the recorded confidence (0 included)"
    if badc:
        led.fail("C06-R5", key, where(p2v, p2v.node), badc[0], witness="a PERMIT voter reporting confidence 0 against a BLOCK at 0.5 carries the CONFIDENCE / WEIGHTED vote")
    else:
        led.ok("C06-R5", key, where(p2v, p2v.node), "confidences 0, 0.0, 0.4, 1.0 and an absent key: recorded as stated / 1.0 by default")

    # ---------------- R8 every colony member is polled once and every ballot cast is counted (run_vote, namesakes included)
    led.rule("C06-R8", "run_vote polls every colony member once and counts one ballot per member, also for members that share a name, for members added later and across repeated votes", 1)
    add_ = p.find_method(qs, "add_agent")
    import itertools as _it8
    bad8, n8 = [], 0
    for names in (("a", "b", "c"), ("r", "r", "r"), ("a", "r", "r"), ("r", "a", "r"), ("r", "r")):
        # GARBLED: the member answers PERMIT with a payload whose stated confidence is not a number — a voter that failed
        # (turning the answer into a ballot raises), so it may not count as support
        for verdicts in _it8.product(("PERMIT", "BLOCK", "CRASH") + (("GARBLED",) if names == ("a", "b", "c") else ()), repeat=len(names)):
            for strategy in ("MAJORITY", "UNANIMOUS"):
                def go8(o, _names=names, _verdicts=verdicts, _st=strategy):
                    it = Interp(p, o)
                    qo = mk_quorum(it, qs, _st, None, 0)
                    qo.fields["colony"][:] = []
                    profs = [it.call_fi(add_, [qo, nm_], {}) for nm_ in _names]
                    agents = [pr_.fields["agent"] for pr_ in profs]
                    polled = []

                    def express(interp, args, kwargs):
                        i = next(j for j, ag in enumerate(agents) if ag is args[0])
                        polled.append(i)
                        if _verdicts[i] == "CRASH":
                            raise PyRaise(ExcVal("RuntimeError", ("agent crashed",)))
                        if _verdicts[i] == "GARBLED":
                            return interp.instantiate(ap, ["PERMIT", {"confidence": "high"}, 1.0], {})
                        return interp.instantiate(ap, [_verdicts[i], "payload", 1.0], {})
                    it.stubs["BioAgent.express"] = express
                    outs_ = []
                    for _round in (1, 2):      # the second vote on the same colony must count the same ballots
                        del polled[:]
                        r = it.call_fi(runv, [qo, "proposal"], {})
                        outs_.append(dict(polled=sorted(polled), total=r.fields["total_votes"], permit=r.fields["permit_votes"], block=r.fields["block_votes"], abstain=r.fields["abstain_votes"],
                                          nvotes=len(r.fields["votes"]), reached=r.fields["reached"]))
                    return outs_
                try:
                    res8 = [r for _, r in explore(go8, max_paths=20)]
                except Imprecise as e:
                    raise AnchorError(f"run_vote could not be interpreted: {e}")
                for outs_ in res8:
                    for rnd, r in enumerate(outs_, 1):
                        n8 += 1
                        want = dict(polled=list(range(len(names))), total=len(names), permit=verdicts.count("PERMIT"), block=verdicts.count("BLOCK"), abstain=verdicts.count("CRASH") + verdicts.count("GARBLED"), nvotes=len(names))
                        got = {k_: r[k_] for k_ in want}
                        if got != want:
                            bad8.append(f"members {list(names)} voting {list(verdicts)} ({strategy}, vote {rnd}): polled {r['polled']}, reported total={r['total']} permit={r['permit']} block={r['block']} abstain={r['abstain']} in {r['nvotes']} ballots")
                        elif strategy == "UNANIMOUS" and r["reached"] is True and "BLOCK" in verdicts:
                            bad8.append(f"members {list(names)} voting {list(verdicts)}: UNANIMOUS reached although a member blocked")
    key = "QuorumSensing.run_vote ▸ one counted ballot per colony member (namesakes, two successive votes)"
    if bad8:
        led.fail("C06-R8", key, where(runv, runv.node), f"{len(set(bad8))} case(s), e.g. {sorted(set(bad8))[0]}", path=sorted(set(bad8))[:6],
                 witness="three replicas named 'reviewer' voting PERMIT, BLOCK, BLOCK: reported as 1 ballot")
    else:
        led.ok("C06-R8", key, where(runv, runv.node), f"{n8} votes over colonies of 2–3 members (distinct and shared names) × every PERMIT/BLOCK/crash assignment × 2 strategies × 2 successive votes: every member polled once, counts equal the ballots cast")

    def go_fail(o):
        it = Interp(p, o)
        qo = mk_quorum(it, qs, "MAJORITY", None, 2)

        def express(interp, args, kwargs):
            raise PyRaise(ExcVal("RuntimeError", ("agent crashed",)))
        it.stubs["BioAgent.express"] = express
        r = it.call_fi(runv, [qo, "proposal"], {})
        return dict(reached=r.fields["reached"], decision=nm(r.fields["decision"]), votes=[(nm(v.fields["vote_type"]), v.fields["confidence"]) for v in r.fields["votes"]])
    outs = [r for _, r in explore(go_fail)]
    key = "QuorumSensing.run_vote ▸ failed agents"
    badf = [r for r in outs if r["reached"] is not False or any(v != ("ABSTAIN", 0.0) for v in r["votes"]) or len(r["votes"]) != 2]
    if badf:
        led.fail("C06-R5", key, where(runv, runv.node), f"crashing agents are recorded as {badf[0]['votes']} and the vote is reached={badf[0]['reached']}")
    else:
        led.ok("C06-R5", key, where(runv, runv.node), "every crashing agent becomes a zero-confidence ABSTAIN; the quorum is not reached")
