"""C14 — coordinated operations release every resource on every exit path."""
from __future__ import annotations

import ast

from ..cfg import edge_facts
from ..loader import AnchorError, dotted, short, src, walk_no_nested, is_self_attr
from ..resolve import Resolver
from ..rules import (attr_writes, calls_named, cfg_of, edge_guards, enum_return_sites, folded_path,
                     guard_facts, in_cycle, mentions_attr, mentions_name, package_attr_writes,
                     walk_folded, where)

FILES = ["operon_ai/coordination/system.py", "operon_ai/coordination/controller.py",
         "operon_ai/coordination/types.py", "operon_ai/coordination/watchdog.py", "operon_ai/cell.py"]

ACTIVE = "active_operations"
RECORD = "acquired_resources"


def _delisters(p, ctrl):
    """controller methods that directly take an operation out of the active map"""
    out = []
    for m in ctrl.methods.values():
        for kind, n in attr_writes(m.node, ACTIVE, "self"):
            if kind in ("subscript-del", "mutcall:pop"):
                out.append(m)
                break
    return out


def _terminators(p, ctrl, res):
    """controller methods that take an operation out of the active map — themselves or through a helper they call
    (complete_operation/abort_operation may share a private retire routine).  Read-only accessors and the
    registration are not terminators: a terminator must reach a de-lister."""
    direct = {m.key for m in _delisters(p, ctrl)}
    out = []
    for m in ctrl.methods.values():
        if any(g.key in direct for g in res.reachable_from(m) if g.cls is ctrl):
            out.append(m)
    return out


def _always(cfg_of_, res, g, ctrl, led, is_site, memo, stack=()):
    """every entry→return path of g passes a node for which is_site(g, call-or-stmt) holds, or a call of a
    controller helper for which the same is true (summaries through helpers, recursion cut)"""
    if g.key in memo:
        return memo[g.key]
    if g.key in stack:
        return False
    tc = cfg_of_(g, led)
    sites = set()
    for n in walk_no_nested(g.node):
        if is_site(g, n):
            sites.add(tc.node_of(n))
        elif isinstance(n, ast.Call):
            for h in res.resolve_call(g, n):
                if h.cls is ctrl and h is not g and _always(cfg_of_, res, h, ctrl, led, is_site, memo, stack + (g.key,)):
                    sites.add(tc.node_of(n))
    r = bool(sites) and tc.escapes(starts=[tc.entry], through=sites, targets=[tc.exit]) is None
    memo[g.key] = r
    return r


def run(p, led, tier):
    res = Resolver(p)
    led.explanation = (
        "Path rules over the CFG (exception edges included) of CoordinationSystem.execute_operation and the controller terminators (helpers summarised); ordering of work / validation / success and release on every exit decided by abstract interpretation of execute_operation with adversarial checkpoints, work and validation (fault table); "
        "controller's terminators, effect summaries of ResourceLock.try_acquire/release, and package-wide "
        "who-may-write rules for the active map and lock ownership. Decides: no exit without "
        "complete/abort; terminators release and de-list; a record is forgotten only when ownership is "
        "cleared; foreign locks untouched; work once, after all acquisitions, validation after work, "
        "success only after both. Does not decide BaseException escaping the work function.")
    led.not_decided = ["BaseException (KeyboardInterrupt/SystemExit) escaping the work function"]
    led.assumptions = ["A1 no reflection", "A3 callbacks are black boxes that may raise any Exception"]
    led.rule("C14-R1", "every CFG path from the registration of the operation to a return/raise of execute_operation passes complete_operation or abort_operation", 1)
    led.rule("C14-R1b", "each terminator releases all resources and removes the operation from the active map on every path", 2)
    led.rule("C14-R2", "the controller forgets its record of a resource only on a path where lock ownership is cleared", 1)
    led.rule("C14-R3", "release mutates the lock only under the owner test; release-all iterates only the operation's own record", 2)
    led.rule("C14-R4", "work runs once and only while all requested resources are held; validation only after work succeeded; success only after work and validation (decided on every interpreted path of the fault table; checkpoints on G0/G1/S/G2 are fault injection points)", 4)
    led.rule("C14-R5", "only terminators remove from the active map; only ResourceLock methods write owner/hold_count; every kill path goes through abort_operation", 3)

    # The fault table (abstract interpretation of execute_operation and of the terminators against adversarial
    # callbacks, pre-held and pre-empted resources) is the deciding rule set.  The CFG / who-may-write rules that
    # follow corroborate it on the shapes they recognise: when the table holds, a structural rule that does not
    # recognise the code's shape is recorded as undecided, not as a violation; when the table fails, everything is reported.
    table_ok = fault_table(p, led, tier)

    class _Proxy:
        def __init__(self, led_):
            self.__dict__["_led"] = led_

        def __getattr__(self, k):
            return getattr(self._led, k)

        def __setattr__(self, k, v):
            setattr(self._led, k, v)

        def fail(self, rule, construct, where_, why, path=None, witness=None):
            if table_ok and rule in ("C14-R1", "C14-R1b", "C14-R2", "C14-R3"):
                self._led.undecided(rule, construct, where_, "structural rule does not recognise this shape (" + why[:120] + "); release on every exit is decided by the fault table, which holds")
            else:
                self._led.fail(rule, construct, where_, why, path=path, witness=witness)
    sled = _Proxy(led)
    n_before = len(led.obls)
    def on_anchor(rids, e):
        led.info(f"structural rule(s) {', '.join(rids)} not applicable to this shape ({e}); the fault table decides")
        for rid in rids:
            led.undecided(rid, "structural rule ▸ anchor shape", "operon_ai/coordination/", f"anchor not found ({e}); decided by the fault table")
    _structural(p, sled, tier, res, on_anchor if table_ok else None)
    if table_ok and any(o["status"] == "undecided" for o in led.obls[n_before:]):
        # the confirmed instance counts describe the shapes the structural rules recognise; on a shape they recognise
        # only partly the deciding table still has its own floor, so the corroborating rules need one instance each
        for rid in ("C14-R1", "C14-R1b", "C14-R2", "C14-R3"):
            led.floors[rid] = (min(led.floors[rid][0], 1), "corroborating rule on a partly recognised shape")


def _structural(p, led, tier, res, on_anchor=None):
    system = p.cls("CoordinationSystem", "operon_ai/coordination/system.py")
    ctrl = p.cls("CellCycleController", "operon_ai/coordination/controller.py")
    lock = p.cls("ResourceLock", "operon_ai/coordination/types.py")
    execop = p.method("CoordinationSystem", "execute_operation")
    cfg = cfg_of(execop, led)

    terms = _terminators(p, ctrl, res)
    if len(terms) < 1:
        raise AnchorError("no controller method removes from active_operations")
    term_names = {t.name for t in terms}
    relall = p.find_method(ctrl, "release_all_resources")

    def sec_r1():
        # ---------------- R1: registration -> every exit passes a terminator
        reg_calls = []
        for n in walk_no_nested(execop.node):
            if isinstance(n, ast.Call):
                for t in res.resolve_call(execop, n):
                    if any(k == "subscript-store" for k, _ in attr_writes(t.node, ACTIVE, "self")):
                        reg_calls.append(n)
        if not reg_calls:
            raise AnchorError("execute_operation: no call that registers the operation in the active map")
        term_nodes = set()
        for n in walk_no_nested(execop.node):
            if isinstance(n, ast.Call):
                for t in res.resolve_call(execop, n):
                    if t.cls is ctrl and t.name in term_names:
                        term_nodes.add(cfg.node_of(n))
        for rc in reg_calls:
            rn = cfg.node_of(rc)
            starts = [(a, b, l) for a, b, l in cfg.out_edges(rn) if l != "exc"]
            path = cfg.escapes(start_edges=starts, through=term_nodes)
            key = f"CoordinationSystem.execute_operation ▸ after {short(rc, 50)}"
            if path:
                led.fail("C14-R1", key, where(execop, rc),
                         "an exit is reachable from the registration without complete_operation/abort_operation: the operation stays active and keeps its resources",
                         path=cfg.fmt_path(path))
            else:
                led.ok("C14-R1", key, where(execop, rc),
                       f"with nodes {sorted(x.line for x in term_nodes)} removed, neither RETURN nor RAISE is reachable from the normal edge of the registration ({cfg.stats()['nodes']} CFG nodes, exception edges included)")


    def sec_r1b():
        # ---------------- R1b: terminators (public entry points of the closure; helpers are summarised)
        called_by_term = {g.key for t in terms for n in walk_no_nested(t.node) if isinstance(n, ast.Call) for g in res.resolve_call(t, n) if g.cls is ctrl and g is not t}
        outer = [t for t in terms if t.key not in called_by_term] or terms
        memo_rel, memo_del = {}, {}

        def is_release_site(g, n):
            return isinstance(n, ast.Call) and any(_releases_all(p, res, h, ctrl) for h in res.resolve_call(g, n))

        def is_delist_site(g, n):
            return any(n is w for k, w in attr_writes(g.node, ACTIVE, "self") if k in ("subscript-del", "mutcall:pop"))
        for t in outer:
            key = f"CellCycleController.{t.name} ▸ release-all"
            if _always(cfg_of, res, t, ctrl, led, is_release_site, memo_rel):
                led.ok("C14-R1b", key, where(t, t.node), "every entry→return path passes a release-all call (directly or in a helper all of whose paths do)")
            else:
                tc = cfg_of(t, led)
                led.fail("C14-R1b", key, where(t, t.node), "a return is reachable without releasing the operation's resources")
            # de-lists: the del node is passed on every path except the false edge of a membership test on the same map
            key = f"CellCycleController.{t.name} ▸ de-list"
            if _always_delists(res, t, ctrl, led, {}):
                led.ok("C14-R1b", key, where(t, t.node), "every entry→return path deletes the operation from the active map (or the map does not contain it)")
            else:
                led.fail("C14-R1b", key, where(t, t.node), "a return is reachable with the operation still in the active map")


    def sec_r23():
        # ---------------- R2: record forgotten only when ownership cleared
        release = p.find_method(lock, "release")
        tryacq = p.find_method(lock, "try_acquire")
        if release is None or tryacq is None:
            raise AnchorError("ResourceLock.release / try_acquire not found")
        rc = cfg_of(release, led)
        # summary of release: for each truthy return, is `self.owner = None` on every path to it?
        clear_nodes = {rc.node_of(n) for k, n in attr_writes(release.node, "owner", "self")
                       if k == "assign" and isinstance(n, ast.Assign) and isinstance(n.value, ast.Constant) and n.value.value is None}
        partial = []   # truthy returns reachable without clearing ownership
        for n in walk_no_nested(release.node):
            if isinstance(n, ast.Return) and not (isinstance(n.value, ast.Constant) and not n.value.value):
                node = rc.node_of(n)
                seen = rc.reach(starts=[rc.entry], avoid=clear_nodes)
                if node in seen:
                    partial.append((n, rc.fmt_path(rc.witness(seen, node))))
        # can a hold count exceed one?  (re-entrant path of try_acquire increments it)
        reentrant = [n for k, n in attr_writes(tryacq.node, "hold_count", "self") if k == "augassign"]
        led.extra["release_summary"] = {"truthy_returns_without_clearing_owner": len(partial), "reentrant_increment_sites": len(reentrant)}
        # sites that forget a record
        forget = []
        for m in ctrl.methods.values():
            for k, n in attr_writes(m.node, RECORD, None):
                if k in ("subscript-del", "mutcall:pop", "mutcall:clear", "del", "assign"):
                    forget.append((m, k, n))
        if not forget:
            raise AnchorError("controller never forgets an acquired-resource record (anchor vanished)")
        for m, k, n in forget:
            mc = cfg_of(m, led)
            node = mc.node_of(n)
            key = f"CellCycleController.{m.name} ▸ {short(n, 60)}"
            if not partial or not reentrant:
                led.ok("C14-R2", key, where(m, n), "every truthy return of release clears ownership (no partial release exists)")
                continue
            facts = guard_facts(mc, node)
            cleared = [f for f in facts if _owner_cleared_fact(f[0], f[1])]
            # or: dominated by the exit edge of a loop that releases until not owned
            if cleared:
                led.ok("C14-R2", key, where(m, n), f"record dropped only under `{short(cleared[0][0])}` = {cleared[0][1]} (ownership cleared)")
            elif _callers_release_fully(p, res, m, ctrl):
                led.ok("C14-R2", key, where(m, n), "every release-all path first drains the hold count")
            else:
                led.fail("C14-R2", key, where(m, n),
                         "release() can return True while the lock is still owned (hold count > 1 after a re-entrant acquisition), "
                         "yet the record is forgotten on that result; release-all never comes back to it",
                         path=["ResourceLock.release: " + s for s in partial[0][1]],
                         witness="execute_operation(resources=['r','r']) commits and leaves ResourceLock('r').owner == operation id")

        # release-all must come back to a resource until the record is gone (one release per hold)
        key = "CellCycleController.release_all_resources ▸ drains re-entrant holds"
        if relall is None:
            raise AnchorError("release_all_resources not found")
        if not partial or not reentrant:
            led.ok("C14-R2", key, where(relall, relall.node), "release is total: one call per resource suffices", nontrivial=False)
        elif _callers_release_fully(p, res, relall, ctrl):
            led.ok("C14-R2", key, where(relall, relall.node), "per resource, releases are repeated while the record/ownership persists")
        else:
            led.fail("C14-R2", key, where(relall, relall.node),
                     "release() frees one hold per call and a re-entrant acquisition adds a hold, but release-all releases each resource once: the operation ends still owning it",
                     witness="execute_operation(resources=['r','r']) commits and leaves ResourceLock('r').owner == operation id")

        # ---------------- R3: foreign locks untouched
        for fld in ("owner", "hold_count", "owner_priority", "acquired_at"):
            for k, n in attr_writes(release.node, fld, "self"):
                node = rc.node_of(n)
                facts = guard_facts(rc, node)
                okf = [f for f in facts if _same_owner_fact(f[0], f[1], release)]
                key = f"ResourceLock.release ▸ write {fld} ▸ {short(n, 40)}"
                if okf:
                    led.ok("C14-R3", key, where(release, n), f"dominated by owner test `{short(okf[0][0])}` = {okf[0][1]}")
                else:
                    led.fail("C14-R3", key, where(release, n), "lock state written without the caller having been tested to be the owner: a foreign operation's lock can be disturbed")
        if relall is None:
            raise AnchorError("release_all_resources not found")
        rloops = _record_loops(relall)
        key = "CellCycleController.release_all_resources ▸ iteration domain"
        other_loops = [n for n in walk_no_nested(relall.node) if isinstance(n, (ast.For, ast.While)) and not any(n is l or _within(n, l) for l in rloops)]
        if rloops and not other_loops:
            led.ok("C14-R3", key, where(relall, rloops[0]), f"walks `{short(rloops[0].iter if isinstance(rloops[0], ast.For) else rloops[0].test)}` — derived from the operation's own record only")
        else:
            led.fail("C14-R3", key, where(relall, relall.node), "release-all iterates something other than the operation's own record")
        key = "CellCycleController.release_all_resources ▸ visits every recorded resource"
        ab = _abandons(relall)
        if ab:
            led.fail("C14-R2", key, where(relall, ab[0][1]),
                     f"`{type(ab[0][1]).__name__.lower()}` leaves the clean-up loop early: once one release fails (e.g. the resource was pre-empted) the remaining resources stay owned by the ended operation",
                     witness="operation holds db, then pre-emptable cache; cache is pre-empted; kill/complete leaves db owned by the dead operation")
        else:
            led.ok("C14-R2", key, where(relall, relall.node), "no break/return leaves the loop over the record: a failed release of one resource does not skip the others")
        # the owner passed to release is the operation's id
        relres = p.find_method(ctrl, "release_resource")
        if relres:
            for c in calls_named(relres.node, "release"):
                ownerarg = next((kw.value for kw in c.keywords if kw.arg == "owner"), c.args[0] if c.args else None)
                key = f"CellCycleController.release_resource ▸ {short(c, 50)}"
                if ownerarg is not None and mentions_attr(ownerarg, "operation_id"):
                    led.ok("C14-R3", key, where(relres, c), "release is requested in the name of the operation itself", nontrivial=False)
                else:
                    led.fail("C14-R3", key, where(relres, c), "release is requested with an owner other than the operation's id")


    def sec_r5():
        # ---------------- R5: who may write
        for fi, kind, n in package_attr_writes(p, ACTIVE, None):
            if kind in ("subscript-del", "mutcall:pop", "mutcall:clear", "mutcall:popitem", "del", "assign", "subscript-store", "mutcall:update", "setattr"):
                key = f"{fi.qual} ▸ {kind} {ACTIVE}"
                allowed = fi.cls is ctrl and (fi.name in term_names or (kind == "subscript-store"))
                if kind == "assign" and fi.cls is ctrl:
                    allowed = True
                if allowed:
                    led.ok("C14-R5", key, where(fi, n), "inside the controller's registration/terminator methods", nontrivial=False)
                else:
                    led.fail("C14-R5", key, where(fi, n), "the active map is modified outside complete_operation/abort_operation: an operation can vanish without releasing")
        for fld in ("owner", "hold_count"):
            for fi, kind, n in package_attr_writes(p, fld, None):
                # only attribute writes whose receiver can be a ResourceLock
                if fi.cls is lock:
                    led.ok("C14-R5", f"{fi.qual} ▸ write {fld}", where(fi, n), "inside ResourceLock", nontrivial=False)
                    continue
                tgt = _write_receiver(n, fld)
                rcls = res.expr_class(fi, tgt) if tgt is not None else None
                if rcls is lock or (rcls is None and tgt is not None and not (isinstance(tgt, ast.Name) and tgt.id == "self")):
                    if rcls is None and tier == "quick" and not fi.module.rel.startswith("operon_ai/coordination"):
                        continue
                    if rcls is None:
                        continue
                    led.fail("C14-R5", f"{fi.qual} ▸ write {fld}", where(fi, n), "lock ownership written outside ResourceLock")
        # kill paths call abort_operation
        for clsname, mname in (("Watchdog", "execute"), ("Watchdog", "manual_kill"), ("CoordinationSystem", "shutdown")):
            try:
                m = p.method(clsname, mname)
            except AnchorError:
                continue
            calls = [c for c in walk_no_nested(m.node) if isinstance(c, ast.Call) and any(t.cls is ctrl and t.name in term_names for t in res.resolve_call(m, c))]
            key = f"{clsname}.{mname} ▸ terminates through the controller"
            if calls:
                led.ok("C14-R5", key, where(m, calls[0]), f"calls {short(calls[0], 50)}")
            else:
                # resolve by name as a fallback (controller passed as untyped parameter)
                named = [c for nm in term_names for c in calls_named(m.node, nm)]
                if named:
                    led.ok("C14-R5", key, where(m, named[0]), f"calls {short(named[0], 50)} (receiver resolved by name)")
                else:
                    led.fail("C14-R5", key, where(m, m.node), "kill path no longer goes through a controller terminator (abort_operation)")

    for rids, sec in ((("C14-R1",), sec_r1), (("C14-R1b",), sec_r1b), (("C14-R2", "C14-R3"), sec_r23), (("C14-R5",), sec_r5)):
        try:
            sec()
        except AnchorError as ex:
            if on_anchor is None:
                raise
            on_anchor(rids, ex)


# ----------------------------------------------------------------------
def _always_delists(res, g, ctrl, led, memo, stack=()):
    if g.key in memo:
        return memo[g.key]
    if g.key in stack:
        return False
    tc = cfg_of(g, led)
    sites = {tc.node_of(n) for k, n in attr_writes(g.node, ACTIVE, "self") if k in ("subscript-del", "mutcall:pop")}
    for n in walk_no_nested(g.node):
        if isinstance(n, ast.Call):
            for h in res.resolve_call(g, n):
                if h.cls is ctrl and h is not g and _always_delists(res, h, ctrl, led, memo, stack + (g.key,)):
                    sites.add(tc.node_of(n))

    def cut(a, b, lab):
        if a.kind == "test" and lab == "F":
            for atom, pol in edge_facts(a.ast, "F"):
                if (not pol and isinstance(atom, ast.Compare) and isinstance(atom.ops[0], ast.In)
                        and mentions_attr(atom.comparators[0], ACTIVE)):
                    return True
        return False
    r = bool(sites) and tc.escapes(starts=[tc.entry], through=sites, targets=[tc.exit], cut=cut) is None
    memo[g.key] = r
    return r


def _record_loops(g):
    """outermost loops of g that walk the operation's record: `for … in <mentions RECORD>` or
    `while <var>` where var was defined from an expression mentioning RECORD"""
    from ..loader import parent as _parent
    out = []
    derived = set()
    for n in walk_no_nested(g.node):
        if isinstance(n, ast.Assign) and isinstance(n.targets[0], ast.Name) and mentions_attr(n.value, RECORD):
            derived.add(n.targets[0].id)
    for n in walk_no_nested(g.node):
        if isinstance(n, ast.For) and (mentions_attr(n.iter, RECORD) or any(mentions_name(n.iter, d) for d in derived)):
            out.append(n)
        elif isinstance(n, ast.While) and (mentions_attr(n.test, RECORD) or any(mentions_name(n.test, d) for d in derived)):
            out.append(n)
    # keep outermost only
    def inside(x, y):
        q = _parent(x)
        while q is not None:
            if q is y:
                return True
            q = _parent(q)
        return False
    return [l for l in out if not any(inside(l, o) for o in out if o is not l)]


def _releases_all(p, res, g, ctrl, depth=0):
    """g walks the operation's record in a loop and calls (directly or through a resolved helper) ResourceLock.release"""
    for lp in _record_loops(g):
        for c in ast.walk(lp):
            if isinstance(c, ast.Call):
                for t in res.resolve_call(g, c):
                    if t.qual == "ResourceLock.release":
                        return True
                    if any(t2.qual == "ResourceLock.release" for c2 in ast.walk(t.node) if isinstance(c2, ast.Call) for t2 in res.resolve_call(t, c2)):
                        return True
    return False


def _abandons(g):
    """break / return statements that leave an outermost record loop early: [(loop, stmt)]"""
    from ..loader import parent as _parent
    out = []
    for lp in _record_loops(g):
        for n in ast.walk(lp):
            if isinstance(n, ast.Return):
                out.append((lp, n))
            elif isinstance(n, ast.Break):
                q = _parent(n)
                while q is not None and not isinstance(q, (ast.For, ast.While)):
                    q = _parent(q)
                if q is lp:
                    out.append((lp, n))
    return out


def _within(x, y):
    from ..loader import parent as _parent
    q = _parent(x)
    while q is not None:
        if q is y:
            return True
        q = _parent(q)
    return False


def _owner_cleared_fact(atom, pol):
    """fact implying the lock is no longer owned by the operation"""
    s = src(atom)
    if isinstance(atom, ast.Compare) and len(atom.ops) == 1:
        l, r = atom.left, atom.comparators[0]
        both = src(l) + " " + src(r)
        if ".owner" in both:
            if isinstance(atom.ops[0], (ast.NotEq, ast.IsNot)) and pol and ("operation_id" in both):
                return True
            if isinstance(atom.ops[0], (ast.Eq, ast.Is)) and not pol and ("operation_id" in both):
                return True
            if isinstance(atom.ops[0], (ast.Is, ast.Eq)) and pol and "None" in both:
                return True
        if ".hold_count" in both:
            if isinstance(atom.ops[0], (ast.Eq, ast.LtE)) and pol and src(r) == "0":
                return True
            if isinstance(atom.ops[0], ast.Gt) and not pol and src(r) == "0":
                return True
    if isinstance(atom, ast.Attribute) and atom.attr == "is_available" and pol:
        return True
    return False


def _callers_release_fully(p, res, m, ctrl):
    """every release-all routine drains the hold count before/after calling m:
    a `while` whose test mentions owner/hold_count and whose body releases."""
    relall = p.find_method(ctrl, "release_all_resources")
    if relall is None:
        return False
    for fn in (relall, m):
        for n in walk_no_nested(fn.node):
            if isinstance(n, ast.While):
                tests = [n.test] + [x.test for x in ast.walk(n) if isinstance(x, (ast.If, ast.While))]
                if any(mentions_attr(t, "owner") or mentions_attr(t, "hold_count") or mentions_attr(t, RECORD) for t in tests):
                    if any(isinstance(c, ast.Call) and isinstance(c.func, ast.Attribute) and c.func.attr in ("release", "release_resource") for c in ast.walk(n)):
                        return True
    return False


def _same_owner_fact(atom, pol, release):
    if isinstance(atom, ast.Compare) and len(atom.ops) == 1:
        l, r = atom.left, atom.comparators[0]
        names = {src(l), src(r)}
        params = set(release.params()) - {"self"}
        if "self.owner" in names and (names - {"self.owner"}) <= params and (names - {"self.owner"}):
            if isinstance(atom.ops[0], (ast.NotEq, ast.IsNot)) and not pol:
                return True
            if isinstance(atom.ops[0], (ast.Eq, ast.Is)) and pol:
                return True
    return False



def _enclosing_loop(n):
    from ..loader import parent
    p_ = parent(n)
    while p_ is not None and not isinstance(p_, (ast.For, ast.While, ast.FunctionDef)):
        p_ = parent(p_)
    return p_ if isinstance(p_, ast.For) else None



def _write_receiver(n, fld):
    tg = []
    if isinstance(n, ast.Assign):
        tg = n.targets
    elif isinstance(n, (ast.AugAssign, ast.AnnAssign)):
        tg = [n.target]
    for t in tg:
        if isinstance(t, ast.Attribute) and t.attr == fld:
            return t.value
    return None


# ======================================================================
# R6 — fault enumeration by abstract interpretation: the statement's own quantifier
# (request lists over registered resources incl. repeats and resources held by others, pre-emptable or not;
#  a fault at every callback step), interpreted on the source with adversarial callbacks.
def fault_table(p, led, tier):
    import itertools
    from ..fdai import Interp, Obj, PyRaise, ExcVal, Unknown, explore, Imprecise, stub, _OneShot
    system = p.cls("CoordinationSystem", "operon_ai/coordination/system.py")
    ctrl = p.cls("CellCycleController", "operon_ai/coordination/controller.py")
    lock = p.cls("ResourceLock", "operon_ai/coordination/types.py")
    octx = p.cls("OperationContext", "operon_ai/coordination/controller.py")
    cp_cls = p.cls("Checkpoint", "operon_ai/coordination/controller.py")
    PH = p.cls("Phase", "operon_ai/coordination/types.py")
    execop = p.method("CoordinationSystem", "execute_operation")
    names = ("r1", "r2", "r3") if tier == "thorough" else ("r1", "r2")
    maxlen = 3 if tier == "thorough" else 2
    lists = [()] + [l for k in range(1, maxlen + 1) for l in itertools.product(names, repeat=k)]
    # pre-state of each resource: free / held by another op (not pre-emptable) / held by another lower-priority op (pre-emptable)
    prestates = list(itertools.product(("free", "held", "preemptable"), repeat=len(names)))
    led.rule("C14-R6", "for every request list × resource pre-state × fault at each callback step: afterwards the operation owns nothing, is not active, foreign locks are untouched, work ran at most once while holding everything, validation only after work, success only if both succeeded", 20)
    bad = []
    bad4 = []
    n_runs = [0]
    n_paths = [0]
    n_work = [0]
    complete_m = p.find_method(ctrl, "complete_operation")
    abort_m0 = p.find_method(ctrl, "abort_operation")
    if complete_m is None or abort_m0 is None:
        raise AnchorError("CellCycleController.complete_operation / abort_operation not found")
    # the same request handed over as a one-shot iterator (a generator, map(...), iter(...)): it can be walked once only
    lists = lists + [l + ("§iter",) for l in lists if 1 <= len(l) <= 2]
    for req0 in lists:
        one_shot = bool(req0) and req0[-1] == "§iter"
        req = req0[:-1] if one_shot else req0
        for pre in (prestates if not one_shot else [pr for pr in prestates if "preemptable" not in pr]):
            def go(o, req=req, one_shot=one_shot):
                it = Interp(p, o)
                it.stubs["PriorityInheritance.__init__"] = lambda interp, args, kwargs: None
                sysobj = it.instantiate(system, [], {})
                c = sysobj.fields["controller"]
                other = it.instantiate(octx, [], dict(operation_id="other", agent_id="x", priority=1))
                c.fields["active_operations"]["other"] = other
                for nm_, st in zip(names, pre):
                    lk = it.instantiate(lock, [], dict(resource_id=nm_, allow_preemption=(st == "preemptable")))
                    if st != "free":
                        lk.fields.update(owner="other", owner_priority=1, hold_count=1)
                        other.fields["acquired_resources"][nm_] = lk
                    c.fields["resources"][nm_] = lk
                # user checkpoints on G1, S, G2: arbitrary predicates (return anything / raise)
                log = []

                def mk_cp(ph):
                    @stub
                    def cond(interp, args, kwargs):
                        k = interp.o.choose(3, f"user checkpoint {ph}: passes / fails / raises")
                        log.append(("checkpoint", ph, k == 0))
                        if k == 2:
                            raise PyRaise(ExcVal("RuntimeError", (f"checkpoint {ph} crashed",)))
                        return k == 0
                    return cond
                for ph in ("G0", "G1", "S", "G2"):
                    phv = it.enum_member(PH, ph)
                    default = c.fields["checkpoints"].get(phv, [])
                    c.fields["checkpoints"][phv] = list(default) + [it.instantiate(cp_cls, [], dict(phase=phv, condition=mk_cp(ph), name=f"user_{ph}"))]

                @stub
                def work(interp, args, kwargs):
                    owned = {nm_: c.fields["resources"][nm_].fields["owner"] for nm_ in set(req)}
                    k = interp.o.choose(2, "work returns / raises")
                    log.append(("work", owned, k == 0, [x for x in log if x[0] == "checkpoint"]))
                    if k == 1:
                        raise PyRaise(ExcVal("RuntimeError", ("work failed",)))
                    return "result"

                @stub
                def validate(interp, args, kwargs):
                    k = interp.o.choose(3, "validate true / false / raises")
                    log.append(("validate", len([x for x in log if x[0] == "work"]), k == 0, len([x for x in log if x[0] == "work" and x[2]])))
                    if k == 2:
                        raise PyRaise(ExcVal("RuntimeError", ("validator failed",)))
                    return k == 0
                use_validate = it.o.choose(2, "validate_fn given / None") == 0
                try:
                    r = it.call_fi(execop, [sysobj, "op", "agent", work, (_OneShot(list(req)) if one_shot else list(req)), validate if use_validate else None, 5], {})
                    res = dict(success=r.fields.get("success"))
                except PyRaise as e:
                    res = dict(raised=repr(e.exc))
                locks_ = {nm_: (c.fields["resources"][nm_].fields["owner"], c.fields["resources"][nm_].fields["hold_count"]) for nm_ in names}
                res.update(locks=locks_, active="op" in c.fields["active_operations"], log=log, validated=use_validate)
                # aftermath ("followed by arbitrary further operations"): the other operation now ends as well; whatever it
                # releases must not come back to the operation that has already ended
                how_other = (len(req) + sum(1 for x in pre if x != "free")) % 2      # completes / is aborted, alternating over the table
                try:
                    if how_other == 0:
                        it.call_fi(complete_m, [c, other], {})
                    else:
                        it.call_fi(abort_m0, [c, other, "ended"], {})
                    res["after"] = {nm_: c.fields["resources"][nm_].fields["owner"] for nm_ in names}
                except PyRaise as e:
                    res["after_raised"] = repr(e.exc)
                return res
            try:
                paths = explore(go, max_paths=4000)
            except Imprecise as e:
                raise AnchorError(f"execute_operation could not be interpreted for request {req}, pre-state {pre}: {e}")
            n_runs[0] += 1
            for _, r in paths:
                n_paths[0] += 1
                tag = f"request={list(req)} pre={dict(zip(names, pre))}"
                if "raised" in r:
                    bad.append(f"{tag}: execute_operation raised {r['raised']}")
                if r["active"]:
                    bad.append(f"{tag}: the operation is still listed as active")
                for nm_, (own, hc) in r["locks"].items():
                    st = pre[names.index(nm_)]
                    if own == "op":
                        bad.append(f"{tag}: resource {nm_} is still owned by the operation (hold_count {hc})")
                    if nm_ not in req and (own, hc) != (("other", 1) if st != "free" else (None, 0)):
                        bad.append(f"{tag}: resource {nm_} was never requested but changed to owner={own} hold_count={hc}")
                    if nm_ in req and st == "held" and (own, hc) != ("other", 1):
                        bad.append(f"{tag}: resource {nm_} held by another (not pre-emptable) operation was disturbed: owner={own} hold_count={hc}")
                for nm_, own in (r.get("after") or {}).items():
                    if own == "op":
                        bad.append(f"{tag}: after the other operation ended too, resource {nm_} is owned by the operation that had already ended (a released lock was handed to a finished waiter)")
                if "after_raised" in r:
                    bad.append(f"{tag}: ending the other operation afterwards raises {r['after_raised']}")
                works = [x for x in r["log"] if x[0] == "work"]
                if len(works) > 1:
                    bad4.append(("once", f"{tag}: work function ran {len(works)} times"))
                for w in works:
                    if any(o_ != "op" for o_ in w[1].values()):
                        bad4.append(("holding", f"{tag}: work ran while not holding {[k for k, v in w[1].items() if v != 'op']}"))
                vals = [x for x in r["log"] if x[0] == "validate"]
                for v in vals:
                    if v[1] != 1 or v[3] != 1:
                        bad4.append(("validate-after-work", f"{tag}: validation ran with work executed {v[1]} times ({v[3]} successfully): validation must follow the successful completion of work"))
                if r.get("success") is True:
                    if not works or not works[0][2]:
                        bad4.append(("success", f"{tag}: success reported although work {'never ran' if not works else 'raised'}"))
                    if r["validated"] and not (vals and vals[-1][2]):
                        bad4.append(("success", f"{tag}: success reported although validation {'did not run' if not vals else 'did not return true'}"))
                n_work[0] += len(works)
    R4 = [("once", "work_fn() ▸ once"), ("holding", "work_fn() ▸ only while every requested resource is held (acquire results BLOCKED/… must not proceed)"),
          ("validate-after-work", "validate_fn() ▸ after work"), ("success", "success result ▸ only after work and validation succeeded")]
    for tagk, title in R4:
        mine = sorted({m for k_, m in bad4 if k_ == tagk})
        key4 = f"CoordinationSystem.execute_operation ▸ {title}"
        if mine:
            led.fail("C14-R4", key4, where(execop, execop.node), f"{len(mine)} case(s), e.g. {mine[0]}", path=mine[:8])
        else:
            led.ok("C14-R4", key4, where(execop, execop.node), f"{n_paths[0]} interpreted paths ({n_work[0]} executions of work): holds on every one")
    key = f"CoordinationSystem.execute_operation ▸ fault table ({len(lists)} request lists × {len(prestates)} pre-states, user checkpoints on G1/S/G2, work and validation adversarial)"
    if bad:
        uniq = sorted(set(bad))
        led.fail("C14-R6", key, where(execop, execop.node), f"{len(uniq)} distinct violation(s) over {n_paths[0]} paths, e.g. {uniq[0]}", path=uniq[:10])
    else:
        led.ok("C14-R6", key, where(execop, execop.node), f"{n_runs[0]} configurations, {n_paths[0]} paths: on every one the operation ends owning nothing and de-listed, foreign locks untouched, work ≤ once while holding all, validation after work")
    # ---- a resource is taken away in the middle of the operation (pre-empted by a more urgent one): at the end the
    # operation must still give back everything else it holds, whichever way it ends (commit, abort, kill)
    pre_bad, pre_paths = [], 0
    abort_m = p.find_method(ctrl, "abort_operation")
    for ending in ("completes", "work raises", "killed from outside"):
        for order in (("r1", "r2"), ("r2", "r1")):
            def go_p(o, _ending=ending, _order=order):
                it = Interp(p, o)
                it.stubs["PriorityInheritance.__init__"] = lambda interp, args, kwargs: None
                sysobj = it.instantiate(system, [], {})
                c = sysobj.fields["controller"]
                urgent = it.instantiate(octx, [], dict(operation_id="urgent", agent_id="x", priority=9))
                c.fields["active_operations"]["urgent"] = urgent
                for nm_ in ("r1", "r2"):
                    c.fields["resources"][nm_] = it.instantiate(lock, [], dict(resource_id=nm_, allow_preemption=(nm_ == "r1")))
                acq = p.find_method(ctrl, "acquire_resource")

                took = []

                @stub
                def work(interp, args, kwargs):
                    took.append(interp.call_fi(acq, [c, urgent, "r1"], {}))        # the urgent operation pre-empts r1
                    if _ending == "killed from outside":
                        ctx = c.fields["active_operations"].get("op")
                        if ctx is not None and abort_m is not None:
                            interp.call_fi(abort_m, [c, ctx, "killed"], {})
                    if _ending == "work raises":
                        raise PyRaise(ExcVal("RuntimeError", ("work failed",)))
                    return "result"
                try:
                    it.call_fi(execop, [sysobj, "op", "agent", work, list(_order), None, 5], {})
                except PyRaise as e:
                    return dict(raised=repr(e.exc))
                return dict(owners={nm_: c.fields["resources"][nm_].fields["owner"] for nm_ in ("r1", "r2")}, active="op" in c.fields["active_operations"], preempted=bool(took))
            try:
                paths = explore(go_p, max_paths=400)
            except Imprecise as e:
                raise AnchorError(f"pre-emption scenario could not be interpreted: {e}")
            if not any(r.get("preempted") for _, r in paths):
                raise AnchorError(f"pre-emption scenario ({ending}, {list(order)}): the work function never ran, so nothing was pre-empted")
            for _, r in paths:
                pre_paths += 1
                tag = f"acquire {list(order)}, r1 pre-empted during work, operation {ending}"
                if "raised" in r:
                    pre_bad.append(f"{tag}: execute_operation raised {r['raised']}")
                    continue
                if r["active"]:
                    pre_bad.append(f"{tag}: the operation is still listed as active")
                if r["owners"]["r2"] == "op":
                    pre_bad.append(f"{tag}: r2 is still owned by the ended operation (the clean-up gave up after the refused release of the pre-empted r1)")
                if r["preempted"] and r["owners"]["r1"] not in ("urgent",):       # (an operation refused before its work ran was never pre-empted)
                    pre_bad.append(f"{tag}: r1 ends owned by {r['owners']['r1']!r}, not by the operation that pre-empted it")
    keyp = "CoordinationSystem.execute_operation ▸ a resource pre-empted mid-operation does not strand the others (3 endings × 2 acquisition orders)"
    if pre_bad:
        led.fail("C14-R6", keyp, where(execop, execop.node), sorted(set(pre_bad))[0], path=sorted(set(pre_bad))[:8],
                 witness="operation holds db, then pre-emptable cache; cache is pre-empted; kill/complete leaves db owned by the dead operation")
    else:
        led.ok("C14-R6", keyp, where(execop, execop.node), f"{pre_paths} path(s): the operation ends de-listed and owning nothing; the pre-emptor keeps what it took")
    # ---- the work function submits a sub-step to the same system (under its own or under the same operation id) and
    # then the outer operation fails / succeeds: the outer operation's resources are released all the same
    re_bad, re_paths = [], 0
    for sub_id in ("op", "sub"):
        for ending in ("work raises", "validation refuses", "completes"):
            def go_r(o, _sub=sub_id, _ending=ending):
                it = Interp(p, o)
                it.stubs["PriorityInheritance.__init__"] = lambda interp, args, kwargs: None
                sysobj = it.instantiate(system, [], {})
                c = sysobj.fields["controller"]
                for nm_ in ("r1", "r2"):
                    c.fields["resources"][nm_] = it.instantiate(lock, [], dict(resource_id=nm_, allow_preemption=False))

                @stub
                def inner_work(interp, args, kwargs):
                    return "inner"

                @stub
                def work(interp, args, kwargs):
                    try:
                        interp.call_fi(execop, [sysobj, _sub, "agent", inner_work, [], None, 5], {})
                    except PyRaise:
                        pass
                    if _ending == "work raises":
                        raise PyRaise(ExcVal("RuntimeError", ("work failed",)))
                    return "result"

                @stub
                def validate(interp, args, kwargs):
                    return _ending != "validation refuses"
                try:
                    it.call_fi(execop, [sysobj, "op", "agent", work, ["r1", "r2"], validate, 5], {})
                except PyRaise as e:
                    return dict(raised=repr(e.exc), owners={nm_: c.fields["resources"][nm_].fields["owner"] for nm_ in ("r1", "r2")}, active="op" in c.fields["active_operations"])
                return dict(owners={nm_: c.fields["resources"][nm_].fields["owner"] for nm_ in ("r1", "r2")}, active="op" in c.fields["active_operations"])
            try:
                rp = [r for _, r in explore(go_r, max_paths=400)]
            except Imprecise as e:
                led.info(f"re-entrant sub-step scenario not interpreted ({e})")
                continue
            for r in rp:
                re_paths += 1
                tag = f"work submits a sub-step under id {sub_id!r}, then {ending}"
                held = [k_ for k_, v_ in r["owners"].items() if v_ == "op"]
                if held:
                    re_bad.append(f"{tag}: {held} still owned by the ended operation")
                if r["active"]:
                    re_bad.append(f"{tag}: the operation is still listed as active")
    keyr = "CoordinationSystem.execute_operation ▸ a sub-step submitted from the work function does not make the outer operation keep its resources"
    if re_bad:
        led.fail("C14-R6", keyr, where(execop, execop.node), sorted(set(re_bad))[0], path=sorted(set(re_bad))[:6],
                 witness="work() runs a resource-less sub-step under the same operation id, then raises: db / file / gpu stay owned by the ended operation")
    elif re_paths:
        led.ok("C14-R6", keyr, where(execop, execop.node), f"{re_paths} path(s): 2 sub-step ids × 3 endings")
    led.floors["C14-R6"] = (1, "aggregated obligations")
    led.extra["fault_table"] = dict(configurations=n_runs[0], paths=n_paths[0], preemption_paths=pre_paths)
    return not bad and not bad4 and not pre_bad and not re_bad
