"""C05 — energy store operations are atomic under every thread interleaving."""
from __future__ import annotations

import ast

from ..loader import dotted, AnchorError, is_self_attr, parent, short, src, walk_no_nested
from ..locks import LockAnalysis, held_at, regions, _ordered_pair_lock_attrs
from ..resolve import Resolver
from ..rules import accessor_field, attr_writes, where

FILES = ["operon_ai/state/metabolism.py", "operon_ai/topology/quorum.py", "operon_ai/topology/loops.py", "operon_ai/core/agent.py"]

CORE_PUBLIC = {"atp", "gtp", "nadh"}
OPERATIONS = ["consume", "regenerate", "transfer_to", "convert_nadh_to_atp", "reset", "enter_dormancy", "exit_dormancy"]
# methods outside the statement's operation list, with the reason (one named symbol each)
EXCLUDED = {
    "__init__": "construction: the object is not shared yet",
    "apply_debt_interest": "interest is explicitly outside the statement ('interest aside'); reported as INFO",
}


def _pair_covers(w, recv_name):
    """is `recv_name` one of the two instances whose locks the ordered-pair with statement `w` holds?  (the names of the
    unpacked pair are bound to a permutation of (self, <peer>): the peer is the other member)"""
    names = {it.context_expr.value.id for it in w.items if isinstance(it.context_expr, ast.Attribute) and isinstance(it.context_expr.value, ast.Name)}
    fn = parent(w)
    while fn is not None and not isinstance(fn, (ast.FunctionDef, ast.AsyncFunctionDef)):
        fn = parent(fn)
    for st in ast.walk(fn) if fn is not None else ():
        if isinstance(st, ast.Assign) and len(st.targets) == 1 and isinstance(st.targets[0], ast.Tuple) and {t.id for t in st.targets[0].elts if isinstance(t, ast.Name)} == names:
            members = {y.id for y in ast.walk(st.value) if isinstance(y, ast.Name)}
            if recv_name not in members:
                return False
            # … and the order must be a global one (by id()): a fixed (self, other) order deadlocks opposite-direction transfers
            v = st.value
            if isinstance(v, ast.IfExp) and isinstance(v.test, ast.Compare) and isinstance(v.body, ast.Tuple) and isinstance(v.orelse, ast.Tuple):
                ids = [src(c.args[0]) for c in ast.walk(v.test) if isinstance(c, ast.Call) and isinstance(c.func, ast.Name) and c.func.id == "id" and len(c.args) == 1]
                b, o = [src(x) for x in v.body.elts], [src(x) for x in v.orelse.elts]
                return len(b) == 2 and o == b[::-1] and sorted(ids) == sorted(b)
            if isinstance(v, ast.Call) and isinstance(v.func, ast.Name) and v.func.id == "sorted":
                return any(k.arg == "key" and isinstance(k.value, ast.Name) and k.value.id == "id" for k in v.keywords)
            return False
    return False


def _writes_through(la, t, protected, setattr_sites, lock, depth=0):
    """does t (a method that takes the lock) write a protected field through a helper it calls under the lock?"""
    if depth > 2:
        return False
    for c in ast.walk(t.node):
        if isinstance(c, ast.Call) and isinstance(c.func, ast.Attribute) and isinstance(c.func.value, ast.Name) and c.func.value.id == "self":
            for g in la.res.resolve_call(t, c):
                if g.cls in la.family and g is not t:
                    if any(is_self_attr(x) and x.attr in protected and isinstance(x.ctx, (ast.Store, ast.Del)) for x in ast.walk(g.node)) or any(m2 is g for m2, _ in setattr_sites) \
                            or _writes_through(la, g, protected, setattr_sites, lock, depth + 1):
                        return True
    return False


def run(p, led, tier):
    res = Resolver(p)
    store = p.cls("ATP_Store", "operon_ai/state/metabolism.py")
    la = LockAnalysis(p, res, store)
    led.explanation = (
        "Static lockset analysis of ATP_Store: the fields the store lock protects are discovered from the writes "
        "made inside its with-regions; every read-for-update and write of those fields in every operation must be "
        "inside one single region of the store's own lock (helpers are accepted when every call site package-wide "
        "holds it); no statement inside a region may reach an acquisition of any store lock (own: the lock is "
        "non-re-entrant; peer: lock order); nobody outside the class writes the fields. Together: each operation "
        "is one critical section per store ⇒ serialisable; no nested store locks ⇒ deadlock-free.")
    led.level = "proof"
    led.not_decided = ["schedules involving apply_debt_interest (unlocked read-modify-write, outside the statement's operation list)",
                       "re-entrant user callbacks (on_state_change runs under the lock — assumption A3)"]
    led.assumptions = ["A1 no reflection", "A3 on_state_change does not call back into the store", "threading.Lock is non-re-entrant; `with` releases on every exit"]
    led.rule("C05-R1", "every read-for-update and write of a lock-protected field happens while the store's own lock is held", 12)
    led.rule("C05-R2", "each operation touches the protected fields in exactly one critical section (no check-then-act across regions)", 3)
    led.rule("C05-R3", "no statement executed while a store lock is held can acquire any store lock", 5)
    led.rule("C05-R4", "no write to the protected fields outside ATP_Store", 1)

    # ---- R0 the lock is one object for the life of the store: created in the constructor, never built or rebound later
    led.rule("C05-R0", "the store's lock is created once, in the constructor; no method builds or rebinds it later (a lazily built lock can be built twice by two first users)", 1)
    late = []
    for m in store.methods.values():
        if m.name in ("__init__", "__post_init__", "__setstate__", "__deepcopy__", "__copy__"):
            continue
        for n in ast.walk(m.node):
            if isinstance(n, (ast.Assign, ast.AnnAssign)) and n.value is not None and isinstance(n.value, ast.Call) and (dotted(n.value.func) or "").split(".")[-1] in ("Lock", "RLock") \
                    and any(is_self_attr(t) for t in (n.targets if isinstance(n, ast.Assign) else [n.target])):
                late.append((m, n))
    if late:
        m, n = late[0]
        led.fail("C05-R0", f"ATP_Store.{m.name} ▸ `{short(n, 60)}`", where(m, n),
                 "the lock is built outside the constructor: two threads making the first locked calls can each build and hold their own lock, so the critical sections no longer exclude each other",
                 witness="fresh ATP_Store(100); two threads call consume(60) at once: both succeed, balance −20")
        led.info("lock identity is broken; the lockset rules below are not evaluated on this tree")
        return
    led.ok("C05-R0", "ATP_Store ▸ lock construction sites", where(store.methods["__init__"], store.methods["__init__"].node) if "__init__" in store.methods else "operon_ai/state/metabolism.py",
           "threading locks are assigned only in the constructor (and unpickling / copying hooks)")
    if len(la.locks) > 1:
        # a second lock for something else (a listener list): the store lock is the one whose regions write the balances
        guards = sorted(a for a in la.locks if any(isinstance(x, ast.Attribute) and isinstance(x.ctx, ast.Store) and is_self_attr(x) and x.attr in ("atp", "gtp", "nadh")
                                                    for m_ in la.methods() for w_, a_ in regions(m_, la.locks) if a_ == a for st_ in w_.body for x in ast.walk(st_)))
        if len(guards) == 1:
            la.locks = {guards[0]: la.locks[guards[0]]}
    if len(la.locks) != 1:
        raise AnchorError(f"ATP_Store is expected to own exactly one threading lock attribute that guards the balances; found {sorted(la.locks)}")
    lock = next(iter(la.locks))
    kind = la.locks[lock]
    held_entry = la.held_on_entry(lock)
    led.extra["lock"] = {"attr": lock, "kind": kind, "held_on_entry_helpers": sorted(held_entry)}

    # ---- protected fields = fields written under the lock
    protected = set()
    for m in la.methods():
        for n in walk_no_nested(m.node):
            tg = []
            if isinstance(n, ast.Assign):
                tg = n.targets
            elif isinstance(n, (ast.AugAssign, ast.AnnAssign)):
                tg = [n.target]
            for t in tg:
                if is_self_attr(t) and (lock in held_at(n, la.locks) or m.key in held_entry) and m.name != "__init__":
                    protected.add(t.attr)
    # writes through `setattr(self, <name from a table>, v)` (a per-currency table of attribute names): the names such a
    # table can hold are the string constants of the module's literal tables that name instance attributes of the store
    init_attrs = {t.attr for n in ast.walk(store.methods["__init__"].node) if isinstance(n, (ast.Assign, ast.AnnAssign, ast.AugAssign))
                  for t in (n.targets if isinstance(n, ast.Assign) else [n.target]) if is_self_attr(t)} if "__init__" in store.methods else set()
    table_names = set()
    for st_ in store.module.tree.body:
        v_ = getattr(st_, "value", None)
        if isinstance(st_, (ast.Assign, ast.AnnAssign)) and isinstance(v_, (ast.Dict, ast.Tuple, ast.List)):
            table_names |= {c.value for c in ast.walk(v_) if isinstance(c, ast.Constant) and isinstance(c.value, str) and c.value in init_attrs}
    SETATTR_SITES = []
    for m in la.methods():
        for n in walk_no_nested(m.node):
            if isinstance(n, ast.Call) and isinstance(n.func, ast.Name) and n.func.id == "setattr" and len(n.args) == 3 and isinstance(n.args[0], ast.Name) and n.args[0].id == "self" \
                    and not isinstance(n.args[1], ast.Constant) and m.name != "__init__":
                SETATTR_SITES.append((m, n))
                if lock in held_at(n, la.locks) or m.key in held_entry:
                    protected |= table_names
    CORE = CORE_PUBLIC | {f for f in (accessor_field(p, store, "get_debt"), accessor_field(p, store, "get_state")) if f}
    if len(CORE) < 5 or not CORE <= protected:
        raise AnchorError(f"protected-field discovery lost core fields: {sorted(CORE - protected)} (core = balances + the fields behind get_debt/get_state)")
    led.extra["protected_fields"] = sorted(protected)

    for op in OPERATIONS:
        if p.find_method(store, op) is None:
            raise AnchorError(f"ATP_Store.{op} not found")

    # ---- R1 / R2 per method
    for m in la.methods():
        writes = []
        reads = []
        for n in walk_no_nested(m.node):
            if is_self_attr(n) and n.attr in protected:
                if isinstance(n.ctx, (ast.Store, ast.Del)):
                    writes.append(n)
                else:
                    reads.append(n)
        # a table-driven write: setattr(self, <table name>, v) writes one of the table's attributes
        for m2_, n2_ in SETATTR_SITES:
            if m2_ is m and table_names & protected:
                writes.append(n2_)
        # mutating calls on protected containers
        for f in protected:
            for k, n in attr_writes(m.node, f, "self"):
                if k.startswith("mutcall") or k.startswith("subscript"):
                    writes.append(n)
        if not writes:
            continue
        if m.name in EXCLUDED:
            if m.name != "__init__":
                led.info(f"{m.qual} writes {sorted({getattr(w, 'attr', '?') for w in writes})} without the lock — {EXCLUDED[m.name]}")
            continue
        regs = [w for w, a in regions(m, la.locks) if a == lock]
        is_helper = m.key in held_entry
        for n in writes + reads:
            key = f"{m.qual} ▸ {'write' if n in writes else 'read'} {short(n, 40)} @{_stmt_text(n)}"
            if lock in held_at(n, la.locks):
                led.ok("C05-R1", key, where(m, n), "inside `with self._lock`")
            elif is_helper:
                led.ok("C05-R1", key, where(m, n), "helper entered only from call sites that hold the lock (package-wide call-site check)")
            else:
                led.fail("C05-R1", key, where(m, n),
                         f"protected field accessed by an operation that updates it, outside the store lock: a concurrent {m.name} can interleave between this access and the update (lost update / overdraft)")
        if not is_helper:
            key = f"{m.qual} ▸ one critical section"
            if len(regs) == 1:
                led.ok("C05-R2", key, where(m, regs[0]), "exactly one region of the store lock contains every protected access")
            elif len(regs) == 0:
                led.fail("C05-R2", key, where(m, m.node), "operation updates protected fields without any region of the store lock")
            else:
                led.fail("C05-R2", key, where(m, regs[1]), f"{len(regs)} separate regions of the store lock in one operation: test and update can be separated by another thread")

    # ---- R2c an operation is one critical section also when its body lives in helpers: a public operation that (outside any
    # region of its own) calls two or more same-instance helpers each of which takes the store lock itself is split in two
    LEDGER = set(CORE_PUBLIC) | ({accessor_field(p, store, "get_debt")} - {None})          # balances and debt: what a spend / regeneration must change in one step
    for m in la.methods():
        if m.name.startswith("_") or m.name in EXCLUDED or m.name == "transfer_to":      # a transfer is two steps by nature (two stores); its steps are judged by R3 / C04
            continue
        own = [w for w, a in regions(m, la.locks) if a == lock and any(is_self_attr(x) and x.attr in LEDGER and isinstance(x.ctx, (ast.Store, ast.Del)) for st0 in w.body for x in ast.walk(st0))]
        taking = []
        for st in walk_no_nested(m.node):
            if isinstance(st, ast.Call) and isinstance(st.func, ast.Attribute) and isinstance(st.func.value, ast.Name) and st.func.value.id == "self" and lock not in held_at(st, la.locks):
                for t in res.resolve_call(m, st):
                    if t.cls in la.family and lock in la.may_acquire(t) and any(is_self_attr(x) and x.attr in LEDGER and isinstance(x.ctx, (ast.Store, ast.Del)) for x in ast.walk(t.node)) | bool([1 for m2_, _ in SETATTR_SITES if m2_ is t]) | _writes_through(la, t, LEDGER, SETATTR_SITES, lock):
                        taking.append((st, t))
        sections = len(own) + len(taking)
        if taking and sections > 1:
            st, t = taking[1] if len(taking) > 1 else taking[0]
            led.fail("C05-R2", f"{m.qual} ▸ one critical section (helpers included)", where(m, st),
                     f"the operation is made of {sections} separate critical sections ({', '.join(sorted({x.name for _, x in taking}))} each take and drop the store lock): another thread's spend or transfer "
                     "can run between them, and the result is not that of any sequential order",
                     witness="store in debt: regenerate(10) pays the debt, drops the lock, a concurrent consume(allow_debt=True) borrows again, then the remainder is credited")
    # ---- R3 nothing under the lock (re)acquires a store lock
    # (a) directly: a with statement that takes another instance's lock while this one's is held (in the same statement or
    #     an enclosing one) — unless both are taken through the id()-ordered pair idiom
    for m in la.methods():
        for w in walk_no_nested(m.node):
            if not isinstance(w, ast.With):
                continue
            peers = [it_.context_expr for it_ in w.items if isinstance(it_.context_expr, ast.Attribute) and it_.context_expr.attr == lock
                     and isinstance(it_.context_expr.value, ast.Name) and it_.context_expr.value.id != "self"]
            if not peers:
                continue
            key = f"{m.qual} ▸ with {', '.join(src(x) for x in peers)}"
            if lock in _ordered_pair_lock_attrs(w):
                if _pair_covers(w, "self"):
                    led.ok("C05-R3", key, where(m, w), "both instances' locks are taken in one global order (by id()): opposite-direction calls cannot wait for each other")
                else:
                    led.fail("C05-R3", key, where(m, w), "takes two stores' locks in an order that is not global (not by id()): opposite-direction transfers deadlock",
                             witness="a.transfer_to(b) and b.transfer_to(a) concurrently: each holds its own lock and waits for the other's")
                continue
            own_here = any(isinstance(it_.context_expr, ast.Attribute) and is_self_attr(it_.context_expr) and it_.context_expr.attr == lock for it_ in w.items)
            if own_here or lock in held_at(w, la.locks):
                led.fail("C05-R3", key, where(m, w), "acquires a peer store's lock while holding its own: opposite-direction transfers deadlock",
                         witness="a.transfer_to(b) and b.transfer_to(a) concurrently: each holds its own lock and waits for the other's")
    for m in la.methods():
        for w, a in regions(m, la.locks):
            if a != lock:
                continue
            n_calls = 0
            bad = False
            for st in w.body:
                for c in ast.walk(st):
                    if not isinstance(c, ast.Call):
                        continue
                    for t in res.resolve_call(m, c):
                        if t.cls in la.family:
                            n_calls += 1
                            may = la.may_acquire(t)
                            if lock in may:
                                recv = src(c.func.value) if isinstance(c.func, ast.Attribute) else "?"
                                same = recv == "self"
                                if same and kind == "RLock":
                                    continue
                                if not same and kind == "RLock" and isinstance(w, ast.With) and lock in _ordered_pair_lock_attrs(w) and \
                                        any(isinstance(it_.context_expr, ast.Attribute) and it_.context_expr.attr == lock for it_ in w.items) and \
                                        _pair_covers(w, recv):
                                    # both stores' locks were taken up front, in one global order, by this very with statement: the
                                    # peer's (re-entrant) lock is already ours, the call cannot wait for anyone
                                    continue
                                bad = True
                                led.fail("C05-R3", f"{m.qual} ▸ under lock ▸ {short(c, 50)}", where(m, c),
                                         ("re-acquires this store's non-re-entrant lock: the call never returns" if same else
                                          "acquires a peer store's lock while holding its own: opposite-direction transfers deadlock"),
                                         path=may[lock])
            if not bad:
                led.ok("C05-R3", f"{m.qual} ▸ region@{_stmt_text(w)}", where(m, w), f"{n_calls} call(s) on store objects inside the region; none reaches an acquisition of a store lock")
    # callbacks under the lock (assumption listing)
    for m in la.methods():
        for n in walk_no_nested(m.node):
            if isinstance(n, ast.Call) and is_self_attr(n.func) and n.func.attr.startswith("on_") and (lock in held_at(n, la.locks) or m.key in held_entry):
                led.info(f"{m.qual} invokes user callback `{src(n.func)}` while the lock is held (A3)")

    # ---- R4 ownership
    n_sites = 0
    for fi in p.all_funcs:
        if fi.cls in la.family:
            continue
        for f in protected:
            for k, n in attr_writes(fi.node, f, None):
                recv = _receiver(n, f)
                if recv is None:
                    continue
                c = res.expr_class(fi, recv)
                if c in la.family:
                    n_sites += 1
                    led.fail("C05-R4", f"{fi.qual} ▸ {k} {short(n, 50)}", where(fi, n), "store field written from outside ATP_Store, bypassing the lock")
    led.ok("C05-R4", "package ▸ writers of store fields", "operon_ai/", f"scanned {len(p.all_funcs)} functions: {n_sites} foreign writer(s) of {sorted(protected)} on ATP_Store-typed receivers")


def _receiver(n, f):
    for x in ast.walk(n):
        if isinstance(x, ast.Attribute) and x.attr == f and isinstance(x.ctx, (ast.Store, ast.Del)):
            return x.value
        if isinstance(x, ast.Call) and isinstance(x.func, ast.Attribute) and isinstance(x.func.value, ast.Attribute) and x.func.value.attr == f:
            return x.func.value.value
        if isinstance(x, ast.Subscript) and isinstance(x.value, ast.Attribute) and x.value.attr == f and isinstance(x.ctx, (ast.Store, ast.Del)):
            return x.value.value
    return None


def _stmt_text(n):
    q = n
    while q is not None and not isinstance(q, ast.stmt):
        q = parent(q)
    if isinstance(q, (ast.With, ast.If, ast.For, ast.While, ast.Try)):
        head = src(q).split("\n")[0]
        return head[:60]
    return short(q, 60) if q is not None else "?"
